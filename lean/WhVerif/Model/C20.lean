import WhVerif.Model.C04
/-!
# C20 model: the three auxiliary lists of `whatshap phase`

* `readListRows` = `ReadList.write` (`cli/phase.py`): one row per read handed to the solver, phase set =
  `components[read[0].position] + 1`, haplotype = the solver's partition entry.
* `findRecombination` = `pedigree.py:find_recombination` (note the loop starts at index 2 of a block),
  `recombRows` = `write_recombination_list` (transmission value of trio k = `(v // 4^k) % 4`).
* the changed-genotype rows are the `GtChange`s returned by the record writer (`Model/C04.lean`).
* `run` = the chromosome × family loop of `run_whatshap` as a state machine over the content of the three
  files: the read list is opened once (`ReadList.__enter__`) and appended; the other two are written by
  `write_changed_genotypes` (once per processed chromosome) and `write_recombination_list` (once per
  chromosome and family).  `Opts.repaired = false`: the code as it is (defect F1: both open the file with
  `"w"` on every call); `true`: after `fixes/F1.patch` (first call creates the file and its header, later
  calls append).  Chromosomes not selected by `--chromosome` are copied and write nothing.

File content is the list of data rows (`none` = the file was not written in this run); the header line is
implicit.
-/
namespace WhVerif.C20
open WhVerif.C04

structure Read where
  name : String
  sourceId : Int
  /-- `numeric_id_to_name[read.sample_id]` -/
  sample : String
  /-- variant positions in read order -/
  positions : List Nat
deriving DecidableEq, Repr

/-- what the trace hook records for one (chromosome, family) -/
structure Inst where
  chrom : String
  /-- `all_reads`, in solver order -/
  reads : List Read
  /-- `dp_table.get_optimal_partitioning()` -/
  partition : List Nat
  /-- `overall_components` -/
  comps : List (Nat × Nat)
  /-- `accessible_positions` (sorted) -/
  positions : List Nat
  recomb : List Nat
  /-- transmission vector, one value per accessible position -/
  tv : List Nat
  /-- `trio.child for trio in trios` -/
  children : List String
deriving Repr

structure ReadRow where
  name : String
  sourceId : Int
  sample : String
  phaseSet : Nat
  hap : Nat
  nVariants : Nat
  first : Nat
  last : Nat
deriving DecidableEq, Repr

/-- one row of `ReadList.write`; `none` = the code would raise (empty read / position without component) -/
def readRow (comps : List (Nat × Nat)) (r : Read) (h : Nat) : Option ReadRow :=
  match r.positions.head?, r.positions.getLast?, r.positions.head?.bind (alookup comps) with
  | some f, some l, some c => some ⟨r.name, r.sourceId, r.sample, c + 1, h, r.positions.length, f + 1, l + 1⟩
  | _, _, _ => none

def readListRows (i : Inst) : List ReadRow :=
  (i.reads.zip i.partition).filterMap fun rh => readRow i.comps rh.1 rh.2

/-! ### recombination events -/

structure RecEvent where
  p1 : Nat
  p2 : Nat
  f1 : Nat
  f2 : Nat
  m1 : Nat
  m2 : Nat
  cost : Nat
deriving DecidableEq, Repr

def indexOf (l : List Nat) (p : Nat) : Nat := l.findIdx (· == p)

/-- value of a per-position vector at position `p` -/
def atPos (positions vec : List Nat) (p : Nat) : Nat := vec.getD (indexOf positions p) 0

def mkEvent (positions tv recomb : List Nat) (a b : Nat) : RecEvent :=
  let ta := atPos positions tv a
  let tb := atPos positions tv b
  ⟨a, b, ta % 2, tb % 2, ta / 2, tb / 2, atPos positions recomb b⟩

/-- events between consecutive members of a (sorted) block -/
def scanBlock (positions tv recomb : List Nat) : List Nat → List RecEvent
  | a :: b :: rest =>
    (if atPos positions tv a ≠ atPos positions tv b then [mkEvent positions tv recomb a b] else [])
      ++ scanBlock positions tv recomb (b :: rest)
  | _ => []

def blockIds (comps : List (Nat × Nat)) : List Nat := (comps.map (·.2)).eraseDups

def blockOf (comps : List (Nat × Nat)) (b : Nat) : List Nat := sortNat ((comps.filter (·.2 == b)).map (·.1))

def evLe (a b : RecEvent) : Bool := a.p1 < b.p1 || (a.p1 == b.p1 && a.p2 ≤ b.p2)

def insertEv (e : RecEvent) : List RecEvent → List RecEvent
  | [] => [e]
  | x :: r => if evLe e x then e :: x :: r else x :: insertEv e r

def sortEv : List RecEvent → List RecEvent
  | [] => []
  | e :: r => insertEv e (sortEv r)

/-- `find_recombination`: `for i in range(2, len(block))` compares `block[i-1]` with `block[i]`, i.e. the
    scan starts at the second member of the block -/
def findRecombination (tv : List Nat) (comps : List (Nat × Nat)) (positions recomb : List Nat) : List RecEvent :=
  sortEv ((blockIds comps).flatMap fun b => scanBlock positions tv recomb (blockOf comps b).tail)

structure RecRow where
  child : String
  chrom : String
  pos1 : Nat
  pos2 : Nat
  f1 : Nat
  f2 : Nat
  m1 : Nat
  m2 : Nat
  cost : Nat
deriving DecidableEq, Repr

def tvOfTrio (tv : List Nat) (k : Nat) : List Nat := tv.map fun v => (v / 4 ^ k) % 4

def recombRowsFrom (i : Inst) : Nat → List String → List RecRow
  | _, [] => []
  | k, child :: rest =>
    ((findRecombination (tvOfTrio i.tv k) i.comps i.positions i.recomb).map fun e =>
        (⟨child, i.chrom, e.p1 + 1, e.p2 + 1, e.f1, e.f2, e.m1, e.m2, e.cost⟩ : RecRow))
      ++ recombRowsFrom i (k + 1) rest

def recombRows (i : Inst) : List RecRow := recombRowsFrom i 0 i.children

/-! ### the run as a state machine over the three files -/

structure Opts where
  readList : Bool
  gtList : Bool
  recList : Bool
  repaired : Bool
deriving Repr

structure Files where
  readList : Option (List ReadRow)
  gtList : Option (List GtChange)
  recList : Option (List RecRow)
deriving Repr

structure ChromRun where
  /-- `false`: not requested by `--chromosome`: copied unchanged, no list is written -/
  selected : Bool
  families : List Inst
  /-- what `vcf_writer.write` returned for this chromosome -/
  gtChanges : List GtChange
deriving Repr

/-- `open(path, "w")` + rows on every call (as coded) / create-then-append (repaired) -/
def writeList {α} (repaired : Bool) (old : Option (List α)) (rows : List α) : Option (List α) :=
  if repaired then some (old.getD [] ++ rows) else some rows

def famStep (o : Opts) (fs : Files) (i : Inst) : Files :=
  let fs1 := if o.recList then { fs with recList := writeList o.repaired fs.recList (recombRows i) } else fs
  if o.readList then { fs1 with readList := fs1.readList.map (· ++ readListRows i) } else fs1

def chromStep (o : Opts) (fs : Files) (c : ChromRun) : Files :=
  if c.selected then
    let fs1 := c.families.foldl (famStep o) fs
    if o.gtList then { fs1 with gtList := writeList o.repaired fs1.gtList c.gtChanges } else fs1
  else fs

def initFiles (o : Opts) : Files := ⟨if o.readList then some [] else none, none, none⟩

def run (o : Opts) (chroms : List ChromRun) : Files := chroms.foldl (chromStep o) (initFiles o)

/-! ### what the files should contain -/

def selectedChroms (chroms : List ChromRun) : List ChromRun := chroms.filter (·.selected)
def allInsts (chroms : List ChromRun) : List Inst := (selectedChroms chroms).flatMap (·.families)

end WhVerif.C20

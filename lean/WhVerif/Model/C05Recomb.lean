/-!
# C05 model: the per-column recombination cost vector of `whatshap phase --ped`

Core Lean only.  `whatshap/pedigree.py`: `recombination_cost_map` (genetic map, `--genmap`), `_interpolate`,
`UniformRecombinationCostComputer.uniform_recombination_map` (`--recombrate`), `centimorgen_to_phred`;
`whatshap/cli/phase.py`: `recombination_costs = recombination_cost_computer.compute(accessible_positions)` is handed
unchanged to `PedigreeDPTable(all_reads, recombination_costs, pedigree, distrust_genotypes, accessible_positions)`,
which charges `popcount(t_c xor t_{c-1}) · recombination_costs[c]` for column `c ≥ 1` (entry 0 is never read).

The code computes in Python `float` (IEEE double) and rounds (`round`: half to even) to `int`.  The model is written
ONCE over an abstract arithmetic `Ops α` and instantiated

* with `α = Float` (`floatOps`): executable, the FLOAT STAGE exactly as coded (same libm `exp`/`log10`); it is compared
  with the real functions by the check, nothing is proved about it (Lean's `Float` is opaque to proofs);
* with any lawful ordered arithmetic (`Lemmas/C05Recomb.lean`): the INTEGER STAGE — everything after
  `round(centimorgen_to_phred(d))`, i.e. the clamp `max(d, 1e-10)`, the shape of the vector, which positions an entry
  depends on — is proved for every arithmetic in which `<` is a strict weak order and the rounded phred value is
  antitone in the distance.

Errors are Python exceptions by name (`AssertionError`, `ValueError`, `ZeroDivisionError`, `IndexError`).
-/
namespace WhVerif.C05.Recomb

/-- the arithmetic the code uses (`float` in Python) -/
structure Ops (α : Type) where
  /-- `float(int)` (implicit conversion in mixed arithmetic) -/
  ofInt : Int → α
  add : α → α → α
  sub : α → α → α
  mul : α → α → α
  /-- `a / b`; the model only divides by non-zero values or raises first -/
  div : α → α → α
  /-- `a < b` -/
  lt : α → α → Bool
  /-- `a == b` -/
  eq : α → α → Bool
  /-- `MINIMUM_GENETIC_DISTANCE = 1e-10` -/
  minDist : α
  /-- the literal `1e-6` -/
  micro : α
  /-- `round(centimorgen_to_phred(d))` -/
  phredRound : α → Except String Int

/-- `RecombinationMapEntry` -/
structure MapEntry (α : Type) where
  position : Int
  cumDistance : α

variable {α : Type}

/-- `_interpolate(point, start_pos, end_pos, start_value, end_value)` -/
def interpolate (A : Ops α) (point startPos endPos : Int) (sv ev : α) : Except String α :=
  if !(decide (startPos ≤ point) && decide (point ≤ endPos)) then .error "AssertionError"
  else if startPos = point ∧ point = endPos then
    if A.eq sv ev then .ok sv else .error "AssertionError"
  else .ok (A.add sv (A.div (A.mul (A.ofInt (point - startPos)) (A.sub ev sv)) (A.ofInt (endPos - startPos))))

/-- `while (i is not None) and (i + 1 < len(genetic_map)) and (genetic_map[i + 1].position <= position): i += 1` -/
def advanceI (gm : Array (MapEntry α)) (position : Int) : Nat → Nat → Nat
  | 0, i => i
  | fuel + 1, i =>
    if h : i + 1 < gm.size then
      if gm[i + 1].position ≤ position then advanceI gm position fuel (i + 1) else i
    else i

/-- `while (j is not None) and (genetic_map[j].position < position): j = j + 1 if j + 1 < len else None` -/
def advanceJ (gm : Array (MapEntry α)) (position : Int) : Nat → Nat → Option Nat
  | 0, j => some j
  | fuel + 1, j =>
    if h : j < gm.size then
      if gm[j].position < position then
        if j + 1 < gm.size then advanceJ gm position fuel (j + 1) else none
      else some j
    else some j

/-- one pass of the `for position in positions` loop of step 1: new `(i, j)` and the cumulative distance -/
def cumStep (A : Ops α) (gm : Array (MapEntry α)) (st : Option Nat × Option Nat) (position : Int) :
    Except String ((Option Nat × Option Nat) × α) := do
  let first ← match gm[0]? with
    | some e => pure e
    | none => throw "IndexError"
  let last := gm[gm.size - 1]?.getD first
  -- update i
  let i0 : Option Nat := match st.1 with
    | none => if first.position ≤ position then some 0 else none
    | some i => some i
  let i : Option Nat := i0.map (advanceI gm position gm.size)
  -- update j
  let j : Option Nat := st.2.bind (advanceJ gm position (gm.size + 1))
  -- interpolate
  let d ← match i, j with
    | none, none => throw "AssertionError"             -- `assert j is not None`
    | none, some j =>
      let ej := gm[j]?.getD first
      interpolate A position 0 ej.position (A.ofInt 0) ej.cumDistance
    | some _, none =>
      -- outside the genetic map: extrapolate with the average rate
      if last.position = 0 then throw "ZeroDivisionError"
      else
        let avg := A.div last.cumDistance (A.ofInt last.position)
        pure (A.add last.cumDistance (A.mul (A.ofInt (position - last.position)) avg))
    | some i, some j =>
      let ei := gm[i]?.getD first
      let ej := gm[j]?.getD first
      interpolate A position ei.position ej.position ei.cumDistance ej.cumDistance
  pure ((i, j), d)

/-- step 1 of `recombination_cost_map`: cumulative genetic distance of every position -/
def cumulativeDistances (A : Ops α) (gm : Array (MapEntry α)) (positions : List Int) : Except String (List α) :=
  let rec go (st : Option Nat × Option Nat) : List Int → Except String (List α)
    | [] => pure []
    | p :: ps => do
      let (st', d) ← cumStep A gm st p
      let rest ← go st' ps
      pure (d :: rest)
  go (none, some 0) positions

/-- `d = max(d, MINIMUM_GENETIC_DISTANCE)` (Python's `max` returns its first argument unless the second is greater) -/
def clampDist (A : Ops α) (d : α) : α := if A.lt d A.minDist then A.minDist else d

/-- consecutive pairs `(x_{i-1}, x_i)` -/
def pairsOf {β} : List β → List (β × β)
  | a :: b :: rest => (a, b) :: pairsOf (b :: rest)
  | _ => []

/-- step 2: `[0] + [round(centimorgen_to_phred(max(cum[i] - cum[i-1], 1e-10))) for i in 1..]` -/
def costsFromCum (A : Ops α) (cum : List α) : Except String (List Int) := do
  let rest ← (pairsOf cum).mapM (fun ab => A.phredRound (clampDist A (A.sub ab.2 ab.1)))
  pure (0 :: rest)

/-- `recombination_cost_map(genetic_map, positions)` -/
def recombinationCostMap (A : Ops α) (gm : Array (MapEntry α)) (positions : List Int) : Except String (List Int) := do
  if gm.size = 0 then throw "AssertionError"
  let cum ← cumulativeDistances A gm positions
  costsFromCum A cum

/-- the distance handed to `centimorgen_to_phred` by the uniform map: `(positions[i] - positions[i-1]) * 1e-6 * recombrate` -/
def uniformDist (A : Ops α) (rate : α) (delta : Int) : α := A.mul (A.mul (A.ofInt delta) A.micro) rate

/-- `UniformRecombinationCostComputer.uniform_recombination_map(recombrate, positions)` -/
def uniformRecombinationMap (A : Ops α) (rate : α) (positions : List Int) : Except String (List Int) := do
  let rest ← (pairsOf positions).mapM (fun ab => A.phredRound (uniformDist A rate (ab.2 - ab.1)))
  pure (0 :: rest)

/-! ## the float instance (executable; compared with the code, nothing is proved about it) -/

/-- `round(x)` of Python for a finite double: exact, half to even; `none` for NaN/±inf (Python raises) -/
def pyRound (x : Float) : Option Int :=
  if x.isNaN || x.isInf then none
  else
    let fl := x.floor
    let frac := x - fl                       -- exact for doubles
    let n : Int := if fl < 0 then -((-fl).toUInt64.toNat : Int) else (fl.toUInt64.toNat : Int)
    if frac < 0.5 then some n
    else if frac > 0.5 then some (n + 1)
    else if n % 2 = 0 then some n else some (n + 1)

/-- `centimorgen_to_phred(distance)` -/
def centimorganToPhred (d : Float) : Except String Float :=
  if !(d >= 0) then .error "AssertionError"
  else if d == 0 then .error "ValueError"
  else if d < 1e-10 then .ok (-10.0 * (Float.log10 d - 2.0))
  else
    let p := (1.0 - Float.exp (-(2.0 * d) / 100.0)) / 2.0
    if p == 0 then .error "ValueError"         -- math.log10(0.0)
    else .ok (-10.0 * Float.log10 p)

def floatPhredRound (d : Float) : Except String Int := do
  let ph ← centimorganToPhred d
  match pyRound ph with
  | some k => pure k
  | none => throw "OverflowError"

def floatOps : Ops Float where
  ofInt := Float.ofInt
  add := (· + ·)
  sub := (· - ·)
  mul := (· * ·)
  div := (· / ·)
  lt := fun a b => a < b
  eq := fun a b => a == b
  minDist := 1e-10
  micro := 1e-6
  phredRound := floatPhredRound

/-! ## integer stage: what the solver does with the vector -/

def popcount (n : Nat) : Nat := if h : n = 0 then 0 else n % 2 + popcount (n / 2)
decreasing_by omega

/-- the recombination part of the solver's objective for a transmission vector `tv`:
`Σ_{c ≥ 1} popcount(tv[c] xor tv[c-1]) · recomb[c]` (entry 0 of `recomb` is ignored) -/
def transitionCost (recomb : List Nat) (tv : List Nat) : Nat :=
  (((pairsOf tv).zip (recomb.drop 1)).map (fun pr => popcount (pr.1.1 ^^^ pr.1.2) * pr.2)).sum

/-- Cython's conversion of the Python list to `vector[unsigned int]`: `none` = OverflowError -/
def toUnsigned (costs : List Int) : Option (List Nat) :=
  costs.mapM (fun k => if 0 ≤ k ∧ k < 4294967296 then some k.toNat else none)

end WhVerif.C05.Recomb

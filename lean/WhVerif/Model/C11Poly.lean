/-!
# C11 model, polyploid part: `src/polyphase/switchflipcalculator.cpp` (`SwitchFlipCalculator::compare`)
# as called through `whatshap/polyphase/solver.pyx:SwitchFlipCalculator.compute_switch_flips_poly`.

Core Lean only.  Faithful to the code as it is:
* permutations in `std::next_permutation` order starting from the identity (= lexicographic);
* a position is a pair of columns `(c0, c1)` (alleles of phasing 0 / phasing 1 across the haplotypes);
  `numFlips π c0 c1 = #{i | c0[π i] ≠ c1[i]}`, `numSwitches π ρ = #{i | π i ≠ ρ i}`;
* first column: `flipCost * numFlips`; later columns: minimum over the *kept* entries of the previous
  column of `score + switchCost * numSwitches`, plus `flipCost * numFlips`;
* pruning exactly as coded: entries with `score ≤ column minimum` are "profitable"; every other entry
  `t` (in permutation order) is erased iff some entry `p` of the *current* profitable list has
  `score t ≥ score p + switchCost * numSwitches t p`; a surviving `t` joins the profitable list only
  while that list has fewer than `ploidy` members;
* scores are C++ doubles; all costs used by whatshap are small integers, so the model uses `Nat`;
* back-tracking follows `pred` pointers.  `pred` is the first strict minimum met while iterating a
  `std::unordered_map` (unspecified order), and the start row is the first strict minimum of the last
  column in such an order.  The model therefore carries, per kept entry, the *set* of `(switches, flips)`
  pairs reachable through arg-min predecessors (`pairs`: what the code may return under some iteration
  order) and one deterministic representative (`rep`: arg-min = first in permutation order);
* quirk kept (finding FC11a): for a single position the back-tracking start evaluates
  `getNumSwitches(currentRow, INVALID)`; `INVALID = 0xf000000000000000`, the mask drops the top nibble,
  so the result is the number of non-zero entries of the permutation = `ploidy - 1`, not 0.
  `fixA = true` models the repaired code (0 switches for a single position).
-/
namespace WhVerif.C11

abbrev Perm := List Nat

/-- all arrangements of `k` elements picked from `l`, first element first: lexicographic if `l` is sorted -/
def permsAux : Nat → List Nat → List (List Nat)
  | 0, _ => [[]]
  | k + 1, l => l.flatMap (fun x => (permsAux k (l.erase x)).map (x :: ·))

/-- `getPermutations()` / `itertools.permutations(range(p))` -/
def perms (p : Nat) : List Perm := permsAux p (List.range p)

/-- number of differing positions of two sequences (zip semantics) -/
def hamming {α : Type} [DecidableEq α] : List α → List α → Nat
  | a :: s, b :: t => (if a = b then 0 else 1) + hamming s t
  | _, _ => 0

/-- `getNumFlips` -/
def numFlips (π : Perm) (c0 c1 : List Nat) : Nat :=
  ((π.zip c1).filter (fun kx => c0.getD kx.1 0 != kx.2)).length

/-- `getNumSwitches` on valid permutations -/
def numSwitches (π ρ : Perm) : Nat := hamming π ρ

def listMin : List Nat → Nat
  | [] => 0
  | a :: t => t.foldl min a

def dedupPairs (l : List (Nat × Nat)) : List (Nat × Nat) := l.eraseDups

structure Entry where
  perm : Perm
  score : Nat
  /-- all `(switches, flips)` the code's back-tracking may report for a path ending here -/
  pairs : List (Nat × Nat)
  /-- the pair reported when every arg-min is the first in permutation order -/
  rep : Nat × Nat
deriving Repr

def firstColumn (ps : List Perm) (fc : Nat) (c0 c1 : List Nat) : List Entry :=
  ps.map fun π => let f := numFlips π c0 c1; ⟨π, fc * f, [(0, f)], (0, f)⟩

/-- the un-pruned next column -/
def fullColumn (ps : List Perm) (sc fc : Nat) (prev : List Entry) (c0 c1 : List Nat) : List Entry :=
  ps.map fun r =>
    let m := listMin (prev.map fun e => e.score + sc * numSwitches r e.perm)
    let f := numFlips r c0 c1
    let argmins := prev.filter fun e => e.score + sc * numSwitches r e.perm == m
    let pairs := dedupPairs (argmins.flatMap fun e => e.pairs.map fun sf => (sf.1 + numSwitches r e.perm, sf.2 + f))
    let rep := match argmins with
      | e :: _ => (e.rep.1 + numSwitches r e.perm, e.rep.2 + f)
      | [] => (0, f)
    ⟨r, m + fc * f, pairs, rep⟩

/-- the loop over `openTuples`: returns the surviving open entries -/
def pruneLoop (p sc : Nat) : List Entry → List Entry → List Entry → List Entry
  | [], _, acc => acc.reverse
  | t :: rest, prof, acc =>
    if prof.all (fun q => decide (t.score < q.score + sc * numSwitches t.perm q.perm)) then
      pruneLoop p sc rest (if prof.length < p then prof ++ [t] else prof) (t :: acc)
    else
      pruneLoop p sc rest prof acc

def prune (p sc : Nat) (full : List Entry) : List Entry :=
  let m := listMin (full.map (·.score))
  let prof := full.filter (fun e => decide (e.score ≤ m))
  let opn := full.filter (fun e => decide (m < e.score))
  let keptOpen := pruneLoop p sc opn prof []
  full.filter fun e => decide (e.score ≤ m) || keptOpen.any (fun k => k.perm == e.perm)

def nextColumn (p : Nat) (ps : List Perm) (sc fc : Nat) (prev : List Entry) (c0 c1 : List Nat) : List Entry :=
  prune p sc (fullColumn ps sc fc prev c0 c1)

def runColumns (p : Nat) (ps : List Perm) (sc fc : Nat) : List Entry → List (List Nat × List Nat) → List Entry
  | col, [] => col
  | col, (c0, c1) :: rest => runColumns p ps sc fc (nextColumn p ps sc fc col c0 c1) rest

structure PolyResult where
  /-- minimum of `sc * switches + fc * flips` over the last kept column -/
  cost : Nat
  /-- `(switches, flips)` under first-arg-min tie-breaking -/
  rep : Nat × Nat
  /-- every `(switches, flips)` the code may return (any hash order) -/
  admissible : List (Nat × Nat)
deriving Repr

/-- `SwitchFlipCalculator::compare` on a non-empty list of positions (`cols`: per position the two columns) -/
def polyCompare (fixA : Bool) (p sc fc : Nat) (cols : List (List Nat × List Nat)) : PolyResult :=
  match cols with
  | [] => ⟨0, (0, 0), [(0, 0)]⟩
  | (c0, c1) :: rest =>
    let ps := perms p
    let last := runColumns p ps sc fc (firstColumn ps fc c0 c1) rest
    let m := listMin (last.map (·.score))
    let argmins := last.filter fun e => e.score == m
    let quirk : Nat := if rest.isEmpty && !fixA then p - 1 else 0
    let adm := dedupPairs (argmins.flatMap fun e => e.pairs.map fun sf => (sf.1 + quirk, sf.2))
    let rep := match argmins with
      | e :: _ => (e.rep.1 + quirk, e.rep.2)
      | [] => (0, 0)
    ⟨m, rep, adm⟩

/-- the un-pruned dynamic program (same recurrences, nothing erased): yard-stick between the coded DP and
the brute-force definition -/
def runColumnsFull (ps : List Perm) (sc fc : Nat) : List Entry → List (List Nat × List Nat) → List Entry
  | col, [] => col
  | col, (c0, c1) :: rest => runColumnsFull ps sc fc (fullColumn ps sc fc col c0 c1) rest

def polyCompareFull (p sc fc : Nat) (cols : List (List Nat × List Nat)) : Nat × List (Nat × Nat) :=
  match cols with
  | [] => (0, [(0, 0)])
  | (c0, c1) :: rest =>
    let ps := perms p
    let last := runColumnsFull ps sc fc (firstColumn ps fc c0 c1) rest
    let m := listMin (last.map (·.score))
    (m, dedupPairs ((last.filter fun e => e.score == m).flatMap (·.pairs)))

end WhVerif.C11

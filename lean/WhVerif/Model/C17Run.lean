import WhVerif.Model.C17
import WhVerif.Model.C10Run
import WhVerif.Model.C09File
/-!
# C17 — `run_haplotagphase` end to end (whatshap/cli/haplotagphase.py as it is at /repo 59721a2)

`Model/C17.lean` has the vote loop, `best_candidate`, the homopolymer walk and the loop body of `consensus`.  Here the
rest of the command, each piece mirroring the code literally, and the composition with `haplotag` (model C10):

* `treadOf`, `readsFor`     the reads `phased_input_reader.read(chromosome, variants, sample)` delivers from the tagged
                            BAM: an alignment as `C10.tagAln` wrote it (`C10.Aln`, HP/PS in `tags`, absent = −1) whose
                            payload carries the SM of its read group and the alleles the reader detects;
                            `--ignore-read-groups` (all reads), a sample without read group (`SampleNotFoundError`:
                            warning, empty read set);
* `consensusNow`            `consensus()` as coded now (after F19/F138): first loop over `phased.items()` (calls with two
                            phased alleles are `already_phased`; those with a truthy block id are handed to the writer
                            with their own phase), then the vote loop skipping them (`consensusAt false` = its body);
* `superReads`, `targetOf`  the two super-reads sorted by position (stable) and the component dict = the `Target` of the
                            writer model (C04/C09);
* `runSample`, `samplesLoop`, `runChrom`, `runFile`
                            the loops of `run_haplotagphase`: error exits in the order of the code (`--reference`
                            missing; `--ignore-read-groups` with a multi-sample VCF; per chromosome `fasta[chromosome]`
                            BEFORE the `--chromosome` test; a chromosome the BAM header does not know; exceptions of the
                            vote/consensus code), `write_unchanged` for chromosomes not requested, and the keep-mode
                            writer `C09.writeChromXF` (`remove_existing_phasing=False`, after F65) on the records.
* `tagRead`                 the composition: a read of the BAM tagged by `C10.tagDecision` against the phased VCF `V`
                            (HP = haplotype + 1, PS = reported set: `C10.newTags`), then read again by haplotagphase with
                            the alleles at ALL variants of the unphased VCF.

Positions of a variant table are unique (`VcfReader` keeps the first record of a position), so the dicts keyed by position
(`phased`, `homozygous`, `allele_to_id`) are `infoAt` on the table.  Block id 0 stands for both falsy block ids of the
reader (0: record without PS, `None`: PS missing).
-/
namespace WhVerif.C17
open WhVerif.C10 (RV Aln Tags PhaseInfo)
open WhVerif.C04 (Record Cfg Target Tag)

/-! ## the reads of the tagged BAM -/

/-- what the model carries along with a tagged alignment -/
structure Payload where
  sample : String                 -- SM of the alignment's read group
  variants : List RV              -- alleles `ReadSetReader` detects at the variants of the table (sorted by position)
deriving Repr

/-- `Read.HP_tag` / `Read.PS_tag`: the alignment's tags, −1 when absent -/
def treadOf (a : Aln Payload) : TRead :=
  ⟨a.tags.ps.getD (-1), match a.tags.hp with | some h => (h : Int) | none => -1, a.rest.variants⟩

/-- `phased_input_reader.read(chromosome, variants, sample)` on a chromosome the BAM knows -/
def readsFor (ignoreRG : Bool) (bamSamples : List String) (sample : String) (alns : List (Aln Payload)) : List TRead :=
  if ignoreRG then alns.map treadOf
  else if !bamSamples.contains sample then []                      -- `SampleNotFoundError`: warning, `ReadSet()`
  else (alns.filter (·.rest.sample == sample)).map treadOf

/-! ## `consensus()` as coded -/

/-- `phase is not None and len(phase.phase) == 2` -/
def alreadyPhased (info : VarInfo) : Bool :=
  match info.phase with
  | some (_, [_, _]) => true
  | _ => false

def isAlready (vars : List VarInfo) (pos : Nat) : Bool :=
  match infoAt vars pos with
  | some info => alreadyPhased info
  | none => false

/-- the first loop: already phased calls with a truthy block id go to the writer with their own phase -/
def keptPhases (vars : List VarInfo) : List Cons :=
  vars.filterMap fun info =>
    match info.phase with
    | some (block, [a0, a1]) => if block = 0 then none else some ⟨info.pos, block - 1, some (a0, a1)⟩
    | _ => none

def consensusNow (par : Params) (ref : Array Char) (vars : List VarInfo) (votes : Votes) : Except Err (List Cons) :=
  match consensusVotes false par ref vars (votes.filter fun e => !isAlready vars e.1) with
  | .error e => .error e
  | .ok cs => .ok (keptPhases vars ++ cs)

/-- one sample of one chromosome: `compute_votes` then `consensus` -/
def runSample (par : Params) (ref : Array Char) (vars : List VarInfo) (reads : List TRead) : Except Err (List Cons) :=
  match computeVotes vars [] reads with
  | .error e => .error e
  | .ok votes => consensusNow par ref vars votes

/-! ## super-reads and components -/

def insertByPos (x : Nat × Nat × Nat) : List (Nat × Nat × Nat) → List (Nat × Nat × Nat)
  | [] => [x]
  | y :: ys => if x.1 < y.1 then x :: y :: ys else y :: insertByPos x ys

/-- `read.sort(key=lambda x: x.position)` (stable) on the zipped super-reads -/
def sortByPos (l : List (Nat × Nat × Nat)) : List (Nat × Nat × Nat) := l.foldr insertByPos []

def superReads (cs : List Cons) : List (Nat × Nat × Nat) :=
  sortByPos (cs.filterMap fun c => c.alleles.map fun ab => (c.pos, ab.1, ab.2))

/-- what `vcf_writer.write` gets for one sample -/
def targetOf (name : String) (cs : List Cons) : Target :=
  ⟨name, (superReads cs).map (fun x => (x.1, (x.2.1 : Int))), (superReads cs).map (fun x => (x.1, (x.2.2 : Int))),
   cs.map fun c => (c.pos, c.component.toNat)⟩

/-! ## the loops of `run_haplotagphase` -/

structure Opts where
  reference : Bool := true          -- `--reference` given
  ignoreRG : Bool := false
  chromosomes : List String := []   -- `--chromosome` (empty = all)
  mav : Bool := true
  par : Params := {}

inductive RunErr
  | referenceMissing                    -- CommandLineError "Option --reference should be specified"
  | needSampleOption                    -- CommandLineError: --ignore-read-groups on a VCF with several samples
  | chromNotInFasta (c : String)        -- `fasta[chromosome]`: KeyError
  | chromNotInBam (c : String)          -- CommandLineError "The chromosome … was not found in the BAM/CRAM file."
  | sample (c s : String) (e : Err)     -- exception in `compute_votes` / `consensus`
deriving Repr, DecidableEq

/-- the variant table of one chromosome for one sample: `zip(variants, phases_of(sample), genotypes_of(sample))` -/
structure SampleTab where
  name : String
  vars : List VarInfo

structure ChromIn where
  name : String
  ref : Option (Array Char)             -- `fasta[chromosome]`
  inBam : Bool                          -- the BAM header has the chromosome
  tables : List SampleTab               -- one per VCF sample, in `vcf_reader.samples` order
  alns : List (Aln Payload)             -- the chromosome's reads in the tagged BAM, in the order the reader delivers them
  records : List Record                 -- the chromosome's records in the variant file (for the writer)

structure ChromOut where
  name : String
  cons : List (String × List Cons)      -- `sample_to_super_reads` / `sample_to_components`; [] when not requested
  records : List Record

/-- `for sample in vcf_reader.samples` -/
def samplesLoop (opts : Opts) (bamSamples : List String) (c : ChromIn) (ref : Array Char) :
    List SampleTab → Except RunErr (List (String × List Cons))
  | [] => .ok []
  | t :: ts =>
    if !c.inBam then .error (.chromNotInBam c.name) else
    match runSample opts.par ref t.vars (readsFor opts.ignoreRG bamSamples t.name c.alns) with
    | .error e => .error (.sample c.name t.name e)
    | .ok cs =>
      match samplesLoop opts bamSamples c ref ts with
      | .error e => .error e
      | .ok r => .ok ((t.name, cs) :: r)

def writerCfg (opts : Opts) (samples : List String) (cons : List (String × List Cons)) : Cfg :=
  { tag := .PS, onlySnvs := false, mav := opts.mav, repaired := true, samples := samples,
    targets := cons.map fun sc => targetOf sc.1 sc.2 }

/-- the body of `for variant_table in vcf_reader` -/
def runChrom (opts : Opts) (samples bamSamples : List String) (c : ChromIn) : Except RunErr ChromOut :=
  match c.ref with
  | none => .error (.chromNotInFasta c.name)
  | some ref =>
    if !opts.chromosomes.isEmpty && !opts.chromosomes.contains c.name then
      .ok ⟨c.name, [], c.records⟩                                      -- `write_unchanged`
    else
      match samplesLoop opts bamSamples c ref c.tables with
      | .error e => .error e
      | .ok cons => .ok ⟨c.name, cons, C04.outRecords (C09.writeChromXF (writerCfg opts samples cons) none c.records)⟩

def chromLoop (opts : Opts) (samples bamSamples : List String) : List ChromIn → Except RunErr (List ChromOut)
  | [] => .ok []
  | c :: cs =>
    match runChrom opts samples bamSamples c with
    | .error e => .error e
    | .ok o =>
      match chromLoop opts samples bamSamples cs with
      | .error e => .error e
      | .ok os => .ok (o :: os)

/-- `run_haplotagphase`: `samples` = the VCF's samples, `bamSamples` = the SM values of the BAM's read groups,
`chroms` = the chromosomes of the variant file in file order (chromosomes only the BAM has are never looked at) -/
def runFile (opts : Opts) (samples bamSamples : List String) (chroms : List ChromIn) : Except RunErr (List ChromOut) :=
  if !opts.reference then .error .referenceMissing
  else if opts.ignoreRG && decide (samples.length > 1) then .error .needSampleOption
  else chromLoop opts samples bamSamples chroms

/-! ## the reader's pairing variant ↔ restricted genotype

`run_haplotagphase` passes `variant_table.variants` and `genotypes_of(sample)` as two parallel lists
(`restricted_genotypes=genotypes`); `ReadSetReader` indexes both with the SAME index into the unfiltered lists
(`detect_alleles_by_alignment`: `variants[index]`, `restricted_genotypes[index]`) and `realign` returns "no allele" for a
record with a symbolic ALT allele (`<DEL>` …), i.e. the test is applied to the PAIR. -/

structure TabVar where
  pos : Nat
  symbolic : Bool                 -- some ALT allele starts with `<`
deriving Repr, DecidableEq

/-- the (variant, restricted genotype) pairs that reach re-alignment -/
def realignPairs (variants : List TabVar) (genotypes : List (List Nat)) : List (TabVar × List Nat) :=
  (variants.zip genotypes).filter fun p => !p.1.symbolic

/-- NOT the code — the yard-stick for seed C17-h: the symbolic records are dropped from the variant list up front,
the genotype list is left as it is, and the two are paired afterwards -/
def realignPairsShifted (variants : List TabVar) (genotypes : List (List Nat)) : List (TabVar × List Nat) :=
  (variants.filter fun v => !v.symbolic).zip genotypes

/-! ## composition with `haplotag` -/

/-- the variants `haplotag` types a read at: the phased heterozygous calls of `V` (`get_variant_information`) -/
def tagVariants (info : PhaseInfo) (full : List RV) : List RV := full.filter fun v => (info.lookup v.pos).isSome

/-- HP/PS `haplotag` writes for a decision (`C10.newTags`) -/
def tagsOfDecision : C10.Decision → Tags
  | .tagged h q ps => { hp := some (h + 1), pc := some q, ps := some ps }
  | _ => {}

/-- a read with alleles `full` (at the variants of the unphased VCF) tagged by `haplotag` against `V` (`info`; single-read
cloud), as `haplotagphase` reads it back -/
def tagRead (info : PhaseInfo) (sample : String) (full : List RV) : Aln Payload :=
  { rest := ⟨sample, full⟩, name := "", unmapped := false, secondary := false, supplementary := false,
    refStart := 0, refEnd := 0, bx := none, tags := tagsOfDecision (C10.tagDecision 2 info (tagVariants info full)) }

end WhVerif.C17

import WhVerif.Model.C01
/-!
# C01 model, part 2: `get_alleles` (super reads with tie flags) and the backtrace (witness).
-/
namespace WhVerif.C01
open WhVerif.Cost

/-! ## super reads (`get_alleles`) -/

/-- per individual `(allele0, allele1)` with 3 = `EQUAL_SCORES`; `none` = exception -/
def getAlleles (I : Inst) (c : Nat) (bs : List Bool) (t : Nat) : Option (List (Nat × Nat)) :=
  let cands := (assignments I c t).map (fun ag => (ag.1, ag.2 + viewCost I c t ag.1 bs))
  match cands with
  | [] => none
  | _ =>
    let best := (cands.map (·.2)).foldl min (cands.head!.2)
    -- `cost <= best_cost` keeps the LAST assignment of minimal cost
    let bestA := ((cands.filter (fun ac => ac.2 == best)).getLast?.map (·.1)).getD 0
    some ((List.range I.nind).map (fun ind =>
      let hap (h : Nat) : Nat :=
        let p := h2p I t ind h
        let best0 := minOver (cands.filter (fun ac => bitOf ac.1 p == 0)) (fun ac => some ac.2)
        let best1 := minOver (cands.filter (fun ac => bitOf ac.1 p == 1)) (fun ac => some ac.2)
        if best0 == best1 then 3 else bitOf bestA p
      (hap 0, hap 1)))

/-! ## witness: backtrace by recomputation (any optimal witness is admissible) -/

def argminOver {α} (l : List α) (f : α → Option Nat) : Option α :=
  l.foldl (fun best a => match best with
    | none => if (f a).isSome then some a else none
    | some b => match f a, f b with
      | some x, some y => if x < y then some a else some b
      | _, _ => some b) none

/-- all tables `0..ncols-2` -/
def allTables (I : Inst) : List (Array (Option Nat)) :=
  (List.range (I.ncols - 1)).map (tableAt I)

/-- index path and transmission path, last column first resolved; returns per column `(idx, t)` -/
def witnessPath (I : Inst) : Option (List (Nat × Nat)) :=
  if I.ncols = 0 then some []
  else
    let tabs := allTables I
    let last := I.ncols - 1
    let prevOf (c : Nat) : Array (Option Nat) := if c = 0 then #[] else tabs.getD (c - 1) #[]
    match argminOver (pairs (2 ^ (I.activeAt last).length) I.ntrans) (fun it => dpCell I last (prevOf last) it.1 it.2) with
    | none => none
    | some start =>
      -- walk back: at column c with chosen (idx, t): choose j minimising prev + recomb, then idx' in column c-1
      let rec go (c : Nat) (cur : Nat × Nat) (acc : List (Nat × Nat)) : Nat → Option (List (Nat × Nat))
        | 0 => some (cur :: acc)
        | fuel + 1 =>
          if c = 0 then some (cur :: acc)
          else
            let bp := cur.1 % 2 ^ (I.sharedAt (c - 1)).length
            let prev := prevOf c
            match argminOver (List.range I.ntrans) (fun j =>
                cadd (prev.getD (bp * I.ntrans + j) none) (some (popcount (cur.2 ^^^ j) * I.recombAt c))) with
            | none => none
            | some j =>
              let k := (I.activeAt (c - 1)).length
              let cands := (List.range (2 ^ k)).filter (fun i => natOfBits (fwdBits I (c - 1) (bitsOf k i)) == bp)
              match argminOver cands (fun i => dpCell I (c - 1) (prevOf (c - 1)) i j) with
              | none => none
              | some i => go (c - 1) (i, j) (cur :: acc) fuel
      go last start [] I.ncols

/-- bipartition of all reads (bit set = haplotype 1) and transmission vector -/
def witness (I : Inst) : Option (List Bool × List Nat) :=
  (witnessPath I).map (fun path =>
    let beta := (List.range I.nreads).map (fun r =>
      -- the bit of read r in its first column
      let c := (I.read r).first
      match path[c]? with
      | some (idx, _) => idx.testBit ((I.activeAt c).idxOf r)
      | none => false)
    (beta, path.map (·.2)))

end WhVerif.C01

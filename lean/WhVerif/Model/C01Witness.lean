import WhVerif.Model.C01
/-!
# C01 model, part 2: `get_alleles` (super reads with tie flags) and the backtrace (witness).
-/
namespace WhVerif.C01
open WhVerif.Cost

/-! ## super reads (`get_alleles`) -/

/-- per individual `(allele0, allele1)` with 3 = `EQUAL_SCORES`; `none` = exception -/
def getAlleles (I : Inst) (c : Nat) (bs : List Bool) (t : Nat) : Option (List (Nat × Nat)) :=
  let cands := (assignments I c t).map (fun ag => (ag.1, ag.2 + viewCost I c t ag.1 bs))
  match cands with
  | [] => none
  | _ =>
    let best := (cands.map (·.2)).foldl min (cands.head!.2)
    -- `cost <= best_cost` keeps the LAST assignment of minimal cost
    let bestA := ((cands.filter (fun ac => ac.2 == best)).getLast?.map (·.1)).getD 0
    some ((List.range I.nind).map (fun ind =>
      let hap (h : Nat) : Nat :=
        let p := h2p I t ind h
        let best0 := minOver (cands.filter (fun ac => bitOf ac.1 p == 0)) (fun ac => some ac.2)
        let best1 := minOver (cands.filter (fun ac => bitOf ac.1 p == 1)) (fun ac => some ac.2)
        if best0 == best1 then 3 else bitOf bestA p
      (hap 0, hap 1)))

/-! ## witness: backtrace by recomputation (any optimal witness is admissible)

The code stores, per projection entry, the index and transmission value that attained the minimum
(`index_backtrace_table`, `transmission_backtrace_table`) and follows them from the optimal cell of the last
column (`compute_table`); `get_optimal_partitioning` then reads every read's bit off the index path.  The model
recomputes the arg-minima from the projection tables instead of storing them: at cell `(idx, t)` of column
`c+1` it picks a previous transmission value `j` attaining the inner minimum of `dpCell`, then an index of
column `c` with the same forward projection attaining the projection entry.  Which of several equally good
witnesses is found (the Gray-code visiting order, `<` vs `<=`) is not reproduced. -/

/-- first element attaining the minimum of `f` over `l` (every `f a` is evaluated once); `none` iff the minimum is `none` -/
def argminOver {α} (l : List α) (f : α → Option Nat) : Option α :=
  let vals := l.map (fun a => (a, f a))
  let m := minOver vals (·.2)
  if m.isNone then none else (vals.find? (fun av => av.2 == m)).map (·.1)

/-- projection tables of columns `c, c-1, …, 0` (newest first), each computed once -/
def tablesDown (I : Inst) : Nat → List (Array (Option Nat))
  | 0 => [projTable I 0 #[]]
  | c + 1 =>
    match tablesDown I c with
    | [] => []
    | t :: ts => projTable I (c + 1) t :: t :: ts

/-- `backtrace I c tabs idx t`: the path `[(idx_0, t_0), …, (idx_c, t_c) = (idx, t)]` ending in cell `(idx, t)` of
column `c`; `tabs` = projection tables of columns `c-1, …, 0` -/
def backtrace (I : Inst) : Nat → List (Array (Option Nat)) → Nat → Nat → Option (List (Nat × Nat))
  | 0, _, idx, t => some [(idx, t)]
  | c + 1, tabs, idx, t =>
    let prev := tabs.headD #[]
    let bp := idx % 2 ^ (I.sharedAt c).length
    match argminOver (List.range I.ntrans) (fun j =>
        cadd (prev.getD (bp * I.ntrans + j) none) (some (popcount (t ^^^ j) * I.recombAt (c + 1)))) with
    | none => none
    | some j =>
      let k := (I.activeAt c).length
      let cands := (List.range (2 ^ k)).filter (fun i => natOfBits (fwdBits I c (bitsOf k i)) == bp)
      match argminOver cands (fun i => dpCell I c (tabs.tail.headD #[]) i j) with
      | none => none
      | some i => (backtrace I c tabs.tail i j).map (· ++ [(idx, t)])

/-- index path and transmission path: per column `(idx, t)`, column 0 first -/
def witnessPath (I : Inst) : Option (List (Nat × Nat)) :=
  if I.ncols = 0 then some []
  else
    let last := I.ncols - 1
    let tabs := if last = 0 then [] else tablesDown I (last - 1)
    match argminOver (pairs (2 ^ (I.activeAt last).length) I.ntrans)
        (fun it => dpCell I last (tabs.headD #[]) it.1 it.2) with
    | none => none
    | some start => backtrace I last tabs start.1 start.2

/-- the bit of read `r` in the index `idx` of column `c` (`false` if `r` is not active there) -/
def bitInCol (I : Inst) (c idx r : Nat) : Bool :=
  (((I.activeAt c).zip (bitsOf (I.activeAt c).length idx)).lookup r).getD false

/-- bipartition of all reads (bit set = haplotype 1), read off the index path at each read's first column,
and the transmission vector (`get_optimal_partitioning`, `get_super_reads`' transmission vector) -/
def witness (I : Inst) : Option (List Bool × List Nat) :=
  (witnessPath I).map (fun path =>
    ((List.range I.nreads).map (fun r => bitInCol I (I.read r).first (path.getD (I.read r).first (0, 0)).1 r),
     path.map (·.2)))

end WhVerif.C01

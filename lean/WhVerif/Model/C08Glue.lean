/-!
# C08 glue: `run_genotype` (whatshap/cli/genotype.py) → the prior columns handed to the genotyping DP

```
var_to_pos = dict()
for i in range(len(variant_table.variants)): var_to_pos[variant_table.variants[i].position] = i
…
all_genotype_likelihoods = variant_table.genotype_likelihoods_of(sample)
genotype_l = [all_genotype_likelihoods[var_to_pos[a_p]] for a_p in accessible_positions]
pedigree.add_individual(sample, [Genotype([]) …], genotype_l)
```
The C++ core indexes the priors by COLUMN (`pedigree->get_genotype_likelihoods(individual, column_index)`); the columns
are the accessible positions (those covered by a selected read with ≥ 2 variants), a subset of the VCF records.
Core Lean only.
-/
namespace WhVerif.C08.Glue

/-- the dict built by the loop: a later record with the same position overwrites an earlier one -/
def lookupFrom : List Nat → Nat → Nat → Option Nat → Option Nat
  | [], _, _, acc => acc
  | x :: xs, i, p, acc => lookupFrom xs (i + 1) p (if x = p then some i else acc)

/-- `var_to_pos[p]`; `none` = `KeyError` -/
def varToPos (positions : List Nat) (p : Nat) : Option Nat := lookupFrom positions 0 p none

/-- `genotype_l` as coded; `none` = `KeyError` / `IndexError` -/
def priorColumns {α : Type} (positions : List Nat) (all : List α) : List Nat → Option (List α)
  | [] => some []
  | a :: rest =>
    match (varToPos positions a).bind (fun i => all[i]?), priorColumns positions all rest with
    | some x, some xs => some (x :: xs)
    | _, _ => none

/-- the defective variant (seed C08-i): the sample's complete per-record list, unrestricted -/
def priorColumnsFull {α : Type} (all : List α) : List α := all

end WhVerif.C08.Glue

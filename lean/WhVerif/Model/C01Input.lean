import WhVerif.Model.C01
/-!
# C01 input model: from the solver's real input (ReadSet + `positions`) to the column-indexed `Inst`

`PedigreeDPTable` never sees columns: it is handed a `ReadSet` (reads with variants at *genomic positions*) and
an optional `positions` vector, and `ColumnIterator` (src/columniterator.cpp) turns that into columns.  This file
models that conversion; `Lemmas/C01Input.lean` proves that its result satisfies the precondition `WF` of the
optimality theorem and that the column view of the result is the column `ColumnIterator::get_next` produces.

What mirrors what (core Lean only):

* `RawRead`            a `Read` of the ReadSet as the solver sees it: the individual index of its sample id and its
                       variants `(position, allele, quality)` in storage order.  Names, mapqs, source ids play no
                       role after `ReadSet::sort()`; the read id is the index in the list (`reassignReadIds`,
                       called by the `PedigreeDPTable` constructor).
* `variantsSorted`     `Read::isSorted()` (`entry_comparator_t`: strictly increasing positions).
* `colOf`              `position_map` of the `ColumnIterator` constructor: column of a position = its index in
                       `positions`.
* `convReads`          the read loop of the constructor, with the running `pos` (first position of the previous
                       read, initially 0).  Per read, in the code's order: `firstPosition()` throws on a read without
                       variants; `firstPosition() < pos` throws "reads in ReadSet are not sorted"; `!isSorted()` throws
                       "read with unsorted variants"; `assert(first_column_it != end)`, `assert(last_column_it !=
                       end)` abort when the first/last position is not in `positions` (the extension is built with
                       asserts enabled).  The two remaining asserts (`first column ≤ last column`, `last column <
                       positions->size()`) are NOT modelled as checks: `mkInst_spans` proves they can never fire.
* `toEntries`          what `get_next`/`jump_to_column` make of a read's variants: the walk
                       `while (getPosition(active_entry) < next_pos) active_entry += 1` silently SKIPS a variant whose
                       position is not a column, so only variants at a position of `positions` become entries; at a
                       column without a variant the read contributes a BLANK entry (`Read.entryAt = none`).
* `defaultPositions`   `positions == nullptr`: `ReadSet::get_positions()` (sorted, duplicate-free union).

One precondition of the interface is NOT checked by the C++ code and is made explicit here: `positions` must be
strictly increasing (all callers pass `sorted(set(...))`, the default is sorted and duplicate-free).  For an
unsorted or duplicated `positions` the iterator's behaviour is not a column structure at all (reads are dropped
when `lastPosition() < next_pos`, `position_map` keeps the last duplicate), so `mkInst` answers `none` with reason
`positionsNotIncreasing`: out of scope, not an exception of the code.
-/
namespace WhVerif.C01

structure RawRead where
  ind : Nat
  /-- (position, allele ∈ {0,1}, weight) in storage order -/
  variants : List (Nat × Nat × Nat)
deriving Repr, Inhabited

/-- why there is no instance -/
inductive Reject where
  | positionsNotIncreasing   -- interface precondition (not checked by the code)
  | emptyRead                -- `firstPosition()`: runtime_error "No variants present"
  | readsUnsorted            -- runtime_error "ColumnIterator: reads in ReadSet are not sorted."
  | variantsUnsorted         -- runtime_error "ColumnIterator: encountered read with unsorted variants."
  | positionNotAColumn       -- assert(first_column_it != end) / assert(last_column_it != end)
deriving Repr, DecidableEq, Inhabited

def Reject.name : Reject → String
  | .positionsNotIncreasing => "positions-not-increasing"
  | .emptyRead => "empty-read"
  | .readsUnsorted => "reads-unsorted"
  | .variantsUnsorted => "variants-unsorted"
  | .positionNotAColumn => "position-not-a-column"

def strictlyIncreasing : List Nat → Bool
  | a :: b :: rest => decide (a < b) && strictlyIncreasing (b :: rest)
  | _ => true

/-- `Read::isSorted()` -/
def variantsSorted : List (Nat × Nat × Nat) → Bool
  | a :: b :: rest => decide (a.1 < b.1) && variantsSorted (b :: rest)
  | _ => true

/-- `position_map.find(p)` -/
def colOf (positions : List Nat) (p : Nat) : Option Nat := positions.findIdx? (fun q => q == p)

/-- the entries `get_next` can ever return for a read: variants at a column position, re-indexed by column -/
def toEntries (positions : List Nat) (vs : List (Nat × Nat × Nat)) : List (Nat × Nat × Nat) :=
  vs.filterMap (fun v => (colOf positions v.1).map (fun c => (c, v.2.1, v.2.2)))

/-- the read loop of `ColumnIterator::ColumnIterator`; `pos` = first position of the previous read -/
def convReads (positions : List Nat) : Nat → List RawRead → Except Reject (List Read)
  | _, [] => .ok []
  | pos, r :: rs =>
    match r.variants with
    | [] => .error .emptyRead
    | v :: vs =>
      if v.1 < pos then .error .readsUnsorted
      else if !variantsSorted (v :: vs) then .error .variantsUnsorted
      else
        match colOf positions v.1, colOf positions ((v :: vs).getLast (List.cons_ne_nil v vs)).1 with
        | some cf, some cl =>
          match convReads positions v.1 rs with
          | .ok rest =>
            .ok ({ ind := r.ind, first := cf, last := cl, entries := toEntries positions (v :: vs) } :: rest)
          | .error e => .error e
        | _, _ => .error .positionNotAColumn

/-- the instance `PedigreeDPTable` works on, or the reason why the constructor does not return -/
def mkInstE (positions : List Nat) (reads : List RawRead) (nind : Nat) (trios : List (Nat × Nat × Nat))
    (geno : List (List (List (Option Nat)))) (recomb : List Nat) : Except Reject Inst :=
  if !strictlyIncreasing positions then .error .positionsNotIncreasing
  else
    match convReads positions 0 reads with
    | .ok rs => .ok { ncols := positions.length, reads := rs, nind, trios, geno, recomb }
    | .error e => .error e

def mkInst (positions : List Nat) (reads : List RawRead) (nind : Nat) (trios : List (Nat × Nat × Nat))
    (geno : List (List (List (Option Nat)))) (recomb : List Nat) : Option Inst :=
  match mkInstE positions reads nind trios geno recomb with
  | .ok I => some I
  | .error _ => none

/-- insertion into a strictly increasing list (set semantics) -/
def insertPos (p : Nat) : List Nat → List Nat
  | [] => [p]
  | q :: qs => if p < q then p :: q :: qs else if p = q then q :: qs else q :: insertPos p qs

/-- `ReadSet::get_positions()`: all variant positions of all reads, sorted, without duplicates -/
def defaultPositions (reads : List RawRead) : List Nat :=
  (reads.flatMap (fun r => r.variants.map (fun v => v.1))).foldl (fun acc p => insertPos p acc) []

/-! ## the position-level column (`ColumnIterator::get_next` read literally, no column indices)

For the column with genomic position `p`: the active reads are those with `firstPosition() ≤ p ≤ lastPosition()`
in id order (activated when `read_start == next_pos`, erased when `lastPosition() < next_pos`), each with the
variant stored at position `p` if there is one, else BLANK (`none`). -/

def RawRead.firstPos (r : RawRead) : Nat := (r.variants.head?.map (fun v => v.1)).getD 0
def RawRead.lastPos (r : RawRead) : Nat := (r.variants.getLast?.map (fun v => v.1)).getD 0

def RawRead.variantAt (r : RawRead) (p : Nat) : Option (Nat × Nat) :=
  (r.variants.find? (fun v => v.1 == p)).map (fun v => (v.2.1, v.2.2))

def rawColumn (reads : List RawRead) (p : Nat) : List (Nat × Option (Nat × Nat)) :=
  ((List.range reads.length).filter (fun k =>
      decide ((reads.getD k default).firstPos ≤ p) && decide (p ≤ (reads.getD k default).lastPos))).map
    (fun k => (k, (reads.getD k default).variantAt p))

/-- the same column read off the converted instance -/
def Inst.column (I : Inst) (c : Nat) : List (Nat × Option (Nat × Nat)) :=
  (I.activeAt c).map (fun k => (k, (I.read k).entryAt c))

end WhVerif.C01

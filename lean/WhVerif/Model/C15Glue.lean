import WhVerif.Model.C15
/-!
# C15 model, part 2: the glue of `whatshap polyphase` around the solver

Core Lean only.  One chromosome and one sample (the loops over chromosomes and samples in
`cli/polyphase.py:run_polyphase` carry no state from one iteration to the next; the per-chromosome dicts are
created inside the chromosome loop).

* `readLoop` — `vcf.py:VcfReader._process_single_chromosome`: which records of the chromosome become rows of the
  `VariantTable` (skips, the sortedness error, the duplicate-position skip, the ploidy check).
* `isHet` / `hetRows` — `run_polyphase`: `to_discard = all − heterozygous`, `remove_rows_by_index`.
* `keepReads` — `readset.subset([i for i, read in enumerate(readset) if len(read) >= max(2, min_overlap)])`.
* `readPositions` — `ReadSet.get_positions()` = the columns of `AlleleMatrix(readset)` (sorted, distinct).
* `subsetRows` — `VariantTable.subset_rows_by_position`.
* `asVector` / `genotypeDict` / `genotypeList` — `Genotype.as_vector()` (descending) and
  `polyphase/__init__.py:create_genotype_list` (a Python dict = association list in insertion order).
* `glue` — the sequence of these steps in `run_polyphase` + `phase_single_individual` up to the call of
  `solve_polyphase_instance(allele_matrix, genotype_list, …)`.
* `phasesOf` / `writeLoop` — `phase_single_individual` (super-reads on `phased_pos`) and
  `vcf.py:PhasedVcfWriter.write` for the sample: which records get which GT / phased flag / PS.
  `repaired = false` is the writer as coded before F50, `true` the writer after `fixes/F50.patch`
  (the writer's two skip tests are those of the reader).

The BAM reader (`PhasedInputReader.read(chromosome, variants, sample)`) is not modelled: its result is an input
(`reads`), a list of reads, each a list of `(position, allele)`; what the theorems need from it is stated as a
hypothesis (it reports alleles only at positions of the variants it was given) and is checked on the real reader.
`ReadSet.sort()` only changes the order of the reads; nothing modelled here depends on that order
(`readPositions_perm` in `Lemmas/C15Glue.lean`).
-/
namespace WhVerif.C15

/-- one VCF record as far as reader and writer look at it, with the call of the sample being phased -/
structure VRec where
  pos : Nat
  /-- `len(record.alts)` -/
  nalts : Nat
  /-- `len(ref) == 1 and all(len(alt) == 1 for alt in alts)` (the reader's SNV test) -/
  snvAll : Bool
  /-- `len(ref) == 1 and len(alts[0]) == 1` (the writer's SNV test, as coded) -/
  snvFirst : Bool
  /-- GT alleles of the call; `[]` = missing (`None` or some allele `None`: `genotype_code` → `Genotype([])`) -/
  gt : List Allele
  /-- `call.phased` in the input -/
  phased : Bool
deriving Repr, DecidableEq, Inhabited

structure Cfg where
  ploidy : Nat
  /-- `mav` (default of polyphase; `--no-mav` clears it) -/
  mav : Bool
  onlySnvs : Bool
  /-- `get_max_genotype_alleles()` = 16 -/
  maxAlleles : Nat
  /-- `get_max_genotype_ploidy()` = 15 -/
  maxPloidy : Nat
  minOverlap : Nat
deriving Repr

/-! ## a stable sort that evaluates by structural recursion (Python's `sorted` / `list.sort`) -/

/-- insert `x` before the first element `y` with `le x y` -/
def insertBy {α} (le : α → α → Bool) (x : α) : List α → List α
  | [] => [x]
  | y :: ys => if le x y then x :: y :: ys else y :: insertBy le x ys

/-- stable insertion sort -/
def isort {α} (le : α → α → Bool) (l : List α) : List α := l.foldr (insertBy le) []

/-! ## VcfReader: records → table rows -/

/-- the `continue`s of the reader that precede the order / duplicate tests -/
def readerSkips (c : Cfg) (r : VRec) : Bool :=
  r.nalts == 0 || (decide (1 < r.nalts) && (!c.mav || decide (c.maxAlleles ≤ r.nalts))) || (c.onlySnvs && !r.snvAll)

inductive TableErr where
  | notSorted   -- `VcfNotSortedError`
  | ploidy      -- `PloidyError` (→ `CommandLineError`)
deriving Repr, DecidableEq

/-- `(prev_position is not None) and (prev_position > pos)` -/
def outOfOrder (prev : Option Nat) (pos : Nat) : Bool :=
  match prev with
  | some p => decide (pos < p)
  | none => false

/-- the ploidy checks on a non-missing genotype (`PloidyError`) -/
def ploidyError (c : Cfg) (r : VRec) : Bool :=
  !r.gt.isEmpty && (decide (c.maxPloidy < r.gt.length) || r.gt.length != c.ploidy)

/-- prepend to a successful result -/
def consOk (r : VRec) : Except TableErr (List VRec) → Except TableErr (List VRec)
  | .ok t => .ok (r :: t)
  | .error e => .error e

/-- `_process_single_chromosome`, `prev` = `prev_position` -/
def readLoop (c : Cfg) : Option Nat → List VRec → Except TableErr (List VRec)
  | _, [] => .ok []
  | prev, r :: rs =>
    if readerSkips c r then readLoop c prev rs
    else if outOfOrder prev r.pos then .error .notSorted
    else if prev == some r.pos then readLoop c prev rs               -- "Skipping duplicated position"
    else if ploidyError c r then .error .ploidy
    else consOk r (readLoop c (some r.pos) rs)

def readTable (c : Cfg) (recs : List VRec) : Except TableErr (List VRec) := readLoop c none recs

/-! ## run_polyphase: heterozygous rows, read filter, table subset -/

/-- `not gt.is_none() and not gt.is_homozygous()` -/
def isHet : List Allele → Bool
  | [] => false
  | a :: rest => rest.any (· != a)

def hetRows (t : List VRec) : List VRec := t.filter (fun r => isHet r.gt)

/-- a read as the reader delivers it: `(position, allele)` per covered variant -/
abbrev PRead := List (Nat × Allele)

def keepReads (minOverlap : Nat) (reads : List PRead) : List PRead :=
  reads.filter (fun r => decide (max 2 minOverlap ≤ r.length))

/-- insert into a strictly increasing list unless present -/
def insertPos (p : Nat) : List Nat → List Nat
  | [] => [p]
  | q :: qs => if p < q then p :: q :: qs else if p = q then q :: qs else q :: insertPos p qs

/-- the sorted list of distinct values (`std::set`) -/
def posSet (l : List Nat) : List Nat := l.foldr insertPos []

/-- `readset.get_positions()` -/
def readPositions (reads : List PRead) : List Nat := posSet (reads.flatMap (·.map Prod.fst))

/-- `subset_rows_by_position(positions)` -/
def subsetRows (ps : List Nat) (t : List VRec) : List VRec := t.filter (fun r => ps.contains r.pos)

/-! ## create_genotype_list -/

/-- `Genotype.as_vector()`: the alleles in descending order -/
def asVector (gt : List Allele) : List Allele := isort (fun a b => decide (b ≤ a)) gt

/-- `if allele not in allele_count: allele_count[allele] = 0; allele_count[allele] += 1` -/
def dictIncr : List (Allele × Nat) → Allele → List (Allele × Nat)
  | [], a => [(a, 1)]
  | (b, n) :: rest, a => if b = a then (b, n + 1) :: rest else (b, n) :: dictIncr rest a

def genotypeDict (gt : List Allele) : List (Allele × Nat) := (asVector gt).foldl dictIncr []

/-- `d.get(a, 0)` -/
def dictCount : List (Allele × Nat) → Allele → Nat
  | [], _ => 0
  | (b, n) :: rest, a => if b = a then n else dictCount rest a

/-- the genotype dict as a list of alleles (the form `forceStep` takes, see `Model/C15.lean`) -/
def dictExpand (d : List (Allele × Nat)) : List Allele := d.flatMap (fun e => List.replicate e.2 e.1)

def genotypeList (rows : List VRec) : List (List (Allele × Nat)) := rows.map (fun r => genotypeDict r.gt)

/-! ## the glue up to the solver call -/

inductive Glue where
  /-- `if len(phasable_variant_table) < 2: continue` -/
  | fewVariants
  /-- `if len(readset) == 0: continue` -/
  | noReads
  /-- `solve_polyphase_instance(AlleleMatrix(readset), genotype_list, …)`:
  `cols` = `allele_matrix.getPositions()` = `accessible_pos`, `rows` = the final `phasable_variant_table`,
  `genotypes` = `genotype_list`, `reads` = the reads in the matrix -/
  | solve (cols : List Nat) (rows : List VRec) (genotypes : List (List (Allele × Nat))) (reads : List PRead)
deriving Repr

/-- the heterozygous rows the BAM reader is asked for (`phasable_variant_table.variants`), if phasing is attempted -/
def phasable (table : List VRec) : List VRec := hetRows table

/-- `reads` = what `phased_input_reader.read(chromosome, phasable_variant_table.variants, sample)` returned -/
def glue (c : Cfg) (table : List VRec) (reads : List PRead) : Glue :=
  let het := hetRows table
  if het.length < 2 then .fewVariants
  else
    let kept := keepReads c.minOverlap reads
    if kept.isEmpty then .noReads
    else
      let ps := readPositions kept
      let rows := subsetRows ps het
      .solve ps rows (genotypeList rows) kept

/-! ## super-reads and the writer -/

/-- the `allowed_alleles` test of the writer -/
def allowedAlleles (mav : Bool) (ph : List Allele) : Bool := mav || ph.all (fun a => a == 0 || a == 1)

/-- `sample_phases`: position ↦ tuple of alleles, for the columns without `-1` (the super-reads), minus those the
writer refuses (`allele not in [0, 1] and not self._mav`).  `cols` = accessible positions, `haps` = result columns -/
def phasesOf (mav : Bool) (cols : List Nat) (haps : List (List Allele)) : List (Nat × List Allele) :=
  (cols.zip haps).filter (fun e => !(e.2.contains (-1)) && allowedAlleles mav e.2)

def lookupPhase (ph : List (Nat × List Allele)) (p : Nat) : Option (List Allele) :=
  (ph.find? (fun e => e.1 == p)).map (·.2)

structure OutCall where
  gt : List Allele
  phased : Bool
  ps : Option Nat
deriving Repr, DecidableEq

/-- `Genotype == Genotype`: equal as multisets -/
def sameGenotype (g h : List Allele) : Bool := (g ++ h).all (fun a => g.count a == h.count a)

/-- `_remove_existing_phasing` on the call (polyphase constructs the writer with the default
`remove_existing_phasing=True`): unphased, alleles sorted, no PS -/
def removeExisting (r : VRec) : OutCall := ⟨isort (fun a b => decide (a ≤ b)) r.gt, false, none⟩

/-- the `continue`s of the writer that precede the duplicate test -/
def writerSkipsMulti (repaired : Bool) (c : Cfg) (r : VRec) : Bool :=
  r.nalts == 0 || (decide (1 < r.nalts) && (!c.mav || (repaired && decide (c.maxAlleles ≤ r.nalts))))

/-- `self._only_snvs and not is_snv` -/
def writerSkipsSnv (repaired : Bool) (c : Cfg) (r : VRec) : Bool :=
  c.onlySnvs && !(if repaired then r.snvAll else r.snvFirst)

/-- `PhasedVcfWriter.write` on the records of the chromosome, for the phased sample.
`ph` = `sample_phases[sample]`, `comps` = `sample_components[sample]` (`none` = key absent), `prev` = `prev_pos`.
If the sample is not phased at the record's position the call ends up as `removeExisting` whether or not another
sample lets the record pass the "phased in any sample" gate (`pos in genotypes` is false, then the tag is cleared);
`prev_pos` is then left as it is: it is only compared with positions, and a later record at the same position is
not phased for this sample either. -/
def writeLoop (repaired : Bool) (c : Cfg) (ph : List (Nat × List Allele)) (comps : Nat → Option Nat) :
    Option Nat → List VRec → List OutCall
  | _, [] => []
  | prev, r :: rs =>
    if writerSkipsMulti repaired c r then removeExisting r :: writeLoop repaired c ph comps prev rs
    else if prev == some r.pos then removeExisting r :: writeLoop repaired c ph comps prev rs
    else if writerSkipsSnv repaired c r then removeExisting r :: writeLoop repaired c ph comps prev rs
    else match lookupPhase ph r.pos, comps r.pos with
      | some p, some comp =>
        -- "is genotype to be changed?"
        let changed := !sameGenotype p r.gt
        let gt' := if changed then isort (fun a b => decide (a ≤ b)) p else (removeExisting r).gt
        let het := if changed then isHet p else isHet r.gt
        (if het then ⟨p, true, some (comp + 1)⟩ else ⟨gt', false, none⟩) ::
          writeLoop repaired c ph comps (some r.pos) rs
      | _, _ => removeExisting r :: writeLoop repaired c ph comps prev rs

end WhVerif.C15

import WhVerif.Model.C06Filter
import WhVerif.Model.C10
/-!
# C10 model, part 4: the reads haplotag sees = C06's allele detection as `run_haplotag` configures it

`run_haplotag` builds `PhasedInputReader([bam], reference or None, NumericSampleIds(), ignore_read_groups,
only_snvs=False, duplicates=True)`; every other parameter of `ReadSetReader` keeps its default:
`mapq_threshold=20`, `overhang=10`, `affine=False`, `use_supplementary=False`,
`supplementary_distance_threshold=100_000`.  Per sample `prepare_haplotag_information` calls
`phased_input_reader.read(chromosome, variants, sample, regions=regions)` with `variants` = the phased
heterozygous calls of that sample (`get_variant_information`, `C10Run.variantInfo`):

* `bam_sample = None if ignore_read_groups else sample`                      → `bamSample`
* `readset_reader.read(chromosome, variants, bam_sample, reference, regions)` → `C06.readModel (haplotagCfg fx)`:
  `_usable_alignments` (unmapped, secondary, mapq < 20, SUPPLEMENTARY dropped — also with `--tag-supplementary`,
  the option only acts in the write loop —, duplicates KEPT), the variant pointer, detection by re-alignment
  (`--reference`) or by the CIGAR walker (`--no-reference`), `if read:`, grouping by name, `create_read_from_group`;
* `except SampleNotFoundError: readset = ReadSet()`                           → `haplotagReads`
* `read.sort()` (already sorted by `create_read_from_group`); `readset.sort()` orders the reads by first variant
  position and breaks ties by a hash of (name, source id): the ORDER of the returned list is a seam (the check
  compares the reads as a set keyed by name; the order only matters for which read seeds a read cloud).

`alnAlleles` is the per-alignment view (what `_alignments_to_reads` yields for ONE alignment), `haplotagAligned`
the per-alignment list of a whole chromosome, `haplotagReads` the `SetRead`s handed to `C10.prepare`,
`readDecision` = detection ∘ decision for a read consisting of one alignment.
-/
namespace WhVerif.C10
open WhVerif.C06 (ReadCfg Fixes Source Region Variant Seq RErr AlignedQ ReadOut Cigar)

/-- the `ReadSetReader` of `run_haplotag` -/
def haplotagCfg (fx : Fixes) : ReadCfg :=
  { mapqThreshold := 20, duplicates := true, useSupplementary := false, distanceThreshold := 100000,
    overhang := 10, affine := none, fx := fx, skipNoSeq := false, tolerateNoRG := false }

/-- `bam_sample = None if self._ignore_read_groups else sample` -/
def bamSample (ignoreRG : Bool) (sample : String) : Option String := if ignoreRG then none else some sample

/-- `Variant(position, allele, quality)` of a `Read`; haplotag never uses affine gap costs, so qualities are ≥ 0 -/
def toRV (t : Nat × Nat × Int) : RV := ⟨t.1, t.2.1, t.2.2.toNat⟩

/-- `has_BX_tag()` is `BX_tag != ""` -/
def toSetRead (r : ReadOut) : SetRead :=
  ⟨r.name, r.refStart, if r.bx = "" then none else some r.bx, r.variants.map toRV⟩

/-- (position, allele, quality) of the calls `(index, allele, quality)` of a detection function -/
def callsToRVs (variants : List Variant) (det : List (Nat × Nat × Int)) : List RV :=
  det.map fun t => toRV ((variants[t.1]?).map (·.pos) |>.getD 0, t.2.1, t.2.2)

/-- the alleles haplotag sees on ONE alignment (variant pointer at its place for a coordinate-sorted stream):
nothing for an alignment `_usable_alignments` filters out, else C06's detection -/
def alnAlleles (fx : Fixes) (variants : List Variant) (reference : Option Seq) (a : C06.Aln) : Except RErr (List RV) :=
  if !C06.usable (haplotagCfg fx) a then .ok [] else
  match C06.detectAln (haplotagCfg fx) variants reference
      (C06.advance (C06.pointerPositions variants reference) 0 a.refStart) a with
  | .error e => .error e
  | .ok det => .ok (callsToRVs variants det)

/-- what `_alignments_to_reads` yields for the chromosome (one `AlignedRead` per alignment with ≥ 1 allele) -/
def haplotagAligned (fx : Fixes) (sources : List Source) (ignoreRG : Bool) (sample : String)
    (regions : Option (List Region)) (variants : List Variant) (reference : Option Seq) : Except RErr (List AlignedQ) :=
  C06.toReadsGo (haplotagCfg fx) variants reference (C06.pointerPositions variants reference) 0
    (C06.usableStream (haplotagCfg fx) sources (bamSample ignoreRG sample) regions)

/-- `PhasedInputReader.read(chromosome, variants, sample, regions=regions)[0]` as haplotag calls it -/
def haplotagReads (fx : Fixes) (sources : List Source) (ignoreRG : Bool) (sample : String)
    (regions : Option (List Region)) (variants : List Variant) (reference : Option Seq) : Except RErr (List SetRead) :=
  match C06.readModel (haplotagCfg fx) sources (bamSample ignoreRG sample) regions variants reference with
  | .error .sampleNotFound => .ok []            -- `logger.warning("Sample %r not found in any BAM/CRAM file.")`
  | .error e => .error e
  | .ok reads => .ok (reads.map toSetRead)

/-- detection ∘ decision for a read that consists of one alignment (no mate, no read cloud) -/
def readDecision (fx : Fixes) (ploidy : Nat) (info : PhaseInfo) (variants : List Variant) (reference : Option Seq)
    (a : C06.Aln) : Except RErr Decision :=
  match alnAlleles fx variants reference a with
  | .error e => .error e
  | .ok rvs => .ok (tagDecision ploidy info rvs)

/-- the aligned query index of reference position `p` when `p` lies in an M/=/X block (`none`: in a deletion, in a
reference skip, outside the alignment).  Clips and insertions only move the query cursor. -/
def mIdx (p : Nat) : Nat → Nat → Cigar → Option Nat
  | _, _, [] => none
  | rp, qp, (op, len) :: rest =>
    if C06.isMatch op then
      if rp ≤ p ∧ p < rp + len then some (qp + (p - rp)) else mIdx p (rp + len) (qp + len) rest
    else if op == 1 || op == 4 then mIdx p rp (qp + len) rest
    else if op == 2 || op == 3 then (if rp ≤ p ∧ p < rp + len then none else mIdx p (rp + len) qp rest)
    else mIdx p rp qp rest

end WhVerif.C10

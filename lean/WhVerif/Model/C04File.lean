import WhVerif.Model.C04
/-!
# C04 model, file level: from the input file to the output file of `whatshap phase`

Core Lean only.  `Model/C04.lean` models `PhasedVcfWriter.write` for the records of ONE chromosome block and the
header pipeline for GIVEN lists of used contigs / FORMATs / INFOs.  This file adds what sits around it:

* `VcfReader.__iter__` / `_process_single_chromosome` (whatshap/vcf.py) as far as it decides WHICH records become
  rows of the variant table: `groupChrom` (= `itertools.groupby(record.chrom)`), `readerRows` (no ALT / multi-ALT /
  non-SNV under `--only-snvs` are skipped, `VcfNotSortedError`, duplicate positions skipped, the ploidy checks with
  `self.ploidy` carried from chromosome to chromosome);
* `VcfAugmenter._iterrecords` / `_record_modifier` (the streaming of the template file through the writer, with
  the one-record look-ahead `_unprocessed_record` and its two `assert`s): `Aug`, `takeRun`, `iterRecords`,
  `augWrite`;
* the chromosome loop of `cli/phase.py:run_whatshap` as far as the writer is concerned: one `write` call per
  table of the reader, with empty dictionaries for a chromosome excluded by `--chromosome`, else with the phasing
  result of the selected samples (`blockCfg`, `runLoop`, `phaseFile`), and the sample selection
  (`selectSamples`: `--sample`, default = all samples of the VCF, `--use-ped-samples`, unknown sample = error);
* the record scan of `missing_headers` (`scanUsed`: contigs and FORMAT keys in order of first use, INFO keys,
  `END` for a symbolic ALT), so that the whole header pipeline is a function of header + records (`fileHeader`);
* the text of a sample column (`renderCall`): what htslib prints for the FORMAT keys of a record.

`whatshap phase` never passes `mav`, so `Cfg.mav = false` and `Cfg.repaired = true` (the code after F4) throughout.
-/
namespace WhVerif.C04

/-- one data line of the file: what the header scan and the chromosome grouping look at, plus the record -/
structure FRec where
  chrom : String
  /-- keys of the INFO column -/
  infoKeys : List String
  record : Record
deriving DecidableEq, Repr

/-! ## `VcfReader`: which records become table rows -/

/-- `len(ref) == 1 and all(len(alt) == 1 for alt in alts)` (reader and writer use the same test) -/
def isSnvAll (r : Record) : Bool := r.ref.length == 1 && r.alts.all (·.length == 1)

/-- the record kinds `_process_single_chromosome` does not skip outright (`mav = False`):
    it has an ALT, it has exactly one ALT, and it is an SNV under `--only-snvs` -/
def kindOk (onlySnvs : Bool) (r : Record) : Bool :=
  !r.alts.isEmpty && !decide (r.alts.length > 1) && !(onlySnvs && !isSnvAll r)

inductive ReadErr where
  /-- `VcfNotSortedError` -/
  | notSorted
  /-- `PloidyError` (more than `MAX_PLOIDY` alleles, or two fully called genotypes of different length) -/
  | ploidy
  /-- `RuntimeError` of the `Genotype` constructor ("Maximum ploidy for genotype exceeded"): it refuses `MAX_PLOIDY`
      alleles, which the `PloidyError` test (`> MAX_PLOIDY`) still lets through -/
  | runtime
deriving DecidableEq, Repr

def maxPloidy : Nat := 15

/-- `genotype_code` of some call of the record raises: a fully called genotype with `MAX_PLOIDY` or more alleles -/
def genotypeTooLong (calls : List (String × Call)) : Bool :=
  calls.any fun nc => match nc.2.gt with
    | some g => g.all Option.isSome && decide (g.length ≥ maxPloidy)
    | none => false

/-- the ploidy check over the calls of one kept record; `pl` = `self.ploidy` -/
def ploidyStep : Option Nat → List (String × Call) → Except ReadErr (Option Nat)
  | pl, [] => .ok pl
  | pl, (_, c) :: r =>
    match c.gt with
    | none => ploidyStep pl r
    | some g =>
      if !g.all Option.isSome then ploidyStep pl r
      else if g.length > maxPloidy then .error .ploidy
      else match pl with
        | none => ploidyStep (some g.length) r
        | some p => if g.length ≠ p then .error .ploidy else ploidyStep pl r

/-- `(prev_position is not None) and (prev_position > pos)` -/
def beforePrev (prev : Option Nat) (pos : Nat) : Bool :=
  match prev with
  | some p => decide (p > pos)
  | none => false

/-- `_process_single_chromosome` over one chromosome block: for every record whether it becomes a row of the
    variant table, and the reader's ploidy afterwards.  `prev` = `prev_position`. -/
def readerRows (onlySnvs : Bool) : Option Nat → Option Nat → List Record → Except ReadErr (List Bool × Option Nat)
  | _, pl, [] => .ok ([], pl)
  | prev, pl, r :: rs =>
    if !kindOk onlySnvs r then
      match readerRows onlySnvs prev pl rs with
      | .ok (f, pl') => .ok (false :: f, pl')
      | .error e => .error e
    else if beforePrev prev r.pos then .error .notSorted
    else if prev == some r.pos then
      match readerRows onlySnvs prev pl rs with
      | .ok (f, pl') => .ok (false :: f, pl')
      | .error e => .error e
    else
      match ploidyStep pl r.calls with
      | .error e => .error e
      | .ok pl1 =>
        if genotypeTooLong r.calls then .error .runtime else
        match readerRows onlySnvs (some r.pos) pl1 rs with
        | .ok (f, pl') => .ok (true :: f, pl')
        | .error e => .error e

/-- the writer's side of the same question: does the record pass all `continue`s of `write` -/
def reachFlags (cfg : Cfg) : Option Nat → List Record → List Bool
  | _, [] => []
  | prev, r :: rs => reaches cfg prev r :: reachFlags cfg (writeRecord cfg prev r).prev rs

/-! ## `itertools.groupby(self._vcf_reader, lambda record: record.chrom)` -/

def groupChrom : List FRec → List (String × List FRec)
  | [] => []
  | r :: rs =>
    match groupChrom rs with
    | (c, g) :: gs => if c = r.chrom then (c, r :: g) :: gs else (r.chrom, [r]) :: (c, g) :: gs
    | [] => [(r.chrom, [r])]

/-- the whole reader: one table (flags of its records) per chromosome block, ploidy carried along -/
def readBlocks (onlySnvs : Bool) : Option Nat → List (String × List FRec) → Except ReadErr (List (List Bool))
  | _, [] => .ok []
  | pl, (_, g) :: gs =>
    match readerRows onlySnvs none pl (g.map (·.record)) with
    | .error e => .error e
    | .ok (f, pl') =>
      match readBlocks onlySnvs pl' gs with
      | .ok fs => .ok (f :: fs)
      | .error e => .error e

def readFile (onlySnvs : Bool) (recs : List FRec) : Except ReadErr (List (List Bool)) :=
  readBlocks onlySnvs none (groupChrom recs)

/-! ## `VcfAugmenter`: streaming the template file through the writer -/

/-- state of the augmenter between two `write` calls -/
structure Aug where
  /-- `self._unprocessed_record` -/
  unprocessed : Option FRec
  /-- what `self._reader_iter` will still deliver -/
  rest : List FRec
deriving DecidableEq, Repr

/-- the `for record in self._reader_iter` loop of `_iterrecords`: (records yielded, the record of another
    chromosome that stopped the loop, what is left in the iterator) -/
def takeRun (chrom : String) : List FRec → List FRec × Option FRec × List FRec
  | [] => ([], none, [])
  | r :: rs =>
    if r.chrom ≠ chrom then ([], some r, rs)
    else match takeRun chrom rs with
      | (y, s, rem) => (r :: y, s, rem)

inductive IterRes where
  | ok
  /-- `assert self._unprocessed_record.chrom == chromosome` -/
  | assertChrom
  /-- `assert n != 1` -/
  | assertFirst
deriving DecidableEq, Repr

/-- `_iterrecords(chromosome)` run to its end.  Note that `_unprocessed_record` is never reset: when the iterator
    is exhausted the record delivered first stays in place (`stale`). -/
def iterRecords (chrom : String) (a : Aug) : IterRes × List FRec × Aug :=
  match a.unprocessed with
  | some u =>
    if u.chrom ≠ chrom then (.assertChrom, [], a)
    else match takeRun chrom a.rest with
      | (y, some s, rem) => (.ok, u :: y, ⟨some s, rem⟩)
      | (y, none, rem) => (.ok, u :: y, ⟨some u, rem⟩)
  | none =>
    match takeRun chrom a.rest with
    | ([], some s, rem) => (.assertFirst, [], ⟨some s, rem⟩)
    | (y, some s, rem) => (.ok, y, ⟨some s, rem⟩)
    | (y, none, rem) => (.ok, y, ⟨none, rem⟩)

/-- `PhasedVcfWriter.write(chromosome, …)`: every record that `_record_modifier` yields is edited and then written,
    exactly once and in order (`continue` resumes the generator, which writes the record) -/
def augWrite (cfg : Cfg) (chrom : String) (a : Aug) : IterRes × List Out × Aug :=
  match iterRecords chrom a with
  | (res, ys, a') => (res, writeChrom cfg none (ys.map (·.record)), a')

/-! ## the chromosome loop of `run_whatshap` -/

inductive SelErr where
  /-- `raise_if_any_sample_not_in_vcf` -/
  | unknownSample (s : String)
deriving DecidableEq, Repr

/-- `samples`: `--sample` values, all samples of the VCF when none is given, the PED file's samples under
    `--use-ped-samples`; every one of them has to be in the VCF -/
def selectSamples (header sampleOpt : List String) (pedSamples : Option (List String)) : Except SelErr (List String) :=
  let s := if sampleOpt.isEmpty then header else sampleOpt
  let s := match pedSamples with | some p => p | none => s
  match s.find? (fun x => !header.contains x) with
  | some x => .error (.unknownSample x)
  | none => .ok s

/-- per table and sample: the two super-reads and the component map (stages A–D of the pipeline, opaque here) -/
structure SamplePhasing where
  sr0 : List (Nat × Int)
  sr1 : List (Nat × Int)
  comps : List (Nat × Nat)
deriving Repr

abbrev Phasing := Nat → String → SamplePhasing

structure FileCfg where
  tag : Tag
  onlySnvs : Bool
  /-- header sample order -/
  samples : List String
  /-- the selected samples in the order their families are processed (`sorted(families.items())`) -/
  order : List String
  /-- `--chromosome` values; empty = all -/
  chromosomes : List String
deriving Repr

def chromSelected (fc : FileCfg) (chrom : String) : Bool := fc.chromosomes.isEmpty || fc.chromosomes.contains chrom

/-- the arguments of the `k`-th `write` call -/
def blockCfg (fc : FileCfg) (ph : Phasing) (k : Nat) (chrom : String) : Cfg :=
  ⟨fc.tag, fc.onlySnvs, false, true, fc.samples,
   if chromSelected fc chrom then fc.order.map (fun s => ⟨s, (ph k s).sr0, (ph k s).sr1, (ph k s).comps⟩) else []⟩

/-- `for variant_table in vcf_reader: … vcf_writer.write(chromosome, superreads, components)`;
    `none` = an `assert` of `_iterrecords` failed -/
def runLoop (fc : FileCfg) (ph : Phasing) : Nat → List (String × List FRec) → Aug → Option (List (List Out))
  | _, [], _ => some []
  | k, (c, _) :: ts, a =>
    match augWrite (blockCfg fc ph k c) c a with
    | (.ok, outs, a') =>
      match runLoop fc ph (k + 1) ts a' with
      | some r => some (outs :: r)
      | none => none
    | _ => none

/-- reader and writer open the same file independently -/
def phaseFile (fc : FileCfg) (ph : Phasing) (recs : List FRec) : Option (List (List Out)) :=
  runLoop fc ph 0 (groupChrom recs) ⟨none, recs⟩

/-- what `phaseFile` is proved to compute (`Lemmas/C04File.lean:phaseFile_eq`): block by block -/
def expectedBlocks (fc : FileCfg) (ph : Phasing) : Nat → List (String × List FRec) → List (List Out)
  | _, [] => []
  | k, (c, g) :: gs => writeChrom (blockCfg fc ph k c) none (g.map (·.record)) :: expectedBlocks fc ph (k + 1) gs

def fileOut (fc : FileCfg) (ph : Phasing) (recs : List FRec) : List Out :=
  (expectedBlocks fc ph 0 (groupChrom recs)).flatten

/-- arbitrary sequence of `write` calls (with empty dictionaries), for the comparison with the real class:
    per call the result and the number of records written -/
def streamCalls (cfg : Cfg) : List String → Aug → List (IterRes × Nat)
  | [], _ => []
  | c :: cs, a =>
    match augWrite cfg c a with
    | (res, outs, a') => (res, outs.length) :: streamCalls cfg cs a'

/-! ## `missing_headers`: the scan over the records -/

/-- `alt.startswith("<")` -/
def isSymbolic (alt : String) : Bool := alt.toList.head? == some '<'

/-- (contigs, FORMAT keys, INFO keys) in the order the records use them; `outputHeader` de-duplicates -/
def scanUsed (recs : List FRec) : List String × List String × List String :=
  (recs.map (·.chrom), recs.flatMap (·.record.format),
   recs.flatMap fun r => r.infoKeys ++ (if r.record.alts.any isSymbolic then ["END"] else []))

/-- the header of the output file as a function of the input file -/
def fileHeader (tag : Tag) (commandLine : Bool) (h : List HLine) (recs : List FRec) : Option (List HLine) :=
  match scanUsed recs with
  | (cs, fs, is) => outputHeader tag commandLine h cs fs is

/-! ## text of a sample column -/

def natStr (n : Nat) : String := toString n

def renderAllele : Option Nat → String
  | none => "."
  | some a => natStr a

def renderGt (g : Gt) (phased : Bool) : String := (if phased then "|" else "/").intercalate (g.map renderAllele)

def renderVal : Val → String
  | .missing => "."
  | .int n => toString n
  | .hp l => ",".intercalate (l.map fun p => natStr p.1 ++ "-" ++ natStr p.2)
  | .raw s => s

/-- the entries of one sample column, one per FORMAT key -/
def renderEntries (fmt : List String) (c : Call) : List String :=
  fmt.map fun k => if k = "GT" then (match c.gt with | some g => renderGt g c.phased | none => ".") else renderVal (c.get k)

def renderCall (fmt : List String) (c : Call) : String := ":".intercalate (renderEntries fmt c)

/-- FORMAT column and sample columns of a record -/
def renderColumns (r : Record) : List String := ":".intercalate r.format :: r.calls.map fun nc => renderCall r.format nc.2

end WhVerif.C04

import WhVerif.Model.C15Glue
/-!
# C15 model, part 3: what `solve_polyphase_instance` does with the genotype list, and where breakpoints come from

Core Lean only.  The heuristics (cluster editing, threading, likelihoods, ILP) stay unmodelled; what is modelled is
every step between the genotype list and the result that *moves alleles or positions around*:

* `blockStartsOfLabels` — the last loop of `polyphase/__init__.py:compute_block_starts` (`cuts = [0]`, one more
  cut wherever the merged-cluster label changes); `computeBlockStarts` — the whole function (link counts,
  position clusters, BFS merge), exact.
* `blocks` / `slices` — `zip(block_starts[:-1], block_starts[1:])` after `block_starts.append(num_vars)` and the
  `genotype_list[start:end]` handed to `phase_single_block`.
* `singletonCol` — the trivial solution of a one-variant block (`sorted(chain(*[[[a]] * g[a] for a in g]))`).
* `ForceOut` — the possible results of `force_genotypes` on a column after the F8 repair (9aca6a8):
  untouched (`-1` present, or nothing abundant) or some permutation of `alleles_to_insert` in the affected slots.
* `SubSteps` — `reorder.py:integrate_sub_results`, the write-back `haplotypes[hap][pos] = res.haplotypes[j][i]`
  for the sub-instances that contain the position (thread sets of one position are pairwise disjoint: one per
  cluster), each sub-result being again a result of `solve_polyphase_instance` for the sub-genotype
  `{a: h.count(a) for a in h}` of the slots in the thread set.
* `SolvedN` — the columns `solve_polyphase_instance` can return for a genotype, by recursion depth.
* `findBreakpoints` (`find_breakpoints`), `mapSubBreakpoints`, `sortByPosition`, `joinDuplicates`
  (`integrate_sub_results`), `aggregateBps` (`algorithm.py:aggregate_results`).
* `applyPerm` / `optimalAssignments` — the branch of `get_optimal_assignments` without pre-phasing affiliations.
-/
namespace WhVerif.C15

/-! ## block starts -/

/-- `cuts = [0]; for i in range(1, num_vars): if label[i] != label[i-1]: cuts.append(i)`;
`labels[i]` = `merged_clust[pos_clust[i]]` -/
def blockStartsFrom : Nat → List Nat → List Nat
  | i, a :: b :: rest => if a != b then i :: blockStartsFrom (i + 1) (b :: rest) else blockStartsFrom (i + 1) (b :: rest)
  | _, _ => []

def blockStartsOfLabels (labels : List Nat) : List Nat :=
  if labels.isEmpty then [] else 0 :: blockStartsFrom 1 labels

/-- `zip(block_starts[:-1], block_starts[1:])` after `block_starts.append(num_vars)` -/
def blocks : List Nat → Nat → List (Nat × Nat)
  | [], _ => []
  | [s], n => [(s, n)]
  | s :: e :: rest, n => (s, e) :: blocks (e :: rest) n

/-- `l[start:end]` -/
def slice {α} (l : List α) (se : Nat × Nat) : List α := (l.drop se.1).take (se.2 - se.1)

/-- `cut_threshold` of `compute_block_starts`; `small k i` = `k * pow((k - 2) / k, i) < 0.02` -/
def cutThresholdLoop (small : Nat → Nat → Bool) (k : Nat) : Nat → List Nat → Nat
  | cur, [] => cur
  | _, i :: is => if small k i then i else cutThresholdLoop small k i is

def cutThreshold (small : Nat → Nat → Bool) (k : Nat) (singleLinkage : Bool) : Nat :=
  if k == 2 || singleLinkage then 1
  else cutThresholdLoop small k (k * k) (List.range' (k - 1) (k * k - (k - 1)))

/-- `link_to_next[i]`: number of adjacent pairs `(i, i+1)` in the reads (reads = lists of column indices) -/
def linkToNext (reads : List (List Nat)) (i : Nat) : Nat :=
  (reads.map (fun r => ((r.zip r.tail).filter (fun p => p.1 == i && p.1 + 1 == p.2)).length)).sum

/-- `pos_clust` -/
def posClustFrom (reads : List (List Nat)) (thr : Nat) : Nat → Nat → Nat → List Nat
  | _, _, 0 => []
  | i, cur, n + 1 =>
    let c := if thr ≤ linkToNext reads (i - 1) then cur else cur + 1
    c :: posClustFrom reads thr (i + 1) c n

def posClust (reads : List (List Nat)) (thr numVars : Nat) : List Nat :=
  if numVars = 0 then [] else 0 :: posClustFrom reads thr 1 0 (numVars - 1)

/-- `link_coverage[p1][p2]`: number of reads that cover both position clusters -/
def linkCoverage (reads : List (List Nat)) (pc : List Nat) (p1 p2 : Nat) : Nat :=
  (reads.filter (fun r => r.any (fun p => pc.getD p 0 == p1) && r.any (fun p => pc.getD p 0 == p2))).length

/-- one BFS wave: unlabelled clusters linked (≥ thr) to the set -/
def bfsGrow (reads : List (List Nat)) (pc : List Nat) (thr nc : Nat) (lab : List (Option Nat)) (s : List Nat) : List Nat :=
  s ++ (List.range nc).filter (fun j => !s.contains j && (lab.getD j none).isNone &&
    s.any (fun i => decide (0 < linkCoverage reads pc i j) && decide (thr ≤ linkCoverage reads pc i j)))

def bfsClosure (reads : List (List Nat)) (pc : List Nat) (thr nc : Nat) (lab : List (Option Nat)) : Nat → List Nat → List Nat
  | 0, s => s
  | f + 1, s => bfsClosure reads pc thr nc lab f (bfsGrow reads pc thr nc lab s)

/-- `merged_clust` -/
def mergeLoop (reads : List (List Nat)) (pc : List Nat) (thr nc : Nat) : List Nat → List (Option Nat) → Nat → List (Option Nat)
  | [], lab, _ => lab
  | i :: is, lab, next =>
    if (lab.getD i none).isSome then mergeLoop reads pc thr nc is lab next
    else
      let comp := bfsClosure reads pc thr nc lab nc [i]
      mergeLoop reads pc thr nc is (comp.foldl (fun l j => l.set j (some next)) lab) (next + 1)

/-- `compute_block_starts(am, ploidy, single_linkage)`; `reads` = the allele matrix rows as lists of column indices -/
def computeBlockStarts (small : Nat → Nat → Bool) (reads : List (List Nat)) (numVars k : Nat) (singleLinkage : Bool) :
    List Nat :=
  let thr := cutThreshold small k singleLinkage
  let pc := posClust reads thr numVars
  let nc := match pc.getLast? with | some x => x + 1 | none => 0
  let merged := mergeLoop reads pc thr nc (List.range nc) (List.replicate nc none) 0
  blockStartsOfLabels (pc.map (fun c => (merged.getD c none).getD 0))

/-! ## the columns a (sub-)instance can return for one genotype -/

/-- `haps = sorted(list(chain(*[[[a]] * g[a] for a in g])))` of a one-variant block, as a column -/
def singletonCol (gv : List Allele) : List Allele := isort (fun a b => decide (a ≤ b)) gv

/-- results of `force_genotypes` on a column (after the repair of F8: some permutation is always taken) -/
def ForceOut (col gv out : List Allele) : Prop :=
  match forceStep col gv with
  | .skipUndetermined => out = col
  | .nothingAbundant => out = col
  | .choose aff ins => ∃ perm : List Allele, perm.Perm ins ∧ out = assign col aff perm

/-- the write-backs of `integrate_sub_results` into one column: sub-instances `(thread_set, sub-result column)`;
`orig` = the column after threading, from which every sub-genotype was taken; `used` = slots written so far -/
inductive SubSteps (S : List Allele → List Allele → Prop) (orig : List Allele) :
    List Nat → List Allele → List Allele → Prop
  | done (used : List Nat) (c : List Allele) : SubSteps S orig used c c
  | step (used ts : List Nat) (c sub c' : List Allele)
      (hnodup : ts.Nodup) (hrange : ∀ t ∈ ts, t < orig.length) (hdisj : ∀ t ∈ ts, t ∉ used)
      (hlen : sub.length = ts.length)
      (hsub : S (extractPerm ts orig) sub)
      (hrest : SubSteps S orig (ts ++ used) (assign c ts sub) c') : SubSteps S orig used c c'

/-- the columns `solve_polyphase_instance` can return for the genotype `gv` (list of alleles), recursion depth ≤ n:
a one-variant block, or threading (`col0`, arbitrary) → `force_genotypes` → sub-instance write-backs →
`permute_blocks` (some permutation of the haplotypes for the block the column lies in) -/
def SolvedN : Nat → List Allele → List Allele → Prop
  | 0, gv, out => out = singletonCol gv
  | n + 1, gv, out =>
    out = singletonCol gv ∨
    ∃ col0 col1 col2 : List Allele, ∃ perm : List Nat,
      col0.length = gv.length ∧ ForceOut col0 gv col1 ∧ SubSteps (SolvedN n) col1 [] col1 col2 ∧
      perm.Perm (List.range gv.length) ∧ out = permuteCol perm col2

/-! ## breakpoints -/

/-- `affected_haps` of `find_breakpoints` for two consecutive rows of `threads` -/
def affectedHaps (prev cur : List Nat) : List Nat :=
  let changed := (List.range prev.length).filter (fun j => prev.getD j 0 != cur.getD j 0)
  let clusts := changed.map (fun j => prev.getD j 0)
  (List.range prev.length).filter (fun j => clusts.contains (prev.getD j 0))

def findBreakpointsFrom {C} (zero : C) : Nat → List (List Nat) → List (Breakpoint C)
  | i, prev :: cur :: rest =>
    (if 2 ≤ (affectedHaps prev cur).length then [⟨i, affectedHaps prev cur, zero⟩] else []) ++
      findBreakpointsFrom zero (i + 1) (cur :: rest)
  | _, _ => []

/-- `find_breakpoints(threads)` -/
def findBreakpoints {C} (zero : C) (threads : List (List Nat)) : List (Breakpoint C) :=
  findBreakpointsFrom zero 1 threads

/-- `PhaseBreakpoint.__init__`: `self.haplotypes = sorted(haplotypes[:])` -/
def mkBreakpoint {C} (pos : Nat) (haps : List Nat) (conf : C) : Breakpoint C :=
  ⟨pos, isort (fun a b => decide (a ≤ b)) haps, conf⟩

/-- breakpoints of a sub-result mapped into the block: `pos = snps[bp.position]`, `haps = thread_set[i]` -/
def mapSubBreakpoints {C} (snps ts : List Nat) (bps : List (Breakpoint C)) : List (Breakpoint C) :=
  bps.map (fun b => mkBreakpoint (snps.getD b.position 0) (b.haplotypes.map (fun i => ts.getD i 0)) b.confidence)

/-- `breakpoints.sort(key=lambda x: x.position)` (stable) -/
def sortByPosition {C} (bps : List (Breakpoint C)) : List (Breakpoint C) :=
  isort (fun a b => decide (a.position ≤ b.position)) bps

/-- one step of "Join duplicate breakpoints": `acc` newest first -/
def joinStep {C} (mul : C → C → C) (acc : List (Breakpoint C)) (b : Breakpoint C) : List (Breakpoint C) :=
  match acc with
  | a :: as =>
    if a.position = b.position then ⟨a.position, posSet (a.haplotypes ++ b.haplotypes), mul a.confidence b.confidence⟩ :: as
    else b :: a :: as
  | [] => [b]

/-- runs of equal positions are merged: haplotypes `sorted(set(…))`, confidence `reduce(mul, …)` -/
def joinDuplicates {C} (mul : C → C → C) (bps : List (Breakpoint C)) : List (Breakpoint C) :=
  (bps.foldl (joinStep mul) []).reverse

/-- the breakpoints `integrate_sub_results` returns: `subs` = `(snps, thread_set, breakpoints of the sub-result)` -/
def integrateBreakpoints {C} (zero : C) (mul : C → C → C) (threads : List (List Nat))
    (subs : List (List Nat × List Nat × List (Breakpoint C))) : List (Breakpoint C) :=
  joinDuplicates mul (sortByPosition
    (findBreakpoints zero threads ++ subs.flatMap (fun s => mapSubBreakpoints s.1 s.2.1 s.2.2)))

/-- what `aggregate_results` reads of a block result: `len(r.haplotypes[0])` and `r.breakpoints` -/
structure BlockBps (C : Type) where
  ncols : Nat
  bps : List (Breakpoint C)

/-- `len(haplotypes[0])` of the aggregate -/
def totalCols {C} (rs : List (BlockBps C)) : Nat := (rs.map (·.ncols)).sum

/-- the breakpoint list of `aggregate_results(results, ploidy, borders)`, `off` = `pos_offset` -/
def aggregateBps {C} (zero : C) (ploidy : Nat) (borders : List Nat) : Nat → List (BlockBps C) → List (Breakpoint C)
  | _, [] => []
  | off, r :: rs =>
    (if borders.isEmpty || borders.contains off || off == 0 then [⟨off, List.range ploidy, zero⟩] else []) ++
      r.bps.map (fun b => mkBreakpoint (b.position + off) b.haplotypes b.confidence) ++
      aggregateBps zero ploidy borders (off + r.ncols) rs

/-! ## get_optimal_assignments without affiliations -/

/-- `for left, right in zip(sorted(perm), perm): nxt[prevA.index(left)] = right`, `nxt` starting as a copy of `prevA` -/
def applyPerm (prevA : List Nat) (perm : List Nat) : List Nat :=
  ((isort (fun a b => decide (a ≤ b)) perm).zip perm).foldl (fun nxt lr => nxt.set (prevA.idxOf lr.1) lr.2) prevA

def assignmentsFrom : List Nat → List (List Nat) → List (List Nat)
  | a, [] => [a]
  | a, p :: ps => a :: assignmentsFrom (applyPerm a p) ps

/-- `get_optimal_assignments(breakpoints, lllh, ploidy, None)`; `choices[b]` = `max(lllh[b], key=lllh[b].get)` -/
def optimalAssignments (ploidy : Nat) (choices : List (List Nat)) : List (List Nat) :=
  assignmentsFrom (List.range ploidy) choices

/-- `max(d, key=d.get)`: the first key with the greatest value -/
def firstMax {α L} (lt : L → L → Bool) : Option (α × L) → List (α × L) → Option α
  | best, [] => best.map (·.1)
  | none, e :: es => firstMax lt (some e) es
  | some b, e :: es => if lt b.2 e.2 then firstMax lt (some e) es else firstMax lt (some b) es

end WhVerif.C15

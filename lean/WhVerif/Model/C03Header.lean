/-!
# C03 — how the phase set identifier becomes TEXT: the type rule of `vcf.py:missing_headers` for the predefined FORMAT keys and
htslib's rendering of an integer value under the declared type (round 10, finding F140)

`PhasedVcfWriter` assigns `call["PS"] = component + 1` (a Python int).  What ends up in the file is decided by the TYPE the output
header declares for `PS`: the output header is the input header after `missing_headers` / `augment_header` / `setup_header`.

* `formatRule` — the decision of `missing_headers` for a header line `##FORMAT=<ID=key,Number=number,Type=typ>` of a predefined
  key, AS CODED: `accept` (line kept), `rewrite` (key returned in `incorrect_formats`: `augment_header` removes the line and adds
  the predefined one), `refuse` (`VcfError`, PS only).  The tolerance "Float instead of Integer is ok" applies to every key
  whose predefined type is Integer — including PS.
* `formatRuleFixed` — as repaired by `fixes/F140.patch`: the tolerance does not apply to PS.
* `psOutputType` — the type of PS in the OUTPUT header (`setup_header`'s `add_line` of an ID that is already defined is ignored by htslib).
* `renderFloatG` — htslib `vcf_format` of a Float FORMAT value that is an integer: the value is a 32-bit float (`toF32`: 24-bit
  mantissa, round half even), written by `kputd`: at most 999999 -> plain decimal; larger -> C `%g` (6 significant digits, round half
  even on the exact value, trailing zeros removed, exponent of at least two digits).
* `renderDec` / `parseDec` — decimal text of an Integer value and the decimal reader.
Core Lean only.
-/
namespace WhVerif.C03.Header

inductive Num where
  | n (k : Nat) | dot | A | G | R
  deriving DecidableEq, Repr

inductive Typ where
  | integer | float | string | character
  deriving DecidableEq, Repr

inductive Decision where
  | accept | rewrite | refuse | notPredefined
  deriving DecidableEq, Repr

structure Decl where
  number : Num
  typ : Typ
  deriving DecidableEq, Repr

/-- `PREDEFINED_FORMATS` -/
def predefined (key : String) : Option Decl :=
  if key == "GL" then some ⟨.G, .float⟩
  else if key == "GQ" then some ⟨.n 1, .integer⟩
  else if key == "GT" then some ⟨.n 1, .string⟩
  else if key == "HP" then some ⟨.dot, .string⟩
  else if key == "PQ" then some ⟨.n 1, .float⟩
  else if key == "PS" then some ⟨.n 1, .integer⟩
  else if key == "HS" then some ⟨.dot, .integer⟩
  else if key == "AD" then some ⟨.dot, .integer⟩
  else none

/-- `v.type` as pysam reports it: htslib has one string type (`BCF_HT_STR`) for `Type=String` and `Type=Character`, pysam calls
it "String" -/
def seenType : Typ → Typ
  | .character => .string
  | t => t

/-- `missing_headers`, the loop over `variant_file.header.formats`, as coded -/
def formatRule (key : String) (d : Decl) : Decision :=
  match predefined key with
  | none => .notPredefined
  | some h =>
    let t := seenType d.typ
    if d.number != h.number || (t != h.typ && !(t == .float && h.typ == .integer)) then
      if key == "PS" && t != h.typ then .refuse else .rewrite
    else .accept

/-- as repaired (F140): "Float instead of Integer is ok" does not apply to PS -/
def formatRuleFixed (key : String) (d : Decl) : Decision :=
  match predefined key with
  | none => .notPredefined
  | some h =>
    let t := seenType d.typ
    if d.number != h.number || (t != h.typ && !(t == .float && h.typ == .integer && key != "PS")) then
      if key == "PS" && t != h.typ then .refuse else .rewrite
    else .accept

/-- type of PS in the output header (`none` = the run is refused); `decl = none`: the input header does not declare PS -/
def psOutputType (rule : String → Decl → Decision) (decl : Option Decl) : Option Typ :=
  match decl with
  | none => some .integer
  | some d =>
    match rule "PS" d with
    | .accept => some d.typ
    | .rewrite => some .integer
    | .refuse => none
    | .notPredefined => some d.typ

/-! ## decimal text -/

def digitChar (d : Nat) : Char := Char.ofNat (48 + d)

/-- decimal digits, least significant first (fuel = any number > n) -/
def decRevF : Nat → Nat → List Char
  | 0, _ => []
  | fuel + 1, n => if n < 10 then [digitChar n] else digitChar (n % 10) :: decRevF fuel (n / 10)

def decRev (n : Nat) : List Char := decRevF (n + 1) n
def renderDec (n : Nat) : List Char := (decRev n).reverse

def parseDigit (c : Char) : Option Nat :=
  if 48 ≤ c.toNat ∧ c.toNat ≤ 57 then some (c.toNat - 48) else none

/-- value of a digit string given least significant digit first; `none` when empty or when a character is no digit -/
def parseRev : List Char → Option Nat
  | [] => none
  | [c] => parseDigit c
  | c :: cs => match parseDigit c, parseRev cs with
    | some d, some r => some (d + 10 * r)
    | _, _ => none

def parseDec (cs : List Char) : Option Nat := parseRev cs.reverse

/-! ## a Float FORMAT value that is an integer -/

/-- smallest `k ≥ k0` with `n / 2^k < 2^24` (fuel-bounded) -/
def shiftFor : Nat → Nat → Nat → Nat
  | 0, _, k => k
  | fuel + 1, n, k => if n / 2 ^ k < 2 ^ 24 then k else shiftFor fuel n (k + 1)

/-- nearest 32-bit float (24-bit mantissa, ties to even) of a non-negative integer, as an integer -/
def toF32 (n : Nat) : Nat :=
  let k := shiftFor n n 0
  if k = 0 then n else
    let q := n / 2 ^ k
    let r := n % 2 ^ k
    let half := 2 ^ (k - 1)
    (if r > half ∨ (r = half ∧ q % 2 = 1) then q + 1 else q) * 2 ^ k

def stripZerosRev : List Char → List Char
  | '0' :: cs => stripZerosRev cs
  | cs => cs

/-- C `%g` (precision 6) of an integer-valued double `v ≥ 10^6`; `kputd` writes `v ≤ 999999` as plain decimal -/
def renderG6 (v : Nat) : List Char :=
  if v < 1000000 then renderDec v else
    let e := (decRev v).length - 1
    let p := 10 ^ (e - 5)
    let q := v / p
    let r := v % p
    let m := if 2 * r > p ∨ (2 * r = p ∧ q % 2 = 1) then q + 1 else q
    let me : Nat × Nat := if m = 1000000 then (100000, e + 1) else (m, e)
    let ds := (stripZerosRev (decRev me.1)).reverse
    let mant := match ds with
      | [] => []
      | [c] => [c]
      | c :: rest => c :: '.' :: rest
    mant ++ ['e', '+'] ++ (if me.2 < 10 then ['0'] else []) ++ renderDec me.2

def renderFloatG (n : Nat) : List Char := renderG6 (toF32 n)

/-- the text htslib writes for the integer `n` assigned to a FORMAT key declared with type `t` (Integer and Float; a String /
Character PS is refused before anything is written) -/
def renderToken (t : Typ) (n : Nat) : List Char :=
  match t with
  | .float => renderFloatG n
  | _ => renderDec n

end WhVerif.C03.Header

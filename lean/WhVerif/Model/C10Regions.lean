import WhVerif.Model.C10
/-!
# C10 — `--regions` after the repair F17, step by step

`Model/C10.lean` describes the repaired loop abstractly (`runRegions`/`fetchOnce`: an alignment is written with
the first region of the list it overlaps).  Here the two pieces of `fixes/F17.patch` are mirrored literally:

* `normalizeRegions` / `normalizeSel` = `normalize_user_regions`: contigs in the order of the BAM header,
  a contig nobody asked for is left out, each contig's regions `sorted(key=start)` (stable) and merged
  (`start <= prev_end` ⇒ the last region is extended, `prev_end is None` ⇒ swallowed);
* `fetchSkip` / `runRegionsSkip` = the write loop of `run_haplotag`: one `fetch` per normalised region,
  an alignment with `reference_start < previous_end` is skipped, `previous_end = end` afterwards.
-/
namespace WhVerif.C10

/-- a region as `normalize_user_regions` stores it: 0-based start, exclusive end or `None` -/
abbrev Region := Int × Option Int

/-- the merge loop of `normalize_user_regions` with `regions[reference][-1]` held in the first argument -/
def mergeFrom : Region → List Region → List Region
  | cur, [] => [cur]
  | (ps, none), _ :: rest => mergeFrom (ps, none) rest                 -- `prev_end is None`: continue
  | (ps, some pe), (s, e) :: rest =>
    if s ≤ pe then
      match e with
      | none => mergeFrom (ps, none) rest                             -- `end is None`: extend
      | some e' => if e' > pe then mergeFrom (ps, some e') rest else mergeFrom (ps, some pe) rest
    else (ps, some pe) :: mergeFrom (s, e) rest

def mergeRegions : List Region → List Region
  | [] => []
  | r :: rest => mergeFrom r rest

/-- stable insertion: `r` goes before the first region that does not start earlier -/
def insertByStart (r : Region) : List Region → List Region
  | [] => [r]
  | x :: xs => if r.1 ≤ x.1 then r :: x :: xs else x :: insertByStart r xs

/-- `sorted(requested[reference], key=lambda r: r[0])`: stable, equal starts keep the order given -/
def sortByStart : List Region → List Region
  | [] => []
  | r :: rs => insertByStart r (sortByStart rs)

def normalizeRegions (requested : List Region) : List Region :=
  mergeRegions (sortByStart requested)

/-- the regions the user gave for the contig with index `i` of the BAM header, in the order given -/
def requestedFor (user : List (Nat × Region)) (i : Nat) : List Region :=
  (user.filter fun u => u.1 == i).map (·.2)

/-- `normalize_user_regions(user_regions, bam_references)` for `user_regions is not None`:
the dict in insertion order; `user` names a contig by its index in the header -/
def normalizeSel {α} (chroms : List (Chrom α)) (user : List (Nat × Region)) : List (Chrom α × List Region) :=
  chroms.zipIdx.filterMap fun (c, i) =>
    let rq := requestedFor user i
    if rq.isEmpty then none else some (c, normalizeRegions rq)

/-- `previous_end is not None and alignment.reference_start < previous_end` -/
def startsBefore {α} (prev : Option Int) (a : Aln α) : Bool :=
  match prev with
  | none => false
  | some p => decide (a.refStart < p)

/-- the write loop for one contig; first argument is `previous_end` -/
def fetchSkip {α} (alns : List (Aln α)) : Option Int → List Region → List (Aln α)
  | _, [] => []
  | prev, r :: rest =>
    alns.filter (fun a => overlaps r a && !startsBefore prev a) ++ fetchSkip alns r.2 rest

def runRegionsSkip {α} (sel : List (Chrom α × List Region)) : List (Aln α) :=
  sel.flatMap fun (c, regions) => (fetchSkip c.alns none regions).map (tagAln c.ctx)

/-- the placed part of the BAM as one stream: every alignment with the header index of its contig
(contigs in header order, as `run` reads them) -/
def stream {α} (chroms : List (Chrom α)) : List (Nat × Aln α) :=
  chroms.zipIdx.flatMap fun (c, i) => c.alns.map fun a => (i, a)

/-- the alignment `a` of contig `i` overlaps one of the regions the user asked for -/
def requestedAln {α} (user : List (Nat × Region)) (ia : Nat × Aln α) : Bool :=
  user.any fun u => u.1 == ia.1 && overlaps u.2 ia.2

end WhVerif.C10

import WhVerif.Model.C01
/-!
# C01 model, part 4: the DP in the code's arithmetic — `unsigned int` (32 bit, wrap-around) with
# `std::numeric_limits<unsigned int>::max()` as "infinity".

Every cost in `PedigreeDPTable` / `PedigreeColumnCostComputer` is an `unsigned int`: phred scores of entries
(`Entry::phred_score`), `cost_partition[p][allele]`, `allele_assignment_t::cost`, `get_cost()`, the DP column,
the projection columns, `optimal_score`, `recombcost[c]`.  Additions are plain `+`/`+=` (wrap modulo 2^32; the
product `popcount(x) * recombcost[c]` is a `size_t` that is truncated when added to `val`), and only three places
look at the sentinel:

* `get_cost()`: `best_cost = UINT_MAX; … if (cost < best_cost) best_cost = cost;`
* `compute_column`: `if (current_cost < UINT_MAX && previous_cost < UINT_MAX) val = current_cost + previous_cost;
  else val = UINT_MAX;  if (val < UINT_MAX) val += popcount(i ^ j) * recombcost[c];  if (val < min) min = val;`
  (for column 0 `previous_cost = 0`, and the recombination term IS added — with `j = i` it vanishes)
* projection / optimum: `if (dp < projection[f][t]) projection[f][t] = dp;`, `if (dp < optimal_score) …`.

Since `+` modulo 2^32 is a ring homomorphism, a chain of wrapping additions equals the wrapped exact sum; the model
therefore wraps each completed sum once (`wrap`).  `enc` embeds the unbounded model (`none` = infinite).
`ubAll I` is the bound under which nothing wraps and nothing finite reaches the sentinel (theorem `no_overflow`).
Core Lean only.
-/
namespace WhVerif.C01
open WhVerif.Cost

/-- `UINT_MAX` -/
def INF32 : Nat := 2 ^ 32 - 1

def wrap32 (x : Nat) : Nat := x % 2 ^ 32

/-- unbounded cost ↦ `unsigned int` with sentinel -/
def enc32 (x : Option Nat) : Nat := x.getD INF32

/-- `get_cost()` in 32-bit arithmetic -/
def colCost32 (I : Inst) (c : Nat) (bs : List Bool) (t : Nat) : Nat :=
  (assignments I c t).foldl (fun best ag =>
    let cost := wrap32 (ag.2 + viewCost I c t ag.1 bs)
    if cost < best then cost else best) INF32

/-- one DP cell as `compute_column` computes it; `prev` = previous projection column (ignored for `c = 0`) -/
def dpCell32 (I : Inst) (c : Nat) (prev : Array Nat) (idx t : Nat) : Nat :=
  let cur := colCost32 I c (bitsOf (I.activeAt c).length idx) t
  let bp := idx % 2 ^ (I.sharedAt (c - 1)).length
  (List.range I.ntrans).foldl (fun mn j =>
    let pc := if c = 0 then 0 else prev.getD (bp * I.ntrans + j) INF32
    let val := if cur < INF32 ∧ pc < INF32 then wrap32 (cur + pc) else INF32
    let val := if val < INF32 then wrap32 (val + popcount (t ^^^ j) * I.recombAt c) else val
    if val < mn then val else mn) INF32

/-- forward projection column: entry `f * ntrans + t`, initialised with `UINT_MAX`, strict-`<` updates -/
def projTable32 (I : Inst) (c : Nat) (prev : Array Nat) : Array Nat :=
  let k := (I.activeAt c).length
  (pairs (2 ^ k) I.ntrans).foldl (fun arr it =>
      arr.modify (natOfBits (fwdBits I c (bitsOf k it.1)) * I.ntrans + it.2) (fun old =>
        let v := dpCell32 I c prev it.1 it.2
        if v < old then v else old))
    (Array.replicate (2 ^ (I.sharedAt c).length * I.ntrans) INF32)

def tableAt32 (I : Inst) : Nat → Array Nat
  | 0 => projTable32 I 0 #[]
  | c + 1 => projTable32 I (c + 1) (tableAt32 I c)

/-- `get_optimal_score()` (when no exception is thrown); `UINT_MAX` if nothing finite was seen -/
def dpCost32 (I : Inst) : Nat :=
  if I.ncols = 0 then 0
  else
    let c := I.ncols - 1
    let prev := if c = 0 then #[] else tableAt32 I (c - 1)
    (pairs (2 ^ (I.activeAt c).length) I.ntrans).foldl (fun best it =>
      let v := dpCell32 I c prev it.1 it.2
      if v < best then v else best) INF32

/-- `throw std::runtime_error("Error: Mendelian conflict")`: some bipartition of some column has
`get_cost() == UINT_MAX` under every transmission value -/
def throws32 (I : Inst) : Bool :=
  (List.range I.ncols).any (fun c =>
    (List.range (2 ^ (I.activeAt c).length)).any (fun idx =>
      (List.range I.ntrans).all (fun t => colCost32 I c (bitsOf (I.activeAt c).length idx) t == INF32)))

/-! ## the bound -/

/-- sum of the weights of the entries of column `c` -/
def colW (I : Inst) (c : Nat) : Nat :=
  ((I.activeAt c).map (fun r => match (I.read r).entryAt c with | none => 0 | some (_, w) => w)).sum

/-- largest genotype cost of individual `ind` in column `c` -/
def maxG (I : Inst) (ind c : Nat) : Nat :=
  max ((gcost I ind c 0).getD 0) (max ((gcost I ind c 1).getD 0) ((gcost I ind c 2).getD 0))

def colG (I : Inst) (c : Nat) : Nat := ((List.range I.nind).map (fun ind => maxG I ind c)).sum

/-- a recombination in every meiosis: 2 per trio -/
def colR (I : Inst) (c : Nat) : Nat := 2 * I.trios.length * I.recombAt c

/-- bound on every (intermediate) value of the columns `0 … c` -/
def ubUpTo (I : Inst) : Nat → Nat
  | 0 => colW I 0 + colG I 0 + colR I 0
  | c + 1 => ubUpTo I c + (colW I (c + 1) + colG I (c + 1) + colR I (c + 1))

/-- all read weights + the largest genotype costs + two recombinations per trio and column -/
def ubAll (I : Inst) : Nat := if I.ncols = 0 then 0 else ubUpTo I (I.ncols - 1)

end WhVerif.C01

/-!
# C15 model: the stages of `whatshap polyphase` that are meant to enforce the property

Core Lean only.  The clustering / threading heuristic upstream is NOT modelled: every function here
takes the heuristic's result as an arbitrary input (universally quantified in the theorems).

* `forceStep` / `assign` / `classify`  — one position (column) of
  `whatshap/polyphase/threading.py:force_genotypes`.  The positions are independent in the code
  (one `for pos` loop, nothing carried over), so the model is per column.
  A genotype dict `{allele: multiplicity}` is modelled by its expansion to a list of alleles
  (`create_genotype_list` builds the dict by counting `Genotype.as_vector()`).
  The likelihood that selects the permutation is not modelled: *which* permutation of
  `alleles_to_insert` is written into the affected slots is left open, and — faithful to the code as it
  is — so is the outcome "no permutation was better than −inf": then `best_config` stays the given,
  unforced column (`Verdict.fallback`).
* `permuteBlocks` — the haplotype/thread shuffling of `whatshap/polyphase/reorder.py:permute_blocks`
  (sequential writes into the columns from a deep copy, exactly the loop structure of the code).
* `computeCutPositions` — `whatshap/polyphase/algorithm.py:compute_cut_positions`, generic in the
  arithmetic on confidences (`ConfArith`: `== 0.0`, `log`, `+`, `<=`, thresholds); the driver
  instantiates it with IEEE doubles, the theorems hold for every instance.
* `componentWrites` / `dictGet` — the component dictionary built in
  `whatshap/cli/polyphase.py:phase_single_individual` (sequence of dict writes, last write wins),
  `phasedPos` — the positions that enter the super-reads.
-/
namespace WhVerif.C15

abbrev Allele := Int

/-! ## force_genotypes, one column -/

/-- Python `set` of alleles: order irrelevant (everything derived from it is sorted afterwards) -/
def dedup : List Allele → List Allele
  | [] => []
  | x :: xs => if xs.contains x then dedup xs else x :: dedup xs

/-- `alleles = {a for a in genotypes[pos]} ∪ {h[pos] for h in haplotypes}` -/
def alleles (col gv : List Allele) : List Allele := dedup (gv ++ col)

/-- `diff > 0` : `present[a] - genotypes[pos][a] > 0` -/
def abundant (col gv : List Allele) (a : Allele) : Bool := decide (gv.count a < col.count a)

/-- ascending list of the indices (counted from `k`) whose entry satisfies `f` -/
def idxFrom (f : Allele → Bool) : Nat → List Allele → List Nat
  | _, [] => []
  | k, x :: xs => if f x then k :: idxFrom f (k + 1) xs else idxFrom f (k + 1) xs

/-- `affected_positions` (after `.sort()`): all slots holding an abundant allele -/
def affected (col gv : List Allele) : List Nat := idxFrom (abundant col gv) 0 col

/-- contribution of allele `a` to `alleles_to_insert`:
abundant → `genotypes[pos][a]` copies; lacking → `-diff` copies; `diff == 0` → none -/
def insertFor (col gv : List Allele) (a : Allele) : List Allele :=
  if gv.count a < col.count a then List.replicate (gv.count a) a
  else List.replicate (gv.count a - col.count a) a

/-- `alleles_to_insert` (after `.sort()`) -/
def toInsert (col gv : List Allele) : List Allele :=
  ((alleles col gv).flatMap (insertFor col gv)).mergeSort (fun a b => decide (a ≤ b))

/-- `newconfig = given_config[:]; for i in range(len(perm)): newconfig[affected_positions[i]] = perm[i]` -/
def assign (col : List Allele) : List Nat → List Allele → List Allele
  | p :: ps, v :: vs => assign (col.set p v) ps vs
  | _, _ => col

inductive ForceStep where
  /-- `if -1 in present: continue` -/
  | skipUndetermined
  /-- `if len(abundant_alleles) == 0: continue` -/
  | nothingAbundant
  /-- the permutation stage is entered -/
  | choose (affected : List Nat) (toInsert : List Allele)
deriving Repr, DecidableEq

def forceStep (col gv : List Allele) : ForceStep :=
  if col.contains (-1) then .skipUndetermined
  else if (affected col gv).isEmpty then .nothingAbundant
  else .choose (affected col gv) (toInsert col gv)

inductive Verdict where
  | unchangedUndetermined   -- column has a -1: left as it is
  | unchangedNothingAbundant
  | perm                    -- a permutation of alleles_to_insert was written into the affected slots
  | fallback                -- permutation stage entered, column left as given (every permutation scored −inf)
  | inadmissible            -- not a possible result of the modelled code
deriving Repr, DecidableEq

/-- the alleles an observed result column holds in the affected slots -/
def extractPerm (aff : List Nat) (out : List Allele) : List Allele := aff.map (fun p => out.getD p 0)

/-- `out` is `col` with a permutation of `ins` written into the slots `aff` -/
def isPermResult (col : List Allele) (aff : List Nat) (ins out : List Allele) : Prop :=
  (extractPerm aff out).mergeSort (fun a b => decide (a ≤ b)) = ins ∧ out = assign col aff (extractPerm aff out)

instance (col : List Allele) (aff : List Nat) (ins out : List Allele) : Decidable (isPermResult col aff ins out) := by
  unfold isPermResult; infer_instance

/-- classify an observed result column `out` of the real `force_genotypes` -/
def classify (col gv out : List Allele) : Verdict :=
  match forceStep col gv with
  | .skipUndetermined => if out = col then .unchangedUndetermined else .inadmissible
  | .nothingAbundant => if out = col then .unchangedNothingAbundant else .inadmissible
  | .choose aff ins =>
    if out = col then .fallback
    else if isPermResult col aff ins out then .perm
    else .inadmissible

/-! ## permute_blocks -/

/-- new column `[copy[perm[t]] for t in range(ploidy)]` -/
def permuteCol {α} [Inhabited α] (perm : List Nat) (col : List α) : List α :=
  perm.map (fun j => col.getD j default)

/-- `for p in range(s, e): column[p] = permuted copy_column[p]` for the listed `p` -/
def writeRange {α} [Inhabited α] (orig : List (List α)) (perm : List Nat) :
    List (List α) → List Nat → List (List α)
  | st, [] => st
  | st, p :: ps => writeRange orig perm (st.set p (permuteCol perm (orig.getD p []))) ps

/-- blocks `zip(ext_bp[:-1], ext_bp[1:])` with `ext_bp = [0] + positions + [n]`, paired with `perms[i]` -/
def blockList (bps : List Nat) (n : Nat) (perms : List (List Nat)) : List ((Nat × Nat) × List Nat) :=
  (List.zip (0 :: bps) (bps ++ [n])).zip perms

def permuteLoop {α} [Inhabited α] (orig : List (List α)) :
    List (List α) → List ((Nat × Nat) × List Nat) → List (List α)
  | st, [] => st
  | st, ((s, e), perm) :: rest => permuteLoop orig (writeRange orig perm st (List.range' s (e - s))) rest

/-- `permute_blocks` on the columns (`cols[p][t] = haplotypes[t][p]`, resp. `threads[p][t]`) -/
def permuteBlocks {α} [Inhabited α] (cols : List (List α)) (bps : List Nat) (perms : List (List Nat)) :
    List (List α) :=
  permuteLoop cols cols (blockList bps cols.length perms)

/-! ## compute_cut_positions -/

structure Breakpoint (C : Type) where
  position : Nat
  haplotypes : List Nat
  confidence : C

/-- the float operations the cut decision uses -/
structure ConfArith (C L : Type) where
  isZero : C → Bool          -- `b.confidence == 0.0`
  log : C → L                -- `log(b.confidence)`
  zero : L                   -- `0.0`
  add : L → L → L            -- `+=`
  le : L → L → Bool          -- `remaining_conf[i] <= threshold`
  threshold : Nat → L        -- `[-inf, -inf, log(0.5), log(0.5), log(0.99), 0][B]`

/-- `thresholds_num[block_cut_sensitivity]` -/
def thresholdNum (ploidy B : Nat) : Nat :=
  match B with
  | 0 => ploidy
  | 1 => ploidy
  | 2 => min ploidy 3
  | 3 => 2
  | 4 => 2
  | _ => 0

structure CutState (L : Type) where
  cutsRev : List Nat            -- `cuts`, newest first
  hapCutsRev : List (List Nat)  -- `hap_cuts[h]`, newest first
  remaining : List L            -- `remaining_conf`

def CutState.init {L} (zero : L) (ploidy : Nat) : CutState L :=
  ⟨[], List.replicate ploidy [], List.replicate ploidy zero⟩

/-- append `pos` to `hap_cuts[h]` for the listed `h` -/
def addHapCuts (hc : List (List Nat)) (hs : List Nat) (pos : Nat) : List (List Nat) :=
  hs.foldl (fun acc h => acc.modify h (pos :: ·)) hc

def cutLoop {C L} (A : ConfArith C L) (ploidy B : Nat) : CutState L → List (Breakpoint C) → CutState L
  | st, [] => st
  | st, b :: bs =>
    if st.cutsRev.head? == some b.position then cutLoop A ploidy B st bs  -- `cuts and cuts[-1] == b.position`: `continue`
    else if !st.cutsRev.isEmpty && B == 0 then st                -- `break`
    else if A.isZero b.confidence then                           -- zero confidence: always cut
      cutLoop A ploidy B
        ⟨b.position :: st.cutsRev, addHapCuts st.hapCutsRev (List.range ploidy) b.position,
         List.replicate ploidy A.zero⟩ bs
    else
      let rem := b.haplotypes.foldl (fun r h => r.modify h (fun x => A.add x (A.log b.confidence))) st.remaining
      if thresholdNum ploidy B ≤ (rem.filter (fun x => A.le x (A.threshold B))).length then
        cutLoop A ploidy B
          ⟨b.position :: st.cutsRev, addHapCuts st.hapCutsRev b.haplotypes b.position,
           List.replicate ploidy A.zero⟩ bs
      else cutLoop A ploidy B { st with remaining := rem } bs

/-- `compute_cut_positions(breakpoints, ploidy, block_cut_sensitivity)` → `(cuts, hap_cuts)` -/
def computeCutPositions {C L} (A : ConfArith C L) (bps : List (Breakpoint C)) (ploidy B : Nat) :
    List Nat × List (List Nat) :=
  let st := cutLoop A ploidy B (CutState.init A.zero ploidy) bps
  (st.cutsRev.reverse, st.hapCutsRev.map List.reverse)

/-! ## component dictionary of `phase_single_individual` -/

/-- the dict writes of one block `for pos in range(s, e)`; `v = accessible_pos[cuts[i]]` -/
def blockWrites (acc : List Nat) (v : Nat) (s n : Nat) : List (Nat × Nat) :=
  (List.range' s n).flatMap (fun pos => [(acc.getD pos 0, v), (acc.getD pos 0 + 1, v)])

/-- `cuts = cuts + [num_vars]; for i in range(len(cuts)-1): for pos in range(cuts[i], cuts[i+1]): …` -/
def componentWrites (acc : List Nat) (numVars : Nat) : List Nat → List (Nat × Nat)
  | [] => []
  | [s] => blockWrites acc (acc.getD s 0) s (numVars - s)
  | s :: e :: rest => blockWrites acc (acc.getD s 0) s (e - s) ++ componentWrites acc numVars (e :: rest)

/-- value of key `k` after a sequence of dict writes (last write wins); `none` = key absent -/
def dictGet (w : List (Nat × Nat)) (k : Nat) : Option Nat :=
  w.foldl (fun r kv => if kv.1 = k then some kv.2 else r) none

/-- `phased_pos = [i for i in range(num_vars) if -1 not in [h[i] for h in haplotypes]]` (on columns) -/
def phasedPos (cols : List (List Allele)) : List Nat :=
  (List.range cols.length).filter (fun i => !((cols.getD i []).contains (-1)))

end WhVerif.C15

import WhVerif.Model.C11Poly
/-!
# C11 model: `whatshap/cli/compare.py`

Core Lean only.  A haplotype string is a `List Nat` (one allele digit per variant).
Faithful to the code as it is:
* `complement` raises `KeyError` on a character other than `0`/`1` (`none`);
* `hamming` = `sum(c0 != c1 for c0, c1 in zip(s0, s1))` (defined in `C11Poly`); it is generic, the code
  also applies it to two *lists of strings* (defect F3);
* `switchEncoding`, `computeSwitchFlips` (run-length loop with `switches_in_a_row`);
* `compareBlock`: any exception of the Python function (`AssertionError`, `ZeroDivisionError`,
  `IndexError`) is `none`; this happens exactly when the input is not `wellFormed`
  (same number ≥ 2 of haplotypes, all of the same length).  Diploid results are integers (`den = 1`,
  Hamming = `int(min/2)`); polyploid results are `k / ploidy` floats, modelled as numerator `k` with
  `den = ploidy`;
* `compare` / `compare_pair` / `compare_multiway`: common heterozygous variants, joint blocks keyed by the
  tuple of block ids in first-occurrence order, totals, first longest block, BED records, the
  longest-block agreement vector as coded (`agreementFaithful`, F3) and repaired (`agreementFixed`),
  the multiway histogram including its `assert` on the first bipartition (finding FC11c).
-/
namespace WhVerif.C11

abbrev Hap := List Nat

/-- `complement(s)`; `none` = `KeyError` -/
def complement : Hap → Option Hap
  | [] => some []
  | c :: t =>
    if c = 0 then (complement t).map (1 :: ·)
    else if c = 1 then (complement t).map (0 :: ·)
    else none

/-- `switch_encoding(phasing)` -/
def switchEncoding : Hap → Hap
  | [] => []
  | [_] => []
  | a :: b :: t => (if a = b then 0 else 1) :: switchEncoding (b :: t)

structure SwitchFlips where
  switches : Nat
  flips : Nat
deriving Repr, DecidableEq

/-- the loop of `compute_switch_flips` over `zip(s0, s1)`; `run` = `switches_in_a_row`.
`rest.isEmpty` is `i + 1 == len(s0)` (both encodings have the same length: the function asserts it) -/
def sfLoop : List (Nat × Nat) → Nat → SwitchFlips → SwitchFlips
  | [], _, r => r
  | (p0, p1) :: rest, run, r =>
    let run' := if p0 = p1 then run else run + 1
    if rest.isEmpty || p0 = p1 then
      sfLoop rest 0 ⟨r.switches + run' % 2, r.flips + run' / 2⟩
    else
      sfLoop rest run' r

/-- `compute_switch_flips(phasing0, phasing1)` (lengths equal) -/
def computeSwitchFlips (a b : Hap) : SwitchFlips :=
  sfLoop ((switchEncoding a).zip (switchEncoding b)) 0 ⟨0, 0⟩

def insertSorted (a : Nat) : List Nat → List Nat
  | [] => [a]
  | b :: t => if a ≤ b then a :: b :: t else b :: insertSorted a t

/-- the canonical form under which `Genotype` objects compare equal -/
def sortNat (l : List Nat) : List Nat := l.foldr insertSorted []

/-- alleles of all haplotypes at variant `i` -/
def column (ph : List Hap) (i : Nat) : List Nat := ph.map (fun h => h.getD i 0)

/-- `compute_matching_genotype_pos` -/
def matchingPos (ph0 ph1 : List Hap) (n : Nat) : List Nat :=
  (List.range n).filter fun i => sortNat (column ph0 i) == sortNat (column ph1 i)

/-- `sum_i hamming(phasing1[i], permutation[i])` for `permutation = [phasing0[k] for k in σ]` -/
def permHamming (ph0 ph1 : List Hap) (σ : Perm) : Nat :=
  ((σ.zip ph1).map fun kh => hamming kh.2 (ph0.getD kh.1 [])).sum

/-- numerator of the minimum Hamming distance: minimum over `itertools.permutations(phasing0)` -/
def minHammingNum (ph0 ph1 : List Hap) : Nat :=
  listMin ((perms ph0.length).map (permHamming ph0 ph1))

structure PhasingErrors where
  switches : Nat
  hamming : Nat
  sf : SwitchFlips
  diffGenotypes : Nat
  /-- common denominator of `switches`, `hamming`, `sf` (1 for diploid, ploidy otherwise) -/
  den : Nat
deriving Repr, DecidableEq

def wellFormed (ph0 ph1 : List Hap) : Bool :=
  ph0.length == ph1.length && decide (2 ≤ ph0.length) &&
    (ph0 ++ ph1).all (fun h => h.length == (ph0.headD []).length)

def restrictTo (h : Hap) (pos : List Nat) : Hap := pos.map (fun i => h.getD i 0)

/-- the per-position column pairs handed to the C++ calculator -/
def polyCols (ph0 ph1 : List Hap) (n : Nat) : List (List Nat × List Nat) :=
  (List.range n).map fun i => (column ph0 i, column ph1 i)

/-- the polyploid switch/flip decomposition of `compare_block`: as coded `compute_switch_flips_poly(ph0, ph1)` with
costs 1/1 (the split between switches and flips of an optimal solution then depends on the hash order and on
the order of the haplotypes, finding FC11b); repaired (`fixB`, fixes/FC11b.patch) with costs `k`/`k+1`,
`k = ploidy * n + 1`, i.e. lexicographically (switches + flips, flips) -/
def polySwitchFlips (fixA fixB : Bool) (ph0 ph1 : List Hap) (p n : Nat) : PolyResult :=
  if fixB then polyCompare fixA p (p * n + 1) (p * n + 2) (polyCols ph0 ph1 n)
  else polyCompare fixA p 1 1 (polyCols ph0 ph1 n)

/-- `compare_block(phasing0, phasing1)`; `fixA` selects the repaired single-position behaviour of the
polyploid calculator, `fixB` the repaired tie-breaking.  The polyploid `sf` is the representative under
first-arg-min tie-breaking; `polyCompare … .admissible` gives every pair the code may return. -/
def compareBlock (fixA fixB : Bool) (ph0 ph1 : List Hap) : Option PhasingErrors :=
  if !wellFormed ph0 ph1 then none else
  let p := ph0.length
  let n := (ph0.headD []).length
  let mp := matchingPos ph0 ph1 n
  if p = 2 then
    let a := ph0.headD []
    let b := ph1.headD []
    some { switches := hamming (switchEncoding a) (switchEncoding b)
           hamming := minHammingNum ph0 ph1 / 2
           sf := computeSwitchFlips a b
           diffGenotypes := n - mp.length
           den := 1 }
  else
    -- compute_switch_errors_poly: matched positions only, switch_cost 1, flip_cost 2*n*p+1
    let m0 := ph0.map (restrictTo · mp)
    let m1 := ph1.map (restrictTo · mp)
    let sw := polyCompare fixA p 1 (2 * n * p + 1) (polyCols m0 m1 mp.length)
    -- compute_switch_flips_poly: all positions, costs 1/1
    let sf := polySwitchFlips fixA fixB ph0 ph1 p n
    if sw.rep.2 ≠ 0 then none   -- `assert vector_error.flips == 0`
    else
      some { switches := sw.rep.1
             hamming := minHammingNum ph0 ph1
             sf := ⟨sf.rep.1, sf.rep.2⟩
             diffGenotypes := n - mp.length
             den := p }

/-! ## longest-block agreement (`compare_pair`) -/

def zerosOf (l : List Nat) : Nat := (l.filter (· = 0)).length

def agreeEq (a b : Hap) : List Nat := (a.zip b).map fun pq => if pq.1 = pq.2 then 1 else 0
def agreeNe (a b : Hap) : List Nat := (a.zip b).map fun pq => if pq.1 = pq.2 then 0 else 1

/-- as coded: `hamming(phasing0, phasing1) < hamming(phasing0[0], complement(phasing1[0]))` where the first
`hamming` compares the two LISTS of haplotype strings element-wise (0, 1 or 2 for diploid).  `none` = `KeyError` -/
def agreementFaithful (ph0 ph1 : List Hap) : Option (List Nat) :=
  let a := ph0.headD []
  let b := ph1.headD []
  match complement b with
  | none => none
  | some cb => some (if hamming ph0 ph1 < hamming a cb then agreeEq a b else agreeNe a b)

/-- repaired (fixes/F3.patch): `hamming(phasing0[0], phasing1[0]) < hamming(phasing0[0], complement(phasing1[0]))` -/
def agreementFixed (ph0 ph1 : List Hap) : Option (List Nat) :=
  let a := ph0.headD []
  let b := ph1.headD []
  match complement b with
  | none => none
  | some cb => some (if hamming a b < hamming a cb then agreeEq a b else agreeNe a b)

/-- repaired once more (fixes/F45.patch): `hamming(phasing0[0], phasing1[0]) < hamming(phasing0[0], phasing1[1])` — the
second haplotype itself instead of `complement` of the first, which raises `KeyError` on an allele ≥ 2 of a
multi-allelic call and is the same string for heterozygous biallelic calls.  Never fails. -/
def agreementSecond (ph0 ph1 : List Hap) : Option (List Nat) :=
  let a := ph0.headD []
  let b := ph1.headD []
  some (if hamming a b < hamming a (ph1.getD 1 []) then agreeEq a b else agreeNe a b)

/-- the agreement function selected by the flags: `fix45` (current proposal) over `fix3` (F3 repair) over as found -/
def agreementOf (fix3 fix45 : Bool) (ph0 ph1 : List Hap) : Option (List Nat) :=
  if fix45 then agreementSecond ph0 ph1 else if fix3 then agreementFixed ph0 ph1 else agreementFaithful ph0 ph1

/-! ## `compare`: common variants, joint blocks, pairwise totals, multiway histogram -/

/-- one call of the chosen sample as the reader sees it -/
structure Call where
  pos : Nat
  gt : List Nat
  phased : Bool
  ps : Nat
deriving Repr

def isHom (gt : List Nat) : Bool := gt.all (· == gt.headD 0)

/-- `VariantCallPhase` of a call: phased and heterozygous (`_extract_GT_PS_phase`) -/
def phaseOf (c : Call) : Option (Nat × List Nat) :=
  if c.phased && !isHom c.gt then some (c.ps, c.gt) else none

/-- positions heterozygous in every data set, in position order (`collect_common_variants`, then sorted) -/
def commonPositions (tables : List (List Call)) : List Nat :=
  match tables with
  | [] => []
  | t0 :: rest =>
    (t0.filter fun c => !isHom c.gt && rest.all fun t => t.any fun d => d.pos == c.pos && !isHom d.gt).map (·.pos)

def phasesOf (table : List Call) (common : List Nat) : List (Option (Nat × List Nat)) :=
  common.map fun p => (table.find? (·.pos == p)).bind phaseOf

/-- fixes/F46.patch: in diploid mode the phase of a call with an allele index ≥ 2 is not assessed (the diploid formulas
derive everything from the first haplotype, which determines the second only for alleles 0/1) -/
def phasesOfP (fix46 : Bool) (ploidy : Nat) (table : List Call) (common : List Nat) : List (Option (Nat × List Nat)) :=
  common.map fun p => (table.find? (·.pos == p)).bind fun c =>
    if fix46 && ploidy == 2 && c.gt.any (fun a => decide (1 < a)) then none else phaseOf c

def addToBlocks (key : List Nat) (vi : Nat) : List (List Nat × List Nat) → List (List Nat × List Nat)
  | [] => [(key, [vi])]
  | (k, l) :: rest => if k = key then (k, l ++ [vi]) :: rest else (k, l) :: addToBlocks key vi rest

/-- `block_intersection` as an association list in first-insertion order -/
def jointBlocks (phases : List (List (Option (Nat × List Nat)))) (nCommon : Nat) : List (List Nat × List Nat) :=
  (List.range nCommon).foldl (fun acc vi =>
    match phases.mapM (fun ph => (ph.getD vi none).map (·.1)) with
    | some key => addToBlocks key vi acc
    | none => acc) []

def hapOf (ph : List (Option (Nat × List Nat))) (block : List Nat) (j : Nat) : Hap :=
  block.map fun i => match ph.getD i none with
    | some (_, alleles) => alleles.getD j 0
    | none => 0

def addErrors (a b : PhasingErrors) : PhasingErrors :=
  { switches := a.switches + b.switches, hamming := a.hamming + b.hamming,
    sf := ⟨a.sf.switches + b.sf.switches, a.sf.flips + b.sf.flips⟩,
    diffGenotypes := a.diffGenotypes + b.diffGenotypes, den := b.den }

def bedRecords (a b : Hap) (positions : List Nat) : List (Nat × Nat) :=
  let sw := (switchEncoding a).zip (switchEncoding b)
  let pp := positions.zip positions.tail
  ((sw.zip pp).filter fun x => x.1.1 != x.1.2).map fun x => (x.2.1 + 1, x.2.2 + 1)

structure PairResult where
  intersectionBlocks : Nat
  coveredVariants : Nat
  assessedPairs : Nat
  total : PhasingErrors
  largestLen : Nat
  largest : PhasingErrors
  bed : List (Nat × Nat)
  longestPositions : List Nat
  longestAgreement : List Nat
  /-- every non-singleton intersection block: (positions, errors, agreement vector it would get) — the harness
  accepts any block of maximal length as "the longest" (the code takes the first) -/
  perBlock : List (List Nat × PhasingErrors × List Nat)
deriving Repr

structure PairState where
  longest : Nat := 0
  longestErr : PhasingErrors := ⟨0, 0, ⟨0, 0⟩, 0, 1⟩
  longestPos : List Nat := []
  longestAgr : List Nat := []
  pairs : Nat := 0
  bed : List (Nat × Nat) := []
  total : PhasingErrors := ⟨0, 0, ⟨0, 0⟩, 0, 1⟩
  perBlock : List (List Nat × PhasingErrors × List Nat) := []

/-- the loop of `compare_pair` over `block_intersection.values()`; `none` = an exception -/
def pairLoop (fixA fixB fix3 fix45 : Bool) (ploidy : Nat) (ph0 ph1 : List (Option (Nat × List Nat))) (common : List Nat) :
    List (List Nat × List Nat) → PairState → Option PairState
  | [], st => some st
  | (_, block) :: rest, st =>
    if block.length < 2 then pairLoop fixA fixB fix3 fix45 ploidy ph0 ph1 common rest st else
    let p0 := (List.range ploidy).map (hapOf ph0 block)
    let p1 := (List.range ploidy).map (hapOf ph1 block)
    let positions := block.map (fun i => common.getD i 0)
    match compareBlock fixA fixB p0 p1 with
    | none => none
    | some e =>
      let bed := if ploidy = 2 then st.bed ++ bedRecords (p0.headD []) (p1.headD []) positions else st.bed
      let agrAny := if ploidy = 2 then ((agreementOf fix3 fix45 p0 p1).getD []) else []
      let st1 : PairState := { st with bed := bed, total := addErrors st.total e, pairs := st.pairs + (block.length - 1),
                                       perBlock := st.perBlock ++ [(positions, e, agrAny)] }
      if st.longest < block.length then
        if ploidy = 2 then
          match (agreementOf fix3 fix45 p0 p1) with
          | none => none
          | some agr =>
            pairLoop fixA fixB fix3 fix45 ploidy ph0 ph1 common rest
              { st1 with longest := block.length, longestErr := e, longestPos := positions, longestAgr := agr }
        else
          pairLoop fixA fixB fix3 fix45 ploidy ph0 ph1 common rest
            { st1 with longest := block.length, longestErr := e, longestPos := positions }
      else pairLoop fixA fixB fix3 fix45 ploidy ph0 ph1 common rest st1

/-- `compare([t0, t1], …)` with `ploidy`: everything `--tsv-pairwise`, `--switch-error-bed` and
`--longest-block-tsv` are computed from.  `none` = the command dies with an exception. -/
def comparePair (fixA fixB fix3 fix45 fix46 : Bool) (ploidy : Nat) (t0 t1 : List Call) : Option PairResult :=
  let common := commonPositions [t0, t1]
  let ph0 := phasesOfP fix46 ploidy t0 common
  let ph1 := phasesOfP fix46 ploidy t1 common
  let blocks := jointBlocks [ph0, ph1] common.length
  let big := blocks.filter (fun b => decide (2 ≤ b.2.length))
  match pairLoop fixA fixB fix3 fix45 ploidy ph0 ph1 common blocks {} with
  | none => none
  | some st =>
    some { intersectionBlocks := big.length
           coveredVariants := (big.map (·.2.length)).sum
           assessedPairs := st.pairs
           total := st.total
           largestLen := st.longest
           largest := st.longestErr
           bed := st.bed
           longestPositions := st.longestPos
           longestAgreement := st.longestAgr
           perBlock := st.perBlock }

def hapLe : Hap → Hap → Bool
  | [], _ => true
  | _ :: _, [] => false
  | a :: s, b :: t => if a < b then true else if b < a then false else hapLe s t

def insertKey (k : Hap) (c : Nat) : List (Hap × Nat) → List (Hap × Nat)
  | [] => [(k, c)]
  | (k', c') :: t =>
    if k = k' then (k', c' + c) :: t
    else if hapLe k k' then (k, c) :: (k', c') :: t
    else (k', c') :: insertKey k c t

/-- the keys `min(s, complement(s))` of one block, one per adjacent pair of variants -/
def multiwayKeys (encs : List Hap) (m : Nat) : List Hap :=
  (List.range m).map fun i =>
    let s := encs.map (fun e => e.getD i 0)
    let c := (complement s).getD s
    if hapLe s c then s else c

/-- `compare_multiway`: (total compared pairs, histogram sorted by key); `none` = the `assert` on the first
(smallest) bipartition fails because it is not the all-agree one (finding FC11c; `fixC` = assert removed) -/
def compareMultiway (fixC fix46 : Bool) (tables : List (List Call)) : Option (Nat × List (Hap × Nat)) :=
  let common := commonPositions tables
  let phases := tables.map (phasesOfP fix46 2 · common)
  let blocks := (jointBlocks phases common.length).filter (fun b => decide (2 ≤ b.2.length))
  let total := (blocks.map (fun b => b.2.length - 1)).sum
  let keys := blocks.flatMap fun b =>
    multiwayKeys (phases.map fun ph => switchEncoding (hapOf ph b.2 0)) (b.2.length - 1)
  let hist := keys.foldl (fun acc k => insertKey k 1 acc) []
  match hist with
  | [] => some (total, [])
  | (k, _) :: _ => if fixC || k.all (· == 0) then some (total, hist) else none

end WhVerif.C11

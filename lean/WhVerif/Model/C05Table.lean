import WhVerif.Model.C05
/-!
# C05 model: from the family's genotype table to the solver's constraint table (trusted genotypes)

Core Lean only.  `whatshap/cli/phase.py:run_whatshap`, per family and chromosome:

* `find_phaseable_variants` keeps the variant indices `keep` (`Model/C05.lean:findPhaseableVariants`);
* `phasable_variant_table.subset_rows_by_position(accessible_positions)` keeps, in table order, the rows whose position is
  an accessible position; `assert len(phasable_variant_table.variants) == len(accessible_positions)`;
* `create_pedigree`: `pedigree.add_individual(sample, phasable_variant_table.genotypes_of(sample), None)` — column `c` of
  the solver is the `c`-th kept row; the solver's column positions are `accessible_positions`;
* `PedigreeColumnCostComputer` (trusted): an allele assignment is admissible iff every member's allele pair equals its
  genotype, i.e. iff the number of ALT alleles equals the genotype's (diploid, biallelic: `Genotype` is a multiset).
-/
namespace WhVerif.C05

/-- the solver's constraint row of a trusted genotype: cost 0 for its own number of ALT alleles, incompatible otherwise;
a genotype that is not diploid biallelic (never reaches the solver: `assert gt.is_diploid_and_biallelic()` only in
likelihood mode, but such rows are removed as missing) admits nothing -/
def trustedRow (g : Gt) : List (Option Nat) :=
  (List.range 3).map (fun k => if g.length = 2 ∧ g.all (· ≤ 1) ∧ k = g.sum then some 0 else none)

/-- `subset_rows_by_position` on the retained variant indices `keep` (table order), `varPos[i]` = position of variant `i`;
`none` = the assertion after it fails -/
def subsetRows (varPos : List Nat) (keep : List Nat) (acc : List Nat) : Option (List Nat) :=
  let rows := keep.filter (fun i => acc.contains (varPos.getD i 0))
  if rows.length = acc.length then some rows else none

/-- per family member the genotype vectors handed to `Pedigree.add_individual` -/
def famGenotypes (tab : GtTable) (rows : List Nat) : List (List Gt) :=
  tab.map (fun gs => rows.map (fun i => gs.getD i []))

/-- the constraint table `geno[member][column][#ALT]` of the solver instance -/
def buildGeno (tab : GtTable) (rows : List Nat) : List (List (List (Option Nat))) :=
  (famGenotypes tab rows).map (·.map trustedRow)

/-- the whole stage: phasable variants, row subset, constraint table; `none` = AssertionError -/
def constraintTable (tab : GtTable) (trios : List (Nat × Nat × Nat)) (includeHom : Bool) (varPos acc : List Nat) :
    Option (List Nat × List (List (List (Option Nat)))) :=
  (subsetRows varPos (findPhaseableVariants tab trios includeHom).2 acc).map (fun rows => (rows, buildGeno tab rows))

end WhVerif.C05

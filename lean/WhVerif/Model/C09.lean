import WhVerif.Model.C04
/-!
# C09 model: decoding of phase information (`whatshap/vcf.py:VcfReader`) and pseudo reads

* `extractHP` = `_extract_HP_phase`, `extractGTPS` = `_extract_GT_PS_phase` (on the record model of
  `Model/C04.lean`; the HP text codec `"b-h,b-h"` is done by the harness, a value that does not parse is
  `Val.raw` and makes the code raise).
* `callPhases` = the loop over the two extractors for one call; `readChrom` = `_process_single_chromosome`
  restricted to phase information: record skipping (no ALT, multi-ALT, `--only-snvs`, duplicate position,
  unsorted input) and the `phase_detected` state that raises `MixedPhasingError`.
* `blocksAsReads` = `VariantTable.phased_blocks_as_reads`.
The encoders (`setPS`, `setHP`) and `_remove_existing_phasing` are in `Model/C04.lean`.
-/
namespace WhVerif.C09
open WhVerif.C04

structure Phase where
  /-- `block_id`; `none`: the record has a PS key whose value is missing for this call -/
  block : Option Int
  alleles : Gt
deriving DecidableEq, Repr

inductive Err where
  | hpFormat        -- HP value that does not parse / asserts / index errors in `_extract_HP_phase`
  | mixed           -- MixedPhasingError
  | notSorted       -- VcfNotSortedError
  | ploidy          -- PloidyError (only raised by the ploidy-aware reader of Model/C09File.lean)
deriving DecidableEq, Repr

def idxOf1 (order : List Nat) (h : Nat) : Option Nat :=
  let i := order.findIdx (· == h)
  if i < order.length then some i else none

/-- `_extract_HP_phase`: `order = [h - 1 for (b, h) in fields]`, `phase = GT[order.index(i)] for i in range(n)` -/
def extractHP (c : Call) : Except Err (Option Phase) :=
  match c.get "HP" with
  | .missing => .ok none
  | .hp ((b, h) :: rest) =>
    let l := (b, h) :: rest
    if !(l.all (·.1 == b)) then .error .hpFormat
    else match c.gt with
      | none => .error .hpFormat
      | some g =>
        let order := l.map (·.2)
        match (List.range l.length).mapM (fun i => (idxOf1 order (i + 1)).bind fun j => g[j]?) with
        | some ph => .ok (some ⟨some (Int.ofNat b), ph⟩)
        | none => .error .hpFormat
  | _ => .error .hpFormat

/-- `_extract_GT_PS_phase`; `call.get("PS", 0)` is 0 when the record has no PS key, the (possibly missing)
    value otherwise -/
def extractGTPS (fmt : List String) (c : Call) : Option Phase :=
  if !c.phased then none else
  match c.gt with
  | some (a :: r) =>
    if r.all (· == a) then none
    else some ⟨if "PS" ∈ fmt then (match c.get "PS" with | .int n => some n | _ => none) else some 0, a :: r⟩
  | _ => none

/-- both extractors on one call, HP first -/
def callPhases (fmt : List String) (c : Call) : Except Err (Option Phase × Option Phase) :=
  match extractHP c with
  | .ok hp => .ok (hp, extractGTPS fmt c)
  | .error e => .error e

inductive Enc where
  | HP
  | GTPS
deriving DecidableEq, Repr

/-- the `phase_detected` bookkeeping for one extraction result -/
def detect (st : Option Enc) (name : Enc) (p : Option Phase) : Except Err (Option Enc) :=
  match p with
  | none => .ok st
  | some _ =>
    match st with
    | none => .ok (some name)
    | some d => if d = name then .ok st else .error .mixed

/-- one call inside the reader: new `phase_detected`, and the phase stored in the table (the later
    extractor wins when both fire — but then the encodings are mixed and the code raises) -/
def readCall (st : Option Enc) (fmt : List String) (c : Call) : Except Err (Option Enc × Option Phase) := do
  let (hp, gp) ← callPhases fmt c
  let st1 ← detect st .HP hp
  let st2 ← detect st1 .GTPS gp
  pure (st2, match gp with | some p => some p | none => hp)

def readCalls (st : Option Enc) (fmt : List String) : List (String × Call) → Except Err (Option Enc × List (Option Phase))
  | [] => .ok (st, [])
  | (_, c) :: r => do
    let (st1, p) ← readCall st fmt c
    let (st2, ps) ← readCalls st1 fmt r
    pure (st2, p :: ps)

structure Row where
  pos : Nat
  ref : String
  alt : String
  /-- per sample (header order): genotype code and phase -/
  calls : List (List Nat × Option Phase)
deriving DecidableEq, Repr

/-- `_process_single_chromosome` (phases=True, mav=False) -/
def readChrom (onlySnvs : Bool) : Option Enc → Option Nat → List Record → Except Err (Option Enc × List Row)
  | st, _, [] => .ok (st, [])
  | st, prev, r :: rs =>
    if r.alts.isEmpty || decide (r.alts.length > 1) then readChrom onlySnvs st prev rs
    else if onlySnvs && !(r.ref.length == 1 && r.alts.all (·.length == 1)) then readChrom onlySnvs st prev rs
    else if (match prev with | some p => decide (p > r.pos) | none => false) then .error .notSorted
    else if prev == some r.pos then readChrom onlySnvs st prev rs
    else do
      let (st1, ps) ← readCalls st r.format r.calls
      let (st2, rows) ← readChrom onlySnvs st1 (some r.pos) rs
      pure (st2, ⟨r.pos, r.ref, r.alts.headD "", (r.calls.map (fun nc => gcode nc.2.gt)).zip ps⟩ :: rows)

/-! ### `phased_blocks_as_reads` for one sample -/

structure VarPhase where
  pos : Nat
  /-- the variant is one of `input_variants` -/
  wanted : Bool
  gcode : List Nat
  phase : Option Phase
deriving DecidableEq, Repr

/-- the rows that contribute to pseudo reads: diploid, wanted, heterozygous, phased with a first allele -/
def eligible (target_ploidy : Nat) (v : VarPhase) : Bool :=
  v.gcode.length == target_ploidy && v.wanted && !isHom v.gcode &&
    (match v.phase with
     | some ph => (match ph.alleles with | some _ :: _ => true | _ => false)
     | none => false)

def blockOfRow (v : VarPhase) : Option Int := v.phase.bind (·.block)

def blockKeys (rows : List VarPhase) : List (Option Int) := (rows.map blockOfRow).eraseDups

/-- read number `i` of block `b`: every eligible row of the block contributes `(position, phase[i])` -/
def pseudoRead (rows : List VarPhase) (b : Option Int) (i : Nat) : List (Nat × Option Nat) :=
  (rows.filter (fun v => blockOfRow v == b)).map fun v =>
    (v.pos, (v.phase.bind fun ph => ph.alleles[i]?).join)

/-- `(block, haplotype index, variants)` for every read with at least two variants -/
def blocksAsReads (target_ploidy : Nat) (rows : List VarPhase) : List (Option Int × Nat × List (Nat × Option Nat)) :=
  let el := rows.filter (eligible target_ploidy)
  (blockKeys el).flatMap fun b =>
    (List.range target_ploidy).filterMap fun i =>
      let rd := pseudoRead el b i
      if rd.length > 1 then some (b, i, rd) else none

end WhVerif.C09

import WhVerif.Model.C19
/-!
# C19 — several `Genotype` objects alive at once (`whatshap/core.pyx:Genotype`)

A Python `Genotype` object owns one C++ `Genotype` (`thisptr`).  The class is NOT immutable: `__setstate__` replaces
the wrapped C++ object in place.  So "state save/restore agrees with the index" is a statement about a *heap* of
objects: a restore changes the object it is called on, and nothing else.  This file models, as coded,

* `Genotype(alleles)`                 – `__cinit__`: `thisptr = new cpp.Genotype(alleles)`: a NEW cell;
* `copy.deepcopy(g)`                  – `__deepcopy__`: `Genotype.__new__(Genotype, self.as_vector())`: a NEW cell built by the
                                        vector constructor from `as_vector()` (the descending vector, sorted again);
* `copy.deepcopy(container)`          – the standard library walks the container and calls `__deepcopy__` once per distinct
                                        object (its `memo`), so every distinct object gets ONE new cell;
* `g.__setstate__((index, ploidy))`   – `convert_index_to_alleles`, `del thisptr`, `thisptr = new cpp.Genotype(alleles)`:
                                        cell `g` is overwritten (if the constructor throws the object is left dangling, F20:
                                        the run ends there);
* `g.__setstate__(h.__getstate__())`.

Cell numbers are allocation order.
-/
namespace WhVerif.C19

/-- cell k = the C++ genotype that Python object number k wraps -/
abbrev Heap := List Genotype

/-- `Genotype(alleles)` -/
def Heap.alloc (h : Heap) (alleles : List Nat) : Except Err Heap :=
  match Genotype.ofAlleles alleles with
  | .ok g => .ok (h ++ [g])
  | .error e => .error e

/-- `Genotype.__deepcopy__`: `Genotype.__new__(Genotype, self.as_vector())` (an unknown handle: nothing happens) -/
def Heap.deepcopy (h : Heap) (src : Nat) : Except Err Heap :=
  match h[src]? with
  | none => .ok h
  | some g => h.alloc g.asVector

/-- `Genotype.__setstate__((index, ploidy))` on object `dst` -/
def Heap.restore (h : Heap) (dst : Nat) (state : Nat × Nat) : Except Err Heap :=
  match Genotype.setState state with
  | .ok g => .ok (h.set dst g)
  | .error e => .error e

/-- `dst.__setstate__(src.__getstate__())` -/
def Heap.restoreFrom (h : Heap) (dst src : Nat) : Except Err Heap :=
  match h[src]? with
  | none => .ok h
  | some g => h.restore dst g.getState

/-- `copy.deepcopy` of a container (list / tuple / dict / VariantTable …) holding the objects `srcs`: one `__deepcopy__`
per distinct object, in order of first occurrence (`memo`); returns the heap and the cells of the copied container -/
def Heap.deepcopyMany (h : Heap) : (srcs : List Nat) → (memo : List (Nat × Nat)) → (out : List Nat) → Except Err (Heap × List Nat)
  | [], _, out => .ok (h, out.reverse)
  | s :: rest, memo, out =>
    match memo.lookup s with
    | some c => Heap.deepcopyMany h rest memo (c :: out)
    | none =>
      match h.deepcopy s with
      | .ok h' => Heap.deepcopyMany h' rest ((s, h.length) :: memo) (h.length :: out)
      | .error e => .error e

/-- one step of a history; encoded for the driver as a list of naturals:
`[0, a…]` alloc, `[1, src]` deepcopy, `[2, dst, index, ploidy]` restore, `[3, dst, src]` restoreFrom, `[4, s…]` deepcopy of a container -/
def Heap.step (h : Heap) : List Nat → Except Err Heap
  | 0 :: alleles => h.alloc alleles
  | [1, src] => h.deepcopy src
  | [2, dst, index, ploidy] => h.restore dst (index, ploidy)
  | [3, dst, src] => h.restoreFrom dst src
  | 4 :: srcs => (Heap.deepcopyMany h srcs [] []).map (·.1)
  | _ => .ok h

/-- what Python can see of a cell: `as_vector()`, `get_index()`, `get_ploidy()` (and with them `__getstate__`) -/
def Genotype.observe (g : Genotype) : List Nat × Nat × Nat := (g.asVector, g.getIndex, g.getPloidy)

/-- run a history; the observables of ALL cells after every step (the first failing step ends it) -/
def Heap.run (h : Heap) : List (List Nat) → List (Except Err (List (List Nat × Nat × Nat)))
  | [] => []
  | op :: rest =>
    match h.step op with
    | .ok h' => .ok (h'.map Genotype.observe) :: Heap.run h' rest
    | .error e => [.error e]

end WhVerif.C19

-- Root of the `WhVerif` library: models, specs, lemmas, property theorems, drivers.
import WhVerif.Driver.All

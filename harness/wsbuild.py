"""Rebuild whatshap from /repo's *current working tree* into an overlay outside /repo and /verif.

ensure() returns the overlay directory to put on PYTHONPATH.  Extension modules are cached per
extension by a content hash of everything that can influence them, so that a change to one .pyx
rebuilds only that extension; the pure-Python files are copied fresh on every run.
Nothing here is needed to exist beforehand: everything under CACHE is rebuilt when missing.
"""
import fcntl, hashlib, os, shutil, subprocess, sys, time, glob

REPO = os.environ.get("WHATSHAP_REPO", "/repo")
CACHE = os.environ.get("WHVERIF_CACHE", "/var/tmp/whatshap-verif")
PY = "/venv/bin/python"

EXTS = {
    # name -> (so path relative to repo without suffix, source globs)
    "core": ("whatshap/core", ["whatshap/core.pyx", "src/*.cpp", "src/hapchat/*.cpp"]),
    "solver": ("whatshap/polyphase/solver", ["whatshap/polyphase/solver.pyx", "src/polyphase/*.cpp"]),
    "readselect": ("whatshap/readselect", ["whatshap/readselect.pyx"]),
    "priorityqueue": ("whatshap/priorityqueue", ["whatshap/priorityqueue.pyx"]),
    "align": ("whatshap/align", ["whatshap/align.pyx"]),
    "_variants": ("whatshap/_variants", ["whatshap/_variants.pyx"]),
}
COMMON = ["setup.py", "pyproject.toml", "whatshap/*.pxd", "whatshap/polyphase/*.pxd",
          "src/*.h", "src/hapchat/*.h", "src/polyphase/*.h"]
SOSUF = ".cpython-312-x86_64-linux-gnu.so"


class BuildError(Exception):
    pass


def _hash_files(paths):
    h = hashlib.sha256()
    for p in sorted(set(paths)):
        h.update(p.encode() + b"\0")
        with open(os.path.join(REPO, p), "rb") as f:
            h.update(hashlib.sha256(f.read()).digest())
    return h.hexdigest()[:20]


def _glob(pats):
    out = []
    for pat in pats:
        out += [os.path.relpath(p, REPO) for p in glob.glob(os.path.join(REPO, pat))]
    return out


def ext_hashes():
    common = _glob(COMMON)
    return {name: _hash_files(common + _glob(srcs)) for name, (_, srcs) in EXTS.items()}


def py_hash():
    files = [os.path.relpath(p, REPO) for p in glob.glob(os.path.join(REPO, "whatshap/**/*.py"), recursive=True)]
    return _hash_files(files)


def ensure(verbose=True):
    os.makedirs(os.path.join(CACHE, "so"), exist_ok=True)
    lock = open(os.path.join(CACHE, "lock"), "w")
    fcntl.flock(lock, fcntl.LOCK_EX)
    try:
        hs = ext_hashes()
        cached = {n: os.path.join(CACHE, "so", f"{n}-{h}.so") for n, h in hs.items()}
        missing = [n for n, p in cached.items() if not os.path.exists(p)]
        for n, p in cached.items():
            if n not in missing:
                os.utime(p)          # least-recently-USED pruning below
        if missing:
            t0 = time.time()
            tree = os.path.join(CACHE, "tree")
            os.makedirs(tree, exist_ok=True)
            r = subprocess.run(["rsync", "-a", "--checksum", "--delete", "--exclude", ".git", "--exclude", "build/",
                                "--exclude", "*.so", "--exclude", "whatshap/*.cpp", "--exclude", "whatshap/polyphase/*.cpp",
                                "--exclude", "__pycache__", "--exclude", "tests/", "--exclude", "doc/",
                                REPO + "/", tree + "/"], capture_output=True, text=True)
            if r.returncode != 0:
                raise BuildError("rsync failed: " + r.stderr[-2000:])
            for n in missing:
                base = os.path.join(tree, EXTS[n][0])
                for p in (base + SOSUF, base + ".cpp"):
                    if os.path.exists(p):
                        os.remove(p)
            # never reuse object files: they may stem from a different source tree (WHATSHAP_REPO) or predate
            # an edit whose mtime is older than the object (rsync preserves mtimes)
            shutil.rmtree(os.path.join(tree, "build"), ignore_errors=True)
            env = dict(os.environ, SETUPTOOLS_SCM_PRETEND_VERSION="0.0.verif")
            env.pop("PYTHONPATH", None)
            r = subprocess.run([PY, "setup.py", "build_ext", "--inplace", "-j", "16"], cwd=tree, env=env,
                               capture_output=True, text=True)
            if r.returncode != 0:
                raise BuildError("build_ext failed:\n" + (r.stdout + r.stderr)[-4000:])
            for n in missing:
                so = os.path.join(tree, EXTS[n][0] + SOSUF)
                if not os.path.exists(so):
                    raise BuildError("extension not produced: " + so)
                tmp = cached[n] + ".tmp%d" % os.getpid()
                shutil.copy2(so, tmp)
                os.replace(tmp, cached[n])
            if verbose:
                print(f"[wsbuild] rebuilt {missing} in {time.time()-t0:.0f}s", file=sys.stderr)
            # prune cached .so files (keep the 10 most recently used per extension)
            for n in EXTS:
                olds = sorted(glob.glob(os.path.join(CACHE, "so", f"{n}-*.so")), key=os.path.getmtime, reverse=True)
                for p in olds[10:]:
                    if p != cached[n]:
                        os.remove(p)
        tag = hashlib.sha256(("".join(sorted(hs.values())) + py_hash()).encode()).hexdigest()[:16]
        ov = os.path.join(CACHE, "overlay-" + tag)
        if not os.path.exists(os.path.join(ov, ".complete")):
            if os.path.exists(ov):
                shutil.rmtree(ov)
            os.makedirs(ov)
            for p in glob.glob(os.path.join(REPO, "whatshap/**/*.py"), recursive=True):
                rel = os.path.relpath(p, REPO)
                os.makedirs(os.path.dirname(os.path.join(ov, rel)), exist_ok=True)
                shutil.copy2(p, os.path.join(ov, rel))
            vf = os.path.join(ov, "whatshap/_version.py")
            if not os.path.exists(vf):
                open(vf, "w").write("__version__ = version = '0.0.verif'\n")
            for n, (rel, _) in EXTS.items():
                os.link(cached[n], os.path.join(ov, rel + SOSUF))
            open(os.path.join(ov, ".complete"), "w").write(tag)
        os.utime(ov)
        # prune overlays not used for 3 hours (several checks may run concurrently on different source
        # trees via WHATSHAP_REPO: never remove an overlay another process may still be running from)
        now = time.time()
        for p in glob.glob(os.path.join(CACHE, "overlay-*")):
            if p != ov and now - os.path.getmtime(p) > 3 * 3600:
                shutil.rmtree(p, ignore_errors=True)
        return ov
    finally:
        fcntl.flock(lock, fcntl.LOCK_UN)
        lock.close()


if __name__ == "__main__":
    try:
        print(ensure())
    except BuildError as e:
        print("BUILD ERROR", e, file=sys.stderr)
        sys.exit(2)

"""Generator / plain-text reader+writer of VCFs with arbitrary call shapes (C13, reused by C12).

A *case* is a JSON-serialisable dict
  {"contigs": {name: length}, "samples": [...], "phasing_header": bool,
   "records": [{"fixed": [CHROM, POS(1-based str), ID, REF, ALT, QUAL, FILTER, INFO],
                "format": [keys] | None, "calls": [[raw value strings, trailing ones may be dropped]]}]}
so that replay never depends on the PRNG.  The text written is exactly what the case says.
"""
import os

FORMAT_DEFS = {
    "GT": '##FORMAT=<ID=GT,Number=1,Type=String,Description="Genotype">',
    "DP": '##FORMAT=<ID=DP,Number=1,Type=Integer,Description="Read depth">',
    "GQ": '##FORMAT=<ID=GQ,Number=1,Type=Integer,Description="Genotype quality">',
    "AD": '##FORMAT=<ID=AD,Number=R,Type=Integer,Description="Allele depths">',
    "FT": '##FORMAT=<ID=FT,Number=1,Type=String,Description="Sample filter">',
    "PS": '##FORMAT=<ID=PS,Number=1,Type=Integer,Description="Phase set identifier">',
    "PQ": '##FORMAT=<ID=PQ,Number=1,Type=Integer,Description="Phasing quality">',
    "HP": '##FORMAT=<ID=HP,Number=.,Type=String,Description="Phasing haplotype identifier">',
}
INFO_DEFS = [
    '##INFO=<ID=DP,Number=1,Type=Integer,Description="Total depth">',
    '##INFO=<ID=AF,Number=A,Type=Float,Description="Allele frequency">',
    '##INFO=<ID=DB,Number=0,Type=Flag,Description="dbSNP membership">',
    '##INFO=<ID=END,Number=1,Type=Integer,Description="End position of the variant">',
    '##ALT=<ID=DEL,Description="Deletion">',
]
PHASE_TAGS = ("HP", "PQ", "PS")
BASES = "ACGT"


def default_header(case):
    out = ["##fileformat=VCFv4.2", '##FILTER=<ID=PASS,Description="All filters passed">',
           '##FILTER=<ID=q10,Description="Quality below 10">']
    for n, ln in case["contigs"].items():
        out.append(f"##contig=<ID={n},length={ln}>")
    if case.get("phasing_header"):
        out.append("##phasing=partial")
    if case.get("phasing_header") == 2:
        out.append("##phasing=none")          # a second line with the same key (F61)
    out += list(FORMAT_DEFS.values()) + INFO_DEFS
    return out


def header_model_lines(text):
    """the `##` lines of a VCF text as pysam's header.records shows them to unphase_header: key, ID of a structured line;
    htslib drops a generic `##key=value` line that repeats an earlier one verbatim"""
    out, seen = [], set()
    for line in text.split("\n"):
        if not line.startswith("##"):
            continue
        key, _, value = line[2:].partition("=")
        if not value.startswith("<"):
            if line in seen:
                continue
            seen.add(line)
        hid = None
        if value.startswith("<"):
            for part in value[1:].split(","):
                if part.startswith("ID="):
                    hid = part[3:].rstrip(">")
                    break
        out.append({"key": key, "id": hid, "text": line})
    return out


def vcf_text(case):
    out = list(case["header_lines"]) if case.get("header_lines") else default_header(case)
    cols = ["#CHROM", "POS", "ID", "REF", "ALT", "QUAL", "FILTER", "INFO"]
    if case["samples"]:
        cols += ["FORMAT"] + case["samples"]
    out.append("\t".join(cols))
    for r in case["records"]:
        line = list(r["fixed"])
        if case["samples"] and r["format"] is not None:
            # a FORMAT column without any key is spelled "." (htslib's own spelling after every key was deleted)
            line.append(":".join(r["format"]) or ".")
            line += [":".join(c) or "." for c in r["calls"]]
        out.append("\t".join(line))
    return "\n".join(out) + "\n"


def parse_vcf_text(text):
    """independent plain-text parser: (header lines, samples, records) with records as
    {"fixed": 8 columns, "format": keys|None, "calls": [values padded with '.' to len(format)]}"""
    hdr, samples, recs = [], [], []
    for line in text.split("\n"):
        if not line:
            continue
        if line.startswith("##"):
            hdr.append(line)
        elif line.startswith("#"):
            samples = line.split("\t")[9:]
        else:
            cols = line.split("\t")
            fmt = cols[8].split(":") if len(cols) > 8 else None
            if fmt == ["."]:
                fmt = []            # htslib's spelling of a FORMAT column from which every key was deleted
            calls = []
            for s in cols[9:]:
                v = s.split(":") if fmt else []
                v = v + ["."] * (len(fmt) - len(v))
                calls.append(v)
            recs.append({"fixed": cols[:8], "format": fmt, "calls": calls})
    return hdr, samples, recs


def parse_gt(s):
    """GT string -> (alleles with None for '.', phased = some separator is '|')"""
    toks = s.replace("|", "/").split("/")
    return [None if t == "." else int(t) for t in toks], "|" in s


def model_records(recs):
    """records of parse_vcf_text -> JSON for the Lean driver (c13.unphase)"""
    out = []
    for r in recs:
        calls = []
        fmt = r["format"] or []
        for vals in r["calls"]:
            gt = None
            f = []
            for k, v in zip(fmt, vals):
                if k == "GT":
                    a, p = parse_gt(v)
                    gt = {"a": a, "p": p}
                else:
                    f.append([k, v])
            calls.append({"gt": gt, "f": f})
        out.append({"fixed": r["fixed"], "calls": calls})
    return out


# ------------------------------------------------------------------------------------------------
# generation
# ------------------------------------------------------------------------------------------------

def gen_gt(rng, n_alt, exotic, ploidy=None, p_phased=0.5, p_missing=0.15):
    if ploidy is None:
        ploidy = rng.choice([2, 2, 2, 2, 2, 3, 4] + ([1, 1, 1, 3, 4, 5] if exotic else []))
    r = rng.random()
    if r < 0.06:
        alleles = [None] * ploidy
    else:
        alleles = [None if rng.random() < p_missing else rng.randrange(0, n_alt + 1) for _ in range(ploidy)]
    if not exotic:
        # only shapes HEAD's loop accepts: haploid must be '.', and no missing allele behind two present ones
        if ploidy == 1:
            alleles = [None]
        elif alleles[0] is not None and alleles[1] is not None and None in alleles[2:]:
            alleles = [a if a is not None else 0 for a in alleles]
    phased = rng.random() < p_phased
    seps = ["|" if phased else "/"] * (ploidy - 1)
    if ploidy >= 3 and rng.random() < 0.1:
        seps = [rng.choice("|/") for _ in seps]
    s = "." if alleles[0] is None else str(alleles[0])
    for sep, a in zip(seps, alleles[1:]):
        s += sep + ("." if a is None else str(a))
    return s, ploidy


def gen_value(rng, key, n_alt, ploidy, pos):
    if rng.random() < 0.2:
        return "."
    if key == "DP":
        return str(rng.randrange(0, 80))
    if key == "GQ":
        return str(rng.randrange(0, 100))
    if key == "AD":
        return ",".join(str(rng.randrange(0, 40)) for _ in range(n_alt + 1))
    if key == "FT":
        return rng.choice(["PASS", "q10"])
    if key == "PS":
        return str(max(1, pos - rng.choice([0, 0, 10, 50])))
    if key == "PQ":
        return str(rng.randrange(0, 60))
    if key == "HP":
        ps = max(1, pos - rng.choice([0, 10]))
        order = list(range(1, ploidy + 1))
        rng.shuffle(order)
        return ",".join(f"{ps}-{h}" for h in order)
    raise KeyError(key)


def gen_alleles(rng, exotic):
    kind = rng.choice(["snv"] * 5 + ["ins", "del", "multi", "mnp"] + (["sym"] if exotic else []))
    ref = rng.choice(BASES)
    other = [b for b in BASES if b != ref]
    if kind == "snv":
        return ref, [rng.choice(other)]
    if kind == "ins":
        return ref, [ref + "".join(rng.choice(BASES) for _ in range(rng.randrange(1, 4)))]
    if kind == "del":
        return ref + "".join(rng.choice(BASES) for _ in range(rng.randrange(1, 4))), [ref]
    if kind == "mnp":
        return ref + "A", [rng.choice(other) + "C"]
    if kind == "sym":
        return ref, ["<DEL>"]
    rng.shuffle(other)
    return ref, other[:rng.choice([2, 2, 3])]


HEADER_PARTS = ("phasing", "PS", "HP", "PQ")


def gen_profile(rng):
    """what the records of a file use, drawn independently of what its header declares:
    `tags` = the phase tags that may occur in FORMAT (all three / none / a random subset), `gt` = how genotypes are written
    (mixed separators / every genotype phased with `|` as population phasers write them / nothing phased, alleles in any order)"""
    tags = rng.choice([list(PHASE_TAGS)] * 3 + [[]] * 3 + [[t for t in PHASE_TAGS if rng.random() < 0.5] for _ in range(2)])
    return {"tags": tags, "gt": rng.choice(["mixed", "mixed", "mixed", "phased", "phased", "unphased", "unphased"])}


def gen_subset(rng):
    """a subset of {##phasing line, PS definition, HP definition, PQ definition}: every subset has positive probability, the
    empty one (a header that says nothing about phasing) and the full one are over-weighted"""
    x = rng.random()
    if x < 0.3:
        return []
    if x < 0.4:
        return list(HEADER_PARTS)
    return [p for p in HEADER_PARTS if rng.random() < 0.5]


def gen_case(rng, scale=1, exotic=True, max_records=14, profile=None, subset="random"):
    """`profile` (see gen_profile; None = the historical mix: every tag with 35 %, half of the genotypes phased) and `subset`
    (a list out of HEADER_PARTS = exactly these phase-related header lines are present, whatever the records use; None = the
    historical headers, which declare every tag that is used; "random" = one or the other) are independent of each other"""
    if profile is None and rng.random() < 0.6:
        profile = gen_profile(rng)
    if subset == "random":
        subset = gen_subset(rng) if rng.random() < 0.55 else None
    tags_used = list(PHASE_TAGS) if profile is None else profile["tags"]
    p_phased = {"mixed": 0.5, "phased": 0.97, "unphased": 0.0}[profile["gt"] if profile else "mixed"]
    n_contigs = rng.choice([1, 1, 2, 3])
    contigs = {f"chr{i + 1}": rng.randrange(2000, 9000) for i in range(n_contigs)}
    n_samples = rng.choice([1, 1, 2, 2, 3, 4]) if rng.random() > 0.04 else 0
    samples = [f"S{i + 1}" for i in range(n_samples)]
    records = []
    for chrom, ln in contigs.items():
        n = rng.randrange(1, max(2, max_records * scale // n_contigs + 1))
        positions = sorted(rng.randrange(1, ln) for _ in range(n))
        for pos in positions:
            ref, alts = gen_alleles(rng, exotic)
            info = rng.choice([".", ".", "DP=%d" % rng.randrange(1, 99), "AF=0.5" if len(alts) == 1 else "DP=7", "DB", "DP=12;DB"])
            if alts == ["<DEL>"]:
                # htslib itself rewrites INFO of a symbolic allele that has no END (adds END=POS, or fails to write when
                # END is not declared) - that is outside whatshap; symbolic alleles are generated with an explicit END
                info = "END=%d" % (pos + rng.randrange(1, 50))
            fixed = [chrom, str(pos), rng.choice([".", ".", "rs%d" % rng.randrange(1000)]), ref, ",".join(alts),
                     rng.choice([".", "30", "7"]), rng.choice([".", "PASS", "q10"]), info]
            if not samples:
                records.append({"fixed": fixed, "format": None, "calls": []})
                continue
            others = [k for k in ["DP", "GQ", "AD", "FT", "PS", "PQ", "HP"] if rng.random() < 0.35 and (k not in PHASE_TAGS or k in tags_used)]
            rng.shuffle(others)
            no_gt = exotic and rng.random() < 0.07
            if no_gt and not others:
                others = ["DP"]
            fmt = others if no_gt else ["GT"] + others
            calls = []
            for _ in samples:
                vals, ploidy = [], 2
                for k in fmt:
                    if k == "GT":
                        g, ploidy = gen_gt(rng, len(alts), exotic, p_phased=p_phased)
                        vals.append(g)
                    else:
                        vals.append(gen_value(rng, k, len(alts), ploidy, pos))
                if len(vals) > 1 and rng.random() < 0.12:
                    vals = vals[:rng.randrange(1, len(vals))]      # trailing fields dropped (legal VCF)
                calls.append(vals)
            records.append({"fixed": fixed, "format": fmt, "calls": calls})
    x = rng.random()                       # (one draw, as before: C12 reuses this generator)
    phasing, second = x < 0.3, x < 0.15
    if phasing and second:      # F61 (= F76, fixed in /repo 3f23520): several ##phasing lines
        phasing = 2
    case = {"contigs": contigs, "samples": samples, "phasing_header": phasing, "records": records,
            "exotic": exotic, "profile": profile}
    if subset is not None:
        # the header is drawn independently of the records: a used tag may be undeclared (htslib accepts that with a warning
        # and treats the field as a string), an unused one declared; phased genotypes need no header line at all
        case["phase_header"] = sorted(subset)
        case["header_lines"] = gen_header(rng, case, subset=subset, shuffle=exotic)
        if rng.random() < 0.5:
            # the same records under another header: the records of the output must not depend on it
            other = gen_subset(rng)
            if sorted(other) == sorted(subset):
                other = [p for p in HEADER_PARTS if p not in subset]
            case["twin_phase_header"] = sorted(other)
            case["twin_header_lines"] = gen_header(rng, case, subset=other, shuffle=exotic)
    elif exotic and rng.random() < 0.6:
        case["header_lines"] = gen_header(rng, case)
    case["input"] = rng.choice(["path", "path", "stdin", "gz"]) if exotic else "path"
    return case


def gen_header(rng, case, subset=None, shuffle=True):
    """header variants `unphase_header` has to cope with: 0-3 `##phasing` lines anywhere, a `##PHASING` line, INFO fields
    named like the phase tags, definitions of unused phase tags left out, other generic lines.
    With `subset` (a list out of HEADER_PARTS): the definition of PS / HP / PQ is present iff named, `##phasing` lines (1-3)
    iff "phasing" is named — no matter what the records use; `shuffle=False` keeps the conventional order of lines."""
    used = {k for r in case["records"] for k in (r["format"] or [])}
    lines = ["##fileformat=VCFv4.2", '##FILTER=<ID=PASS,Description="All filters passed">',
             '##FILTER=<ID=q10,Description="Quality below 10">']
    for n, ln in case["contigs"].items():
        lines.append(f"##contig=<ID={n},length={ln}>")
    body = []
    for k, d in FORMAT_DEFS.items():
        if subset is not None and k in PHASE_TAGS:
            if k in subset:
                body.append(d)
        elif k in used or k not in PHASE_TAGS or rng.random() < 0.5:
            body.append(d)
    body += INFO_DEFS
    if rng.random() < 0.3:
        body.append('##INFO=<ID=PS,Number=1,Type=Integer,Description="an INFO field that happens to be called PS">')
    if rng.random() < 0.2:
        body.append('##INFO=<ID=HP,Number=1,Type=String,Description="an INFO field that happens to be called HP">')
    if rng.random() < 0.4:
        body.append("##source=generator")
    if rng.random() < 0.3:
        body.append("##reference=file:///ref.fa")
    if rng.random() < 0.2:
        body.append("##PHASING=upper-case-key")
    if shuffle:
        rng.shuffle(body)
    n_phasing = rng.choice([0, 1, 1, 2, 2, 3]) if subset is None else (rng.choice([1, 1, 1, 2, 3]) if "phasing" in subset else 0)
    for i in range(n_phasing):
        body.insert(rng.randrange(len(body) + 1), "##phasing=" + rng.choice(["partial", "none", "whatshap", "partial"]) + ("" if rng.random() < 0.5 else str(i)))
    return lines + body


def edit_case(rng, case):
    """a random *phase-only edit* of a case (what a phasing writer may do, for every ploidy): the alleles of fully present
    genotypes are permuted, separators are set at will, HP / PQ / PS are added, changed or deleted (FORMAT column, values and
    header definitions), `##phasing` lines come and go.  Everything else is copied."""
    import copy
    out = copy.deepcopy(case)
    header = list(case["header_lines"]) if case.get("header_lines") else default_header(case)
    for r in out["records"]:
        fmt = r["format"]
        if fmt is None:
            continue
        pos = int(r["fixed"][1])
        n_alt = len(r["fixed"][4].split(","))
        keep = [k for k in fmt if k not in PHASE_TAGS or rng.random() < 0.6]
        for t in PHASE_TAGS:
            if t not in keep and rng.random() < 0.3:
                lo = 1 if keep[:1] == ["GT"] else 0
                keep.insert(rng.randrange(lo, len(keep) + 1), t)
        calls = []
        for vals in r["calls"]:
            d = dict(zip(fmt, vals + ["."] * (len(fmt) - len(vals))))
            ploidy = 2
            if "GT" in d:
                toks = d["GT"].replace("|", "/").split("/")
                ploidy = len(toks)
                if "." not in toks and rng.random() < 0.8:
                    before = list(toks)
                    for _ in range(5):           # a real change of order whenever the genotype is not homozygous
                        rng.shuffle(toks)
                        if toks != before:
                            break
                mode = rng.choice(["|", "/", "mixed"])
                seps = [rng.choice("|/") if mode == "mixed" else mode for _ in toks[1:]]
                g = toks[0]
                for sp, t in zip(seps, toks[1:]):
                    g += sp + t
                d["GT"] = g
            new = []
            for k in keep:
                if k in PHASE_TAGS and (k not in d or rng.random() < 0.5):
                    new.append(gen_value(rng, k, n_alt, ploidy, pos))
                else:
                    new.append(d[k])
            calls.append(new)
        r["format"], r["calls"] = keep, calls
    used = {k for r in out["records"] for k in (r["format"] or [])}
    header = [l for l in header if not (l.startswith("##phasing=") and rng.random() < 0.5)]
    # definitions of the phase tags come and go as well, used or not (an undeclared key is accepted by htslib)
    loose = rng.random() < 0.4
    if loose:
        header = [l for l in header if not (any(l.startswith(f"##FORMAT=<ID={t},") for t in PHASE_TAGS) and rng.random() < 0.5)]
    for t in PHASE_TAGS:
        if t in used and not any(l.startswith(f"##FORMAT=<ID={t},") for l in header) and not (loose and rng.random() < 0.6):
            header.append(FORMAT_DEFS[t])
    if rng.random() < 0.3:
        header.insert(rng.randrange(1, len(header) + 1), "##phasing=edited")
    out["header_lines"] = header
    return out

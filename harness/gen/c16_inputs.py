"""Inputs for C16: a multi-family diploid scenario (two trios + unrelated samples, several contigs, VCF records
using INFO ids that the header does not define, PED file) built on the PolyScenario container of c15_poly."""
from . import sim, c15_poly

NAMES = [("NA19238", "NA19239", "NA19240"), ("fatherB", "motherB", "kidB"), ("x",), ("Sample_10",)]


def family_scenario(rng, n_contigs=2, n_variants=(4, 8), cov_per_hap=(3, 5), read_len=(70, 220), min_gap=14):
    contigs, variants, haps, reads = {}, {}, {}, []
    samples = [s for fam in NAMES for s in fam]
    rid = 0
    for ci in range(n_contigs):
        name = f"chr{ci + 1}"
        nv = rng.randrange(n_variants[0], n_variants[1] + 1)
        L = 40 + nv * (2 * min_gap + 2) + rng.randrange(10, 60)
        seq = sim.random_seq(rng, L)
        contigs[name] = seq
        vs = c15_poly.make_poly_variants(rng, name, seq, nv, multi_prob=0.0, indel_prob=0.1, min_gap=min_gap)
        variants[name] = vs
        n = len(vs)

        def rand_dip():
            h0 = [rng.randrange(2) for _ in range(n)]
            h1 = [(1 - a) if rng.random() < 0.75 else a for a in h0]
            return [h0, h1]

        def gamete(parent):
            g, cur = [], rng.randrange(2)
            x = rng.randrange(0, n + 1) if rng.random() < 0.3 else None
            for i in range(n):
                if x is not None and i == x:
                    cur = 1 - cur
                g.append(parent[cur][i])
            return g
        for fam in NAMES:
            if len(fam) == 3:
                f, m, c = fam
                haps[f"{f}|{name}"] = rand_dip(); haps[f"{m}|{name}"] = rand_dip()
                haps[f"{c}|{name}"] = [gamete(haps[f"{f}|{name}"]), gamete(haps[f"{m}|{name}"])]
            else:
                haps[f"{fam[0]}|{name}"] = rand_dip()
        for s in samples:
            for h in range(2):
                cov = rng.randrange(cov_per_hap[0], cov_per_hap[1] + 1)
                n_reads = max(2, int(cov * L / ((read_len[0] + read_len[1]) / 2)))
                for _ in range(n_reads):
                    rl = rng.randrange(read_len[0], read_len[1] + 1)
                    st = rng.randrange(0, max(1, L - rl))
                    pr = c15_poly.poly_read(seq, vs, haps[f"{s}|{name}"][h], st, min(L, st + rl))
                    if pr is None:
                        continue
                    start, cigar, q = pr
                    rid += 1
                    reads.append({"name": f"r{rid}", "chrom": name, "start": start, "cigar": [list(c) for c in cigar],
                                  "seq": q, "rg": "rg_" + s, "mapq": 60})
    sc = c15_poly.PolyScenario(contigs, variants, samples, {s: 2 for s in samples}, haps, reads)
    return sc


def ped_text():
    lines = []
    for i, fam in enumerate(NAMES):
        if len(fam) == 3:
            f, m, c = fam
            lines.append(f"fam{i}\t{c}\t{f}\t{m}\t0\t1")
    return "\n".join(lines) + "\n"


def info_fn(sc):
    """INFO column using two ids (AC, AN) that the header does not define"""
    def f(chrom, i):
        col = [a for s in sc.samples for h in sc.haps[f"{s}|{chrom}"] for a in [h[i]]]
        return f"AC={sum(1 for a in col if a == 1)};AN={len(col)}"
    return f


# ------------------------------------------------------------------------------------------------
# round 7: inputs for the option variants (per-sample / per-family / per-chromosome state)
# ------------------------------------------------------------------------------------------------

def trios():
    return [fam for fam in NAMES if len(fam) == 3]


def ped1_text():
    """only the first trio (a run in which the numeric sample ids of the family are 0, 1, 2)"""
    f, m, c = trios()[0]
    return f"fam0\t{c}\t{f}\t{m}\t0\t1\n"


def noisy_vcf(src, dst, seed):
    """the VCF with wrong genotypes: in about half of the records two members of EVERY trio get another genotype, so
    that `phase --distrust-genotypes` changes the genotype of several family members in one record"""
    import random
    rng = random.Random(seed)
    flip = {"0/0": "0/1", "0/1": "1/1", "1/1": "0/1"}
    n = 0
    with open(src) as f, open(dst, "w") as out:
        cols = None
        for line in f:
            if line.startswith("#CHROM"):
                cols = line.rstrip("\n").split("\t")
            if line.startswith("#"):
                out.write(line)
                continue
            c = line.rstrip("\n").split("\t")
            if rng.random() < 0.5:
                n += 1
                for fam in trios():
                    for s in rng.sample(list(fam), 2):
                        j = cols.index(s)
                        c[j] = flip.get(c[j], c[j])
            out.write("\t".join(c) + "\n")
    return n


def supp_bam(src, dst, seed):
    """a copy of the BAM in which (a) about a third of the reads have a supplementary alignment (same name and read
    group, flag 0x800, the alignment of ANOTHER read, usually at another place), (b) runs of three consecutive reads of
    one read group share a BX tag (linked reads).  Returns (#supplementary, #reads with BX)"""
    import random, pysam
    rng = random.Random(seed)
    with pysam.AlignmentFile(src) as f:
        header = f.header
        recs = [r for r in f]
    out, n_supp, n_bx = [], 0, 0
    by_rg = {}
    for r in recs:
        rg = r.get_tag("RG") if r.has_tag("RG") else ""
        k = by_rg.setdefault((rg, r.reference_id), [0])
        if not r.is_unmapped and (k[0] // 3) % 2 == 0:
            r.set_tag("BX", f"BX{abs(hash_str(rg)) % 1000}-{r.reference_id}-{k[0] // 3}")
            n_bx += 1
        k[0] += 1
    for r in recs:
        out.append(r)
        if not r.is_unmapped and rng.random() < 0.33:
            other = rng.choice(recs)
            if other.is_unmapped or other.query_name == r.query_name:
                continue
            d = other.to_dict()
            d["name"] = r.query_name
            d["flag"] = str(int(d["flag"]) | 0x800)
            s = pysam.AlignedSegment.from_dict(d, header)
            if r.has_tag("RG"):
                s.set_tag("RG", r.get_tag("RG"))
            if r.has_tag("BX"):
                s.set_tag("BX", r.get_tag("BX"))
            elif s.has_tag("BX"):
                s.set_tag("BX", None)
            out.append(s)
            n_supp += 1
    out.sort(key=lambda r: (r.reference_id if r.reference_id >= 0 else 1 << 30, r.reference_start))
    with pysam.AlignmentFile(dst, "wb", header=header) as f:
        for r in out:
            f.write(r)
    pysam.index(dst)
    return n_supp, n_bx


def hash_str(s):
    """a hash of a string that does not depend on PYTHONHASHSEED"""
    h = 0
    for ch in s:
        h = (h * 131 + ord(ch)) % 1000003
    return h


# ---- hash seeds that realise different iteration orders of the sets of names a run iterates over -----------------

_PROBE = ("import sys, json\n"
          "S = json.loads(sys.argv[1])\n"
          "out = []\n"
          "for s in S:\n"
          "    a = set()\n"
          "    for x in s:\n"
          "        a.add(x)\n"
          "    out.append([list(frozenset(s)), list(a), list(set(s) & set(reversed(s)))])\n"
          "print(json.dumps(out))\n")


def probe_orders(name_sets, pool, python, jobs=8):
    """{seed: [[order of frozenset(list), of a set filled by add, of an intersection] per name set]} for the seeds in pool:
    the iteration order of a str set is a function of PYTHONHASHSEED, found by asking an interpreter started with it"""
    import json, os, subprocess
    from concurrent.futures import ThreadPoolExecutor
    arg = json.dumps([list(s) for s in name_sets])

    def one(seed):
        r = subprocess.run([python, "-S", "-c", _PROBE, arg], env=dict(os.environ, PYTHONHASHSEED=str(seed)),
                           capture_output=True, text=True, timeout=120)
        return seed, json.loads(r.stdout) if r.returncode == 0 else None
    with ThreadPoolExecutor(max_workers=jobs) as ex:
        return {seed: o for seed, o in ex.map(one, pool) if o is not None}


def _features(orders):
    """order features of one seed, each with the weight 1 / (number of features of its set): relative order of every pair,
    first and last element, per construction"""
    feats = {}
    for i, per_set in enumerate(orders):
        fs = []
        for c, order in enumerate(per_set):
            if len(order) < 2:
                continue
            fs.append((i, c, "first", order[0]))
            fs.append((i, c, "last", order[-1]))
            for a in range(len(order)):
                for b in range(a + 1, len(order)):
                    fs.append((i, c, order[a], order[b]))
        for f in fs:
            feats[f] = 1.0 / len(fs)
    return feats


def covering_seeds(probed, set_ids, n, first="0"):
    """n hash seeds (as strings), beginning with `first`, chosen greedily from the probed ones so that the name sets
    `set_ids` (indices into the probed name sets) are iterated in as many different orders as possible: every set counts
    the same, whatever its size.  Deterministic."""
    feats = {str(s): _features([o[i] for i in set_ids]) for s, o in probed.items()}
    chosen = [first]
    covered = set(feats.get(first, {}))
    while len(chosen) < n:
        best, gain = None, -1.0
        for s in sorted(feats, key=lambda x: int(x)):
            if s in chosen:
                continue
            g = sum(w for f, w in feats[s].items() if f not in covered)
            if g > gain + 1e-12:
                best, gain = s, g
        if best is None:
            break
        chosen.append(best)
        covered |= set(feats[best])
    return chosen

"""Inputs for C16: a multi-family diploid scenario (two trios + unrelated samples, several contigs, VCF records
using INFO ids that the header does not define, PED file) built on the PolyScenario container of c15_poly."""
from . import sim, c15_poly

NAMES = [("NA19238", "NA19239", "NA19240"), ("fatherB", "motherB", "kidB"), ("x",), ("Sample_10",)]


def family_scenario(rng, n_contigs=2, n_variants=(4, 8), cov_per_hap=(3, 5), read_len=(70, 220), min_gap=14):
    contigs, variants, haps, reads = {}, {}, {}, []
    samples = [s for fam in NAMES for s in fam]
    rid = 0
    for ci in range(n_contigs):
        name = f"chr{ci + 1}"
        nv = rng.randrange(n_variants[0], n_variants[1] + 1)
        L = 40 + nv * (2 * min_gap + 2) + rng.randrange(10, 60)
        seq = sim.random_seq(rng, L)
        contigs[name] = seq
        vs = c15_poly.make_poly_variants(rng, name, seq, nv, multi_prob=0.0, indel_prob=0.1, min_gap=min_gap)
        variants[name] = vs
        n = len(vs)

        def rand_dip():
            h0 = [rng.randrange(2) for _ in range(n)]
            h1 = [(1 - a) if rng.random() < 0.75 else a for a in h0]
            return [h0, h1]

        def gamete(parent):
            g, cur = [], rng.randrange(2)
            x = rng.randrange(0, n + 1) if rng.random() < 0.3 else None
            for i in range(n):
                if x is not None and i == x:
                    cur = 1 - cur
                g.append(parent[cur][i])
            return g
        for fam in NAMES:
            if len(fam) == 3:
                f, m, c = fam
                haps[f"{f}|{name}"] = rand_dip(); haps[f"{m}|{name}"] = rand_dip()
                haps[f"{c}|{name}"] = [gamete(haps[f"{f}|{name}"]), gamete(haps[f"{m}|{name}"])]
            else:
                haps[f"{fam[0]}|{name}"] = rand_dip()
        for s in samples:
            for h in range(2):
                cov = rng.randrange(cov_per_hap[0], cov_per_hap[1] + 1)
                n_reads = max(2, int(cov * L / ((read_len[0] + read_len[1]) / 2)))
                for _ in range(n_reads):
                    rl = rng.randrange(read_len[0], read_len[1] + 1)
                    st = rng.randrange(0, max(1, L - rl))
                    pr = c15_poly.poly_read(seq, vs, haps[f"{s}|{name}"][h], st, min(L, st + rl))
                    if pr is None:
                        continue
                    start, cigar, q = pr
                    rid += 1
                    reads.append({"name": f"r{rid}", "chrom": name, "start": start, "cigar": [list(c) for c in cigar],
                                  "seq": q, "rg": "rg_" + s, "mapq": 60})
    sc = c15_poly.PolyScenario(contigs, variants, samples, {s: 2 for s in samples}, haps, reads)
    return sc


def ped_text():
    lines = []
    for i, fam in enumerate(NAMES):
        if len(fam) == 3:
            f, m, c = fam
            lines.append(f"fam{i}\t{c}\t{f}\t{m}\t0\t1")
    return "\n".join(lines) + "\n"


def info_fn(sc):
    """INFO column using two ids (AC, AN) that the header does not define"""
    def f(chrom, i):
        col = [a for s in sc.samples for h in sc.haps[f"{s}|{chrom}"] for a in [h[i]]]
        return f"AC={sum(1 for a in col if a == 1)};AN={len(col)}"
    return f

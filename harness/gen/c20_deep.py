"""Round-10 generators for C20: PED files as text (valid and malformed), inputs of `find_recombination`
(transmission vector, components, positions, costs; incl. empty and length-1), sample selections."""

NAMES = ["A", "B", "C", "D", "E", "F1", "kid", "0x", "00", "a#"]
SEPS_ANY = [" ", "\t", "  ", " \t ", "\x0b", "\x0c", "\x1c", "\x1f", "\xa0", "\u2003", "\u3000", "\x85", "\r", "\u202f"]
SEPS_ASCII = [" ", "\t", "  ", " \t ", "\x0b", "\x0c", "\r", "\x1d"]


def gen_ped_text(rng, ascii_only):
    """a PED file as text; `dirty` files have short lines, blank lines, indented comments, odd separators / line ends"""
    seps = SEPS_ASCII if ascii_only else SEPS_ANY
    dirty = rng.random() < 0.35
    k = rng.choice([0, 1, 2, 3, 5, 8])
    pool = NAMES[:rng.choice([3, 5, 8, 10])]
    used, lines = [], []
    dup = rng.random() < 0.3
    for i in range(k):
        if dup and used and rng.random() < 0.35:
            child = rng.choice(used)
        else:
            cand = [x for x in pool if x not in used] or pool
            child = rng.choice(cand)
        used.append(child)
        par = lambda: "0" if rng.random() < 0.25 else rng.choice(pool)
        nf = 6 if not dirty else rng.choice([6, 6, 6, 7, 9, 5, 3, 1])
        fields = ["fam%d" % i, child, par(), par(), rng.choice(["0", "1", "2"]), rng.choice(["0", "1", "-9"])] + ["x"] * 3
        fields = fields[:nf]
        sep = (lambda: rng.choice(seps)) if (dirty or rng.random() < 0.3) else (lambda: "\t")
        line = ""
        if rng.random() < (0.3 if dirty else 0.05):
            line += rng.choice(seps)                       # leading blanks: still a record
        for j, f in enumerate(fields):
            line += f + (sep() if j + 1 < len(fields) else "")
        if rng.random() < 0.15:
            line += rng.choice(seps)                       # trailing blanks
        lines.append(line)
    # comments / empty lines / traps
    for _ in range(rng.choice([0, 0, 1, 2])):
        extra = rng.choice(["# a comment line", "#", "", "", "#fam A B C 0 1"] +
                           ([" ", "\t", " # indented x y z w", "\r"] if dirty else []))
        lines.insert(rng.randrange(len(lines) + 1), extra)
    ends = ["\n"] if not dirty else ["\n", "\n", "\r\n"]
    text = "".join(l + rng.choice(ends) for l in lines)
    if text.endswith("\n") and rng.random() < 0.25:
        text = text[:-1]                                    # last line without terminator
    if dirty and rng.random() < 0.1:
        text += "\n\n"
    return text


def gen_findrec(rng):
    """(tv, comps, positions, recomb, expect_ok): mostly inputs that satisfy the caller's invariants (tv and costs one
    per accessible position — costs `[0]` for no position —, component keys among the positions), some that violate one"""
    n = rng.choice([0, 0, 1, 2, 3, 4, 6, 9, 14])
    positions = sorted(rng.sample(range(0, 60), n))
    if positions and rng.random() < 0.15:
        rng.shuffle(positions)                             # the code does not need sorted positions
    n_blocks = rng.choice([1, 1, 2, 3])
    keys = [p for p in positions if rng.random() < 0.9]
    reps = {}
    comps = []
    for p in keys:
        b = rng.randrange(n_blocks)
        reps.setdefault(b, p)
        comps.append([p, reps[b]])
    if rng.random() < 0.3:
        rng.shuffle(comps)                                  # dict order is insertion order: any order of the keys
    vmax = rng.choice([2, 4, 4, 16])
    tv, cur = [], rng.randrange(vmax)
    for _ in positions:
        if rng.random() < 0.4:
            cur = rng.randrange(vmax)
        tv.append(cur)
    recomb = [0] + [rng.randrange(1, 40) for _ in positions[1:]] if positions else [0]
    ok = True
    x = rng.random()
    if x < 0.06:
        tv = tv + [0]; ok = False
    elif x < 0.10 and tv:
        tv = tv[:-1]; ok = False
    elif x < 0.14:
        recomb = recomb + [1]; ok = False
    elif x < 0.18 and positions:
        recomb = recomb[:-1]; ok = (len(recomb) == max(1, len(positions)))
    elif x < 0.21 and not positions:
        recomb = []; ok = False                            # what the cost computers do NOT return (F22's shape)
    elif x < 0.27:
        extra = rng.choice([p for p in range(61, 70)])
        comps.append([extra, comps[0][1] if comps else extra]); ok = False
    return tv, comps, positions, recomb, ok


def gen_selection(rng):
    """vcf samples, --sample list, parsed PED lines, --use-ped-samples"""
    pool = NAMES[:rng.choice([3, 5, 8])]
    vcf = rng.sample(pool, rng.randrange(1, len(pool) + 1))
    cli = rng.sample(pool, rng.randrange(1, 4)) if rng.random() < 0.3 else []
    ped = None
    if rng.random() < 0.8:
        ped, used = [], []
        src = vcf if rng.random() < 0.6 else pool            # mostly PEDs that fit the VCF
        for _ in range(rng.choice([0, 1, 2, 3])):
            cand = [x for x in src if x not in used]
            if not cand:
                break
            c = rng.choice(cand); used.append(c)
            par = lambda: None if rng.random() < 0.15 else rng.choice(src)
            ped.append([c, par(), par()])
    use_ped = bool(ped is not None and not cli and rng.random() < 0.7)
    return vcf, cli, ped, use_ped

"""C09 round 10: text level (sample-column tokens), passthrough (`write_unchanged`) and indexed fetch — generators and the
comparison of the REAL code (pysam records in-process, `VcfReader._extract_*`, `PhasedVcfWriter._set_*`, `VcfAugmenter`,
`VcfReader.fetch`) with the Lean ops `c09.text`, `c09.render`, `c09.passthrough`, `c09.fetch`."""
import os, random, types

HEADER = """##fileformat=VCFv4.2
##contig=<ID=c1,length=100000>
##contig=<ID=c2,length=100000>
##contig=<ID=c3,length=100000>
##FORMAT=<ID=GT,Number=1,Type=String,Description="Genotype">
##FORMAT=<ID=PS,Number=1,Type=Integer,Description="Phase set identifier">
##FORMAT=<ID=PQ,Number=1,Type=Integer,Description="Phasing quality">
##FORMAT=<ID=HP,Number=.,Type=String,Description="Phasing haplotype identifier">
##FORMAT=<ID=DP,Number=1,Type=Integer,Description="Depth">
#CHROM\tPOS\tID\tREF\tALT\tQUAL\tFILTER\tINFO\tFORMAT\tS1
"""
BASES = "ACGT"


# ------------------------------------------------------------------------------------------------ token generators

def gen_gt(rng, nal):
    """(token, well-formed?)"""
    r = rng.random()
    if r < 0.08:
        return rng.choice(["", "|", "0|", "/1", "a|b", "x", "0||1", "0/1/"]), False
    ploidy = rng.choice([1, 2, 2, 2, 2, 3, 4, 6])
    mode = rng.choice(["|", "|", "/", "mixed"])
    out = []
    for i in range(ploidy):
        a = "." if rng.random() < 0.12 else str(rng.randrange(0, nal + (2 if rng.random() < 0.15 else 0)))
        if a != "." and rng.random() < 0.05:
            a = "0" + a
        if i:
            out.append(mode if mode != "mixed" else rng.choice("|/"))
        out.append(a)
    return "".join(out), True


def gen_ps(rng):
    r = rng.random()
    if r < 0.12:
        return rng.choice([" 5", "5 ", "abc", "1.5", "--5", "5x", "1e3", "5_0", "-+5", "5-"])
    if r < 0.3:
        return rng.choice([".", "", "0", "2147483647", "2147483648", "-2147483640", "-2147483641", "-2147483648", "4294967297",
                           "007", "+5", "-3", "+0", "-0", "00", "99999999999999999999"])
    n = rng.choice([rng.randrange(1, 30), rng.randrange(1, 100000), rng.randrange(1, 1 << 31)])
    return str(n)


def gen_hp(rng, ploidy):
    """an HP token: mostly a mutated well-formed one"""
    b = rng.choice([rng.randrange(0, 30), rng.randrange(1, 1 << 40)])
    n = ploidy if rng.random() < 0.8 else rng.choice([1, 2, 3, 4])
    hs = list(range(1, n + 1))
    rng.shuffle(hs)
    pieces = [f"{b}-{h}" for h in hs]
    r = rng.random()
    if r < 0.45:
        return ",".join(pieces)
    k = rng.randrange(len(pieces))
    m = rng.choice(["block", "dup", "big", "zero", "empty", "extra", "single", "space", "plus", "under", "letter", "dot", "dots",
                    "drop", "lead0", "dash", "trail", "void", "semi", "tab2", "neg", "float"])
    if m == "block":
        pieces[k] = f"{b + 1}-{hs[k]}"
    elif m == "dup":
        pieces[k] = pieces[(k + 1) % len(pieces)]
    elif m == "big":
        pieces[k] = f"{b}-{n + rng.randrange(1, 3)}"
    elif m == "zero":
        pieces[k] = f"{b}-0"
    elif m == "empty":
        pieces[k] = ""
    elif m == "extra":
        pieces[k] = pieces[k] + "-" + str(rng.randrange(0, 5))
    elif m == "single":
        pieces[k] = str(b)
    elif m == "space":
        pieces[k] = rng.choice([" " + pieces[k], pieces[k] + " ", pieces[k].replace("-", " - "), pieces[k].replace("-", "- "), f"{b}-1 2"])
    elif m == "plus":
        pieces[k] = rng.choice(["+" + pieces[k], pieces[k].replace("-", "-+"), "++" + pieces[k], "+ " + pieces[k]])
    elif m == "under":
        pieces[k] = rng.choice([f"1_0-{hs[k]}", f"{b}-{hs[k]}_", f"_{b}-{hs[k]}", f"1__0-{hs[k]}", f"{b}-0_{hs[k]}"])
    elif m == "letter":
        pieces[k] = rng.choice(["x", f"{b}-x", f"a-{hs[k]}", f"{b}-{hs[k]}x", "0x1-1"])
    elif m == "dot":
        pieces[k] = "."
    elif m == "dots":
        return rng.choice([".", ".,.", "", ","])
    elif m == "drop":
        del pieces[k]
        if not pieces:
            return "."
    elif m == "lead0":
        pieces[k] = f"00{b}-0{hs[k]}"
    elif m == "dash":
        pieces[k] = rng.choice([f"{b}--{hs[k]}", f"-{b}-{hs[k]}", f"{b}-{hs[k]}-", "-"])
    elif m == "trail":
        return ",".join(pieces) + ","
    elif m == "void":
        return "," + ",".join(pieces)
    elif m == "semi":
        return ";".join(pieces)
    elif m == "tab2":
        pieces[k] = f"{b}-{hs[k]}\x0b"
    elif m == "neg":
        pieces[k] = f"{b}-{-hs[k]}"
    elif m == "float":
        pieces[k] = f"{b}-{hs[k]}.0"
    return ",".join(pieces)


def gen_column(rng):
    """one record with one sample: dict(alts, format, col, model request fields)"""
    n_alt = rng.choice([1, 1, 1, 2, 3, 12])
    nal = 1 + n_alt
    alts = ",".join(BASES[(i + 1) % 4] * (1 + i // 3) for i in range(n_alt))
    keys = rng.choice([["GT"], ["GT", "PS"], ["GT", "HP"], ["GT", "PS", "HP"], ["GT", "HP", "PS"], ["GT", "DP", "HP"], ["HP"], ["PS", "HP"],
                       ["GT", "PS", "HP"], ["GT", "HP"]])
    vals, gt_ok = [], True
    ploidy = 2
    for k in keys:
        if k == "GT":
            t, gt_ok = gen_gt(rng, nal)
            ploidy = max(1, t.count("|") + t.count("/") + 1)
            vals.append(t)
        elif k == "PS":
            vals.append(gen_ps(rng))
        elif k == "HP":
            # an EMPTY HP token is left out: pysam hands out ('.',) for it at the end of the line and (None,) in the middle
            # (htslib's handling of empty strings; outside the transcribed grammar), likewise a bare sign as PS (htslib reads 0)
            vals.append(gen_hp(rng, ploidy) or ".")
        else:
            vals.append(str(rng.randrange(1, 60)))
    n_keep = len(vals)
    if len(vals) > 1 and rng.random() < 0.1:
        n_keep = rng.randrange(1, len(vals))                    # trailing values dropped (legal VCF)
    if vals[:n_keep] == [""]:
        vals[0] = "."                                           # an entirely empty sample column is not a VCF line
    kept = vals[:n_keep]
    req = {"op": "c09.text", "nal": nal, "gt": None, "ps": None, "hp": "absent"}
    for i, k in enumerate(keys):
        dropped = i >= n_keep
        if k == "GT":
            req["gt"] = "." if dropped else vals[i]
        elif k == "PS":
            req["ps"] = "." if dropped else vals[i]
        elif k == "HP":
            req["hp"] = "dropped" if dropped else {"t": vals[i]}
    return {"alts": alts, "format": ":".join(keys), "col": ":".join(kept), "req": req}


# ------------------------------------------------------------------------------------------------ real code on one column

def phase_json(p):
    if p is None:
        return None
    b = p.block_id
    return {"block": b if (b is None or isinstance(b, int)) else repr(b), "alleles": list(p.phase)}


def real_decode_record(rec, si=0):
    """the two extractors on the first sample of a pysam record, HP first (as `_process_single_chromosome` calls them)"""
    from whatshap.vcf import VcfReader
    call = rec.samples[si]
    try:
        hp = VcfReader._extract_HP_phase(call)
    except Exception as e:  # noqa: BLE001 - the exception type is the observable
        return {"error": type(e).__name__}
    try:
        gp = VcfReader._extract_GT_PS_phase(call)
    except Exception as e:  # noqa: BLE001
        return {"error": "GTPS:" + type(e).__name__}
    return {"hp": phase_json(hp), "gtps": phase_json(gp)}


def real_decode_column(path, alts, fmt, col):
    import pysam
    with open(path, "w") as f:
        f.write(HEADER + f"c1\t10\t.\tA\t{alts}\t.\t.\t.\t{fmt}\t{col}\n")
    try:
        with pysam.VariantFile(path) as vf:
            rec = next(iter(vf), None)
            if rec is None:
                return {"error": "record"}
            return real_decode_record(rec)
    except (OSError, ValueError):
        return {"error": "record"}


def model_res(ans):
    r = ans["res"]
    return r


# ------------------------------------------------------------------------------------------------ writer tokens

def real_set_tokens(path, comp, phase, tag):
    """the real `_set_HP` / `_set_PS` on a pysam record; returns the FORMAT keys and the text of the sample column"""
    import pysam
    from whatshap.vcf import PhasedVcfWriter
    with open(path, "w") as f:
        f.write(HEADER + "c1\t10\t.\tA\tC,G,T\t.\t.\t.\tGT\t" + "/".join("0" for _ in phase) + "\n")
    with pysam.VariantFile(path) as vf:
        rec = next(iter(vf))
        call = rec.samples[0]
        me = types.SimpleNamespace(_mav=True)
        (PhasedVcfWriter._set_HP if tag == "HP" else PhasedVcfWriter._set_PS)(me, call, comp, tuple(phase))
        cols = str(rec).rstrip("\n").split("\t")
        return dict(zip(cols[8].split(":"), cols[9].split(":")))


# ------------------------------------------------------------------------------------------------ passthrough

def gen_passthrough(rng):
    n_c = rng.randrange(1, 4)
    contigs = [f"c{i + 1}" for i in range(n_c)]
    file = []
    for c in contigs:
        file += [c] * rng.randrange(1, 5)
    plan = [[c, rng.random() < 0.4] for c in contigs]
    r = rng.random()
    if r < 0.12 and len(plan) > 1:
        del plan[rng.randrange(len(plan) - 1)]                 # a chromosome left out: the next call meets the wrong record
    elif r < 0.2 and len(plan) > 1:
        i = rng.randrange(len(plan) - 1)
        plan[i], plan[i + 1] = plan[i + 1], plan[i]
    elif r < 0.26:
        plan.insert(rng.randrange(len(plan) + 1), [rng.choice(contigs), False])   # a chromosome asked for twice
    elif r < 0.3:
        plan = plan[:-1] or plan
    return {"file": file, "plan": plan}


def passthrough_line(i, c, modified):
    return f"{c}\t{i + 1}\t.\tA\tC\t.\t.\t.\tGT:PS\t" + ("0/1:." if modified else f"{'0|1' if i % 2 else '1|0'}:{7 + i}") + "\n"


def real_passthrough(d, file, plan):
    """real PhasedVcfWriter: `write_unchanged(chrom)` or `write(chrom, …)` with S1 as a target and nothing phased (every record
    handed to `write` loses its phase: visibly modified) per plan entry; returns {"error": "AssertionError"} or {"body": [lines]}"""
    from whatshap.vcf import PhasedVcfWriter
    from whatshap.core import Read, ReadSet
    os.makedirs(d, exist_ok=True)
    path, out = os.path.join(d, "pt.vcf"), os.path.join(d, "pt.out.vcf")
    with open(path, "w") as f:
        f.write(HEADER + "".join(passthrough_line(i, c, False) for i, c in enumerate(file)))
    w = PhasedVcfWriter(in_path=path, command_line=None, out_file=out, tag="PS")
    res = None
    try:
        for chrom, is_write in plan:
            if is_write:
                rs = ReadSet()
                for i in range(2):
                    rs.add(Read(f"superread_{i}_0", 0, 0, 0))
                w.write(chrom, {"S1": rs}, {"S1": {}})
            else:
                w.write_unchanged(chrom)
    except AssertionError:
        res = {"error": "AssertionError"}
    finally:
        w.close()
    if res is None:
        res = {"body": [ln for ln in open(out).read().splitlines(True) if not ln.startswith("#")]}
    for q in (path, out):
        os.remove(q)
    return res


# ------------------------------------------------------------------------------------------------ fetch

def gen_fetch(rng):
    n_c = rng.randrange(1, 4)
    contigs = [f"c{i + 1}" for i in range(n_c)]
    sites = []
    for c in contigs:
        n = rng.randrange(1, 9)
        pos = sorted(rng.sample(range(1, 400), n))
        if rng.random() < 0.6:
            pos[0] = 1                                          # POS 1
        if rng.random() < 0.5:
            pos[-1] = 100000                                    # contig end
        pos = sorted(set(pos))
        for p in pos:
            rlen = rng.choice([1, 1, 1, 2, 5]) if p < 99990 else 1
            sites.append([c, p - 1, rlen])
            if rng.random() < 0.1:
                sites.append([c, p - 1, 1])                     # duplicate position
    regions = []
    for _ in range(rng.randrange(1, 4)):
        s = rng.choice([0, 0, 1, rng.randrange(0, 400)])
        e = rng.choice([None, None, s + rng.randrange(0, 300), 100000, 99999])
        regions.append([s, e])
    return {"sites": sites, "regions": regions, "contigs": contigs}


def build_indexed(d, sites, rng):
    import pysam
    os.makedirs(d, exist_ok=True)
    path = os.path.join(d, "f.vcf")
    with open(path, "w") as f:
        f.write(HEADER)
        for i, (c, start, rlen) in enumerate(sites):
            ref = "".join(BASES[(start + k) % 4] for k in range(rlen))
            alt = "T" if ref[0] != "T" else "G"
            gt = rng.choice(["0|1", "1|0", "0/1", "1/1"])
            f.write(f"{c}\t{start + 1}\tr{i}\t{ref}\t{alt}\t.\t.\t.\tGT:PS\t{gt}:{5 if '|' in gt else '.'}\n")
    gz = path + ".gz"
    for p in (gz, gz + ".tbi", gz + ".csi"):
        if os.path.exists(p):
            os.remove(p)
    pysam.tabix_compress(path, gz, force=True)
    pysam.tabix_index(gz, preset="vcf", force=True, csi=rng.random() < 0.3)
    return gz


def table_json(t):
    return [t.chromosome, [(v.position, v.reference_allele, v.get_alt_allele_list() if hasattr(v, "get_alt_allele_list") else None)
                           for v in t.variants],
            [[None if p is None else (p.block_id, tuple(p.phase)) for p in t.phases_of(s)] for s in t.samples],
            [[tuple(g.as_vector()) for g in t.genotypes_of(s)] for s in t.samples]]

"""Shared simulators: reference / variants / true haplotypes / error-free reads with valid CIGARs,
VCF / BAM / FASTA writers (through pysam), runner for the real CLI from the overlay, VCF reader that
returns plain Python records.  Everything random derives from the `rng` passed in.

Coordinates: 0-based positions everywhere in Python structures; VCF text is 1-based as usual.
"""
import json, os, subprocess, sys

import pysam

BASES = "ACGT"
PY = "/venv/bin/python"


# ------------------------------------------------------------------------------------------------
# ground truth
# ------------------------------------------------------------------------------------------------

def random_seq(rng, n, alphabet=BASES):
    return "".join(rng.choice(alphabet) for _ in range(n))


class Variant:
    __slots__ = ("chrom", "pos", "ref", "alt", "kind")

    def __init__(self, chrom, pos, ref, alt, kind):
        self.chrom, self.pos, self.ref, self.alt, self.kind = chrom, pos, ref, alt, kind

    def as_dict(self):
        return {"chrom": self.chrom, "pos": self.pos, "ref": self.ref, "alt": self.alt, "kind": self.kind}

    def __repr__(self):
        return f"{self.chrom}:{self.pos}:{self.ref}>{self.alt}"


def make_variant(rng, chrom, refseq, pos, kind):
    """a variant at `pos` in normalised VCF form: indels have an anchor base and no common suffix;
    SNV/MNP have no common prefix/suffix.  Returns None if impossible at this position."""
    if kind == "snv":
        ref = refseq[pos]
        return Variant(chrom, pos, ref, rng.choice([b for b in BASES if b != ref]), kind)
    if kind == "mnp":
        L = rng.choice([2, 3])
        ref = refseq[pos:pos + L]
        if len(ref) < L:
            return None
        alt = "".join(rng.choice([b for b in BASES if b != r]) for r in ref)  # every base differs
        return Variant(chrom, pos, ref, alt, kind)
    if kind == "ins":
        L = rng.choice([1, 1, 2, 3, 5])
        anchor = refseq[pos]
        ins = random_seq(rng, L)
        # unshiftable & normalised: inserted sequence must not end with the anchor base (no common suffix)
        # and must not start with the base following the anchor (otherwise right-shiftable; harmless but
        # keeps the alignment unique)
        nxt = refseq[pos + 1] if pos + 1 < len(refseq) else "N"
        if ins[-1] == anchor or ins[0] == nxt:
            return None
        return Variant(chrom, pos, anchor, anchor + ins, kind)
    if kind == "del":
        L = rng.choice([1, 1, 2, 3, 5])
        ref = refseq[pos:pos + 1 + L]
        if len(ref) < 1 + L or pos + 1 + L >= len(refseq):
            return None
        anchor = ref[0]
        nxt = refseq[pos + 1 + L]
        # normalised (no common suffix between REF and ALT=anchor) and not shiftable right
        if ref[-1] == anchor or ref[1] == nxt:
            return None
        return Variant(chrom, pos, ref, anchor, kind)
    raise ValueError(kind)


def make_variants(rng, chrom, refseq, n, kinds=("snv",), min_gap=25, margin=30):
    """n well separated variants (consecutive variants start >= min_gap after the previous REF end)"""
    out = []
    pos = margin + rng.randrange(0, 10)
    tries = 0
    while len(out) < n and pos < len(refseq) - margin and tries < 50 * n + 100:
        tries += 1
        v = make_variant(rng, chrom, refseq, pos, rng.choice(list(kinds)))
        if v is None:
            pos += 1
            continue
        out.append(v)
        pos = v.pos + len(v.ref) + min_gap + rng.randrange(0, min_gap)
    return out


def hap_read(refseq, variants, alleles, start, end):
    """Error-free read copying a haplotype over reference interval [start, end).

    variants: list of Variant on this contig sorted by pos; alleles: list of 0/1 (same length) of the
    haplotype.  The interval is first adjusted so that it does not begin or end inside a variant's REF
    span (it is shrunk).  Returns (ref_start, cigar tuples, query sequence, covered) where covered is
    the list of variant indices whose whole REF span plus one base either side lies in [start,end).
    """
    # shrink so that we do not start/end within a REF span
    changed = True
    while changed:
        changed = False
        for v in variants:
            a, b = v.pos, v.pos + len(v.ref)
            if a < start < b:
                start = b; changed = True
            if a < end < b:
                end = a; changed = True
    if end - start < 2:
        return None
    seq, cigar, covered = [], [], []

    def add(op, n):
        if n <= 0:
            return
        if cigar and cigar[-1][0] == op:
            cigar[-1] = (op, cigar[-1][1] + n)
        else:
            cigar.append((op, n))
    p = start
    for i, v in enumerate(variants):
        a, b = v.pos, v.pos + len(v.ref)
        if b <= start or a >= end:
            continue
        if a - 1 >= start and b + 1 <= end:
            covered.append(i)
        if a > p:
            seq.append(refseq[p:a]); add(0, a - p)
        if alleles[i] == 0:
            seq.append(v.ref); add(0, len(v.ref))
        elif len(v.ref) == len(v.alt):
            seq.append(v.alt); add(0, len(v.alt))
        elif len(v.alt) > len(v.ref):   # insertion after the anchor
            seq.append(v.alt); add(0, 1); add(1, len(v.alt) - 1)
        else:                            # deletion after the anchor
            seq.append(v.alt); add(0, 1); add(2, len(v.ref) - 1)
        p = b
    if p < end:
        seq.append(refseq[p:end]); add(0, end - p)
    # a read must not start or end with I/D
    if cigar[0][0] != 0 or cigar[-1][0] != 0:
        return None
    return start, cigar, "".join(seq), covered


# ------------------------------------------------------------------------------------------------
# writers
# ------------------------------------------------------------------------------------------------

def write_fasta(path, contigs):
    with open(path, "w") as f:
        for name, seq in contigs.items():
            f.write(f">{name}\n")
            for i in range(0, len(seq), 60):
                f.write(seq[i:i + 60] + "\n")
    pysam.faidx(path)


def write_bam(path, contigs, reads, read_groups=None, sort=True):
    """reads: list of dicts {name, chrom, start, cigar(tuples), seq, qual(optional int or list), flag, mapq, rg, tags}
    read_groups: list of (rg id, sample) or None (no @RG)"""
    header = {"HD": {"VN": "1.6", "SO": "coordinate" if sort else "unsorted"},
              "SQ": [{"SN": n, "LN": len(s)} for n, s in contigs.items()]}
    if read_groups:
        header["RG"] = [({"ID": i, "SM": sm} if sm is not None else {"ID": i}) for i, sm in read_groups]
    names = list(contigs)
    if sort:
        def key(r):
            return (names.index(r["chrom"]) if r.get("chrom") in names else 10**9, r.get("start", 0))
        reads = sorted(reads, key=key)
    with pysam.AlignmentFile(path, "wb", header=header) as out:
        for r in reads:
            a = pysam.AlignedSegment(out.header)
            a.query_name = r["name"]
            a.query_sequence = r.get("seq")
            a.flag = r.get("flag", 0)
            if r.get("chrom") is not None and r.get("chrom") in names:
                a.reference_id = names.index(r["chrom"])
                a.reference_start = r["start"]
                a.cigartuples = r["cigar"]
                a.mapping_quality = r.get("mapq", 60)
            else:
                a.flag = r.get("flag", 4) | 4
            q = r.get("qual", 30)
            if a.query_sequence is not None:
                a.query_qualities = pysam.qualitystring_to_array("".join(chr(33 + x) for x in (q if isinstance(q, list) else [q] * len(a.query_sequence))))
            if "mate" in r:
                m = r["mate"]
                a.next_reference_id = names.index(m["chrom"]); a.next_reference_start = m["start"]
            tags = list(r.get("tags", []))
            if r.get("rg") is not None:
                tags.append(("RG", r["rg"]))
            if tags:
                a.set_tags(tags)
            out.write(a)
    if sort:
        pysam.index(path)
    return reads


def gt_str(gt):
    """gt = None | (alleles tuple with None for '.', phased bool)"""
    if gt is None:
        return "."
    alleles, phased = gt
    return ("|" if phased else "/").join("." if a is None else str(a) for a in alleles)


def write_vcf(path, contigs, samples, records, extra_header=(), fmt_defs=None, info_defs=None, contig_header=True):
    """Plain-text VCF writer (so that malformed-ish but legal shapes can be produced).
    records: list of dicts {chrom,pos(0-based),id,ref,alts(list),qual,filter,info(str),format(list of keys),
                            calls(list per sample of dict key->str)}  — GT given as already formatted string."""
    fmt_defs = fmt_defs or {}
    info_defs = info_defs or {}
    with open(path, "w") as f:
        f.write("##fileformat=VCFv4.2\n")
        if contig_header:
            for n, s in contigs.items():
                f.write(f"##contig=<ID={n},length={len(s)}>\n")
        f.write('##FILTER=<ID=PASS,Description="All filters passed">\n')
        defs = {"GT": '##FORMAT=<ID=GT,Number=1,Type=String,Description="Genotype">'}
        defs.update(fmt_defs)
        for k, line in defs.items():
            f.write(line + "\n")
        for k, line in info_defs.items():
            f.write(line + "\n")
        for line in extra_header:
            f.write(line + "\n")
        f.write("#CHROM\tPOS\tID\tREF\tALT\tQUAL\tFILTER\tINFO" + ("\tFORMAT\t" + "\t".join(samples) if samples else "") + "\n")
        for r in records:
            cols = [r["chrom"], str(r["pos"] + 1), r.get("id", "."), r["ref"], ",".join(r["alts"]) if r["alts"] else ".",
                    str(r.get("qual", ".")), r.get("filter", "."), r.get("info", ".")]
            if samples:
                keys = r.get("format", ["GT"])
                cols.append(":".join(keys))
                for c in r["calls"]:
                    cols.append(":".join(str(c.get(k, ".")) for k in keys))
            f.write("\t".join(cols) + "\n")


def read_vcf(path):
    """Parse a VCF with pysam into plain records (independent of whatshap's reader).
    Returns (header_lines, samples, records). A call is {key: value} with GT -> (alleles tuple, phased)."""
    out = []
    with pysam.VariantFile(path) as vf:
        header_lines = [str(r).rstrip("\n") for r in vf.header.records]
        samples = list(vf.header.samples)
        for rec in vf:
            calls = []
            for s in samples:
                c = rec.samples[s]
                d = {}
                for k in rec.format.keys():
                    if k == "GT":
                        d["GT"] = (tuple(c["GT"]) if c["GT"] is not None else None, bool(c.phased))
                    else:
                        try:
                            d[k] = c[k]
                        except Exception as e:  # undefined field etc.
                            d[k] = f"<unreadable:{type(e).__name__}>"
                calls.append(d)
            info = {}
            for k in rec.info.keys():
                try:
                    info[k] = rec.info[k]
                except Exception as e:
                    info[k] = f"<unreadable:{type(e).__name__}>"
            out.append({
                "chrom": rec.chrom, "pos": rec.pos - 1, "id": rec.id, "ref": rec.ref, "alts": list(rec.alts or ()),
                "qual": rec.qual, "filter": list(rec.filter.keys()), "info": info,
                "format": list(rec.format.keys()), "calls": calls,
            })
    return header_lines, samples, out


def read_vcf_text(path):
    """Raw text view: list of (fixed 8 columns, format string, list of per-sample strings) for data lines,
    plus header lines — for byte-level 'nothing else changed' comparisons."""
    hdr, recs = [], []
    import gzip
    op = gzip.open if path.endswith(".gz") else open
    with op(path, "rt") as f:
        for line in f:
            line = line.rstrip("\n")
            if line.startswith("#"):
                hdr.append(line); continue
            cols = line.split("\t")
            recs.append((cols[:8], cols[8] if len(cols) > 8 else None, cols[9:]))
    return hdr, recs


# ------------------------------------------------------------------------------------------------
# running the real CLI from the overlay
# ------------------------------------------------------------------------------------------------

def whatshap(args, overlay, trace=None, env_extra=None, timeout=300, cwd=None):
    """runs `python -m whatshap <args>` with the working-tree overlay first on the path.
    Returns (returncode, stdout, stderr, trace_records)"""
    if not os.path.exists(os.path.join(overlay, "whatshap", "__init__.py")):
        raise RuntimeError("overlay %s disappeared: refusing to fall back to the installed whatshap" % overlay)
    env = dict(os.environ)
    env["PYTHONPATH"] = overlay
    env.pop("WHATSHAP_VERIF_TRACE", None)
    if trace:
        if os.path.exists(trace):
            os.remove(trace)
        env["WHATSHAP_VERIF_TRACE"] = trace
    if env_extra:
        env.update(env_extra)
    r = subprocess.run([PY, "-m", "whatshap"] + [str(a) for a in args], env=env, capture_output=True, text=True,
                       timeout=timeout, cwd=cwd)
    recs = []
    if trace and os.path.exists(trace):
        recs = [json.loads(l) for l in open(trace)]
    return r.returncode, r.stdout, r.stderr, recs


# ------------------------------------------------------------------------------------------------
# a complete small phasing scenario with ground truth
# ------------------------------------------------------------------------------------------------

class Scenario:
    """reference + variants + samples with true diploid haplotypes + error-free reads"""

    def __init__(self, rng, n_contigs=1, contig_len=(600, 1500), n_variants=(3, 12), kinds=("snv",), samples=("S1",),
                 depth=(2, 8), read_len=(80, 400), min_gap=25, het_prob=0.8, paired_prob=0.0, given=None):
        """given: optional {contig: (sequence, [Variant sorted by pos])} to use instead of a random reference"""
        self.rng = rng
        self.contigs = {}
        self.variants = {}       # chrom -> [Variant]
        self.samples = list(samples)
        self.haps = {}           # (sample, chrom) -> (alleles0, alleles1)
        self.reads = []          # dicts for write_bam, plus truth: sample, hap, covered (variant indices)
        for ci in range(n_contigs if given is None else len(given)):
            if given is None:
                name = f"chr{ci + 1}"
                L = rng.randrange(*contig_len)
                seq = random_seq(rng, L)
                self.contigs[name] = seq
                nv = rng.randrange(n_variants[0], n_variants[1] + 1)
                self.variants[name] = make_variants(rng, name, seq, nv, kinds=kinds, min_gap=min_gap)
            else:
                name = list(given)[ci]
                seq, vs = given[name]
                self.contigs[name] = seq
                self.variants[name] = list(vs)
            for s in self.samples:
                h0, h1 = [], []
                for _ in self.variants[name]:
                    if rng.random() < het_prob:
                        a = rng.randrange(2); h0.append(a); h1.append(1 - a)
                    else:
                        a = rng.randrange(2); h0.append(a); h1.append(a)
                self.haps[(s, name)] = (h0, h1)
        rid = 0
        for s in self.samples:
            for name, seq in self.contigs.items():
                L = len(seq)
                d = rng.randrange(depth[0], depth[1] + 1)
                mean_len = (read_len[0] + read_len[1]) / 2
                n_reads = max(1, int(d * L / mean_len))
                for _ in range(n_reads):
                    rl = rng.randrange(read_len[0], read_len[1] + 1)
                    st = rng.randrange(0, max(1, L - rl))
                    h = rng.randrange(2)
                    hr = hap_read(seq, self.variants[name], self.haps[(s, name)][h], st, min(L, st + rl))
                    if hr is None:
                        continue
                    start, cigar, q, covered = hr
                    rid += 1
                    self.reads.append({"name": f"r{rid}_{s}_h{h}", "chrom": name, "start": start, "cigar": cigar, "seq": q,
                                       "rg": "rg_" + s, "sample": s, "hap": h, "covered": covered, "mapq": 60})

    def read_groups(self):
        return [("rg_" + s, s) for s in self.samples]

    def vcf_records(self, gt_override=None):
        recs = []
        for name in self.contigs:
            for i, v in enumerate(self.variants[name]):
                calls = []
                for s in self.samples:
                    h0, h1 = self.haps[(s, name)]
                    a, b = sorted((h0[i], h1[i]))
                    calls.append({"GT": f"{a}/{b}"})
                recs.append({"chrom": name, "pos": v.pos, "ref": v.ref, "alts": [v.alt], "calls": calls, "format": ["GT"]})
        return recs

    def write(self, d, prefix="in"):
        os.makedirs(d, exist_ok=True)
        fa, bam, vcf = (os.path.join(d, prefix + e) for e in (".fasta", ".bam", ".vcf"))
        write_fasta(fa, self.contigs)
        write_bam(bam, self.contigs, self.reads, self.read_groups())
        write_vcf(vcf, self.contigs, self.samples, self.vcf_records())
        return fa, bam, vcf

    def truth(self, sample, chrom):
        """{pos: (allele on hap0, allele on hap1)}"""
        h0, h1 = self.haps[(sample, chrom)]
        return {v.pos: (h0[i], h1[i]) for i, v in enumerate(self.variants[chrom])}


def decode_phase(records, sample_index):
    """independent decoder of PS/HP phase from `read_vcf` records: {(chrom,pos): (phase_set, alleles tuple)}"""
    out = {}
    for r in records:
        c = r["calls"][sample_index]
        gt = c.get("GT")
        if gt is None or gt[0] is None:
            continue
        alleles, phased = gt
        hp = c.get("HP")
        if hp not in (None, (None,), ".") and not isinstance(hp, str):
            # HP: "ps-h1,ps-h2" strings
            try:
                parts = [x.split("-") for x in hp]
                ps = int(parts[0][0])
                order = [int(p[1]) - 1 for p in parts]
                al = [None] * len(alleles)
                for a, o in zip(alleles, order):
                    al[o] = a
                out[(r["chrom"], r["pos"])] = (ps, tuple(al))
                continue
            except Exception:
                pass
        if phased:
            ps = c.get("PS")
            if ps is None:
                ps = 0  # whole-chromosome block
            out[(r["chrom"], r["pos"])] = (ps, tuple(alleles))
    return out

"""File-level bridging for C04 (Model/C04File.lean): records of the model built from the TEXT of a VCF (so that the
model's rendered sample columns can be compared with the output text byte for byte), the assignment of trace records
to the reader's tables, and two families of small in-process cases that need no BAM:

* stream cases — a sites-only VCF with a given CHROM column and an arbitrary sequence of `write(chrom, {}, {})` calls
  on the real `PhasedVcfWriter` (the augmenter's look-ahead and its two assertions);
* reader cases — record lists with every kind the reader skips, unsorted positions and odd ploidies, read by the real
  `VcfReader`.
Everything random comes from the `rng` passed in."""
import os
import re
import traceback

from . import sim


def text_frec(fixed, fmt, cols, samples):
    """one data line (8 fixed columns, FORMAT, sample columns) -> JSON of the model's `FRec`; values stay text"""
    keys = fmt.split(":") if fmt else []
    calls = []
    for s, col in zip(samples, cols):
        vals = col.split(":")
        d = {k: (vals[i] if i < len(vals) else ".") for i, k in enumerate(keys)}
        gt, phased = None, False
        if "GT" in d:
            t = d["GT"]
            gt = [None if a == "." else int(a) for a in re.split(r"[/|]", t)]
            phased = "|" in t
        calls.append({"name": s, "gt": gt, "phased": phased,
                      "fields": [[k, None if d[k] == "." else d[k]] for k in keys if k != "GT"]})
    info = [] if fixed[7] == "." else [kv.split("=")[0] for kv in fixed[7].split(";")]
    return {"chrom": fixed[0], "infoKeys": info,
            "record": {"site": "\t".join(fixed), "pos": int(fixed[1]) - 1, "ref": fixed[3],
                       "alts": [] if fixed[4] == "." else fixed[4].split(","), "format": keys, "calls": calls}}


def tables(chroms):
    """itertools.groupby over a CHROM column: [(chrom, [indices])]"""
    out = []
    for i, c in enumerate(chroms):
        if out and out[-1][0] == c:
            out[-1][1].append(i)
        else:
            out.append((c, [i]))
    return out


def assign_trace(trace, tabs, processed):
    """the trace has one record per (processed table, family), in processing order -> per table its trace records
    (None if the trace does not have that shape)"""
    n_proc = sum(1 for c, _ in tabs if c in processed)
    if n_proc == 0:
        return [[] for _ in tabs] if not trace else None
    if len(trace) % n_proc:
        return None
    f = len(trace) // n_proc
    out, k = [], 0
    for c, _ in tabs:
        if c in processed:
            ts = trace[k:k + f]; k += f
            if any(t["chromosome"] != c for t in ts):
                return None
            out.append(ts)
        else:
            out.append([])
    return out


# ------------------------------------------------------------------------------------------------ stream cases

def gen_stream_case(rng):
    names = ["c1", "c2", "c3", "c4"][:rng.choice([1, 2, 3, 3, 4])]
    chroms = []
    for _ in range(rng.choice([0, 1, 2, 3, 3, 4, 5, 6])):
        c = rng.choice(names)
        chroms += [c] * rng.choice([1, 1, 2, 3])
    calls = [c for c, _ in tables(chroms)]
    mode = rng.choice(["exact", "exact", "perturbed", "random"])
    if mode == "perturbed":
        for _ in range(rng.choice([1, 1, 2])):
            k = rng.randrange(len(calls) + 1)
            what = rng.choice(["insert", "delete", "repeat", "append"])
            if what == "insert":
                calls.insert(k, rng.choice(names + ["zz"]))
            elif what == "delete" and calls:
                del calls[min(k, len(calls) - 1)]
            elif what == "repeat" and calls:
                k = min(k, len(calls) - 1)
                calls.insert(k, calls[k])
            else:
                calls.append(rng.choice(names))
    elif mode == "random":
        calls = [rng.choice(names) for _ in range(rng.randrange(0, 7))]
    return {"kind": "stream", "chroms": chroms, "calls": calls, "mode": mode}


class _CountingWriter:
    def __init__(self, inner):
        self.inner, self.n = inner, 0

    def write(self, rec):
        self.n += 1
        self.inner.write(rec)

    def close(self):
        self.inner.close()


def run_stream_real(case, d):
    """the real PhasedVcfWriter driven by case['calls']: ([[result, records written]], CHROM column of the output)"""
    from whatshap.vcf import PhasedVcfWriter
    os.makedirs(d, exist_ok=True)
    src, dst = os.path.join(d, "s.vcf"), os.path.join(d, "s.out.vcf")
    names = sorted(set(case["chroms"]) | {"c1"})
    pos = {}
    recs = []
    for c in case["chroms"]:
        pos[c] = pos.get(c, 0) + 10          # ascending within a chromosome even when it comes back
        recs.append(dict(chrom=c, pos=pos[c], ref="A", alts=["C"]))
    sim.write_vcf(src, {n: "A" * 500 for n in names}, [], recs)
    w = PhasedVcfWriter(src, None, dst)
    proxy = _CountingWriter(w._writer)
    w._writer = proxy
    res = []
    for c in case["calls"]:
        n0 = proxy.n
        try:
            w.write(c, {}, {})
            r = "ok"
        except AssertionError as e:
            line = traceback.extract_tb(e.__traceback__)[-1].line or ""
            r = "assert-chrom" if "_unprocessed_record.chrom" in line else ("assert-first" if "n != 1" in line else "assert-?")
        res.append([r, proxy.n - n0])
    w.close()
    _, orecs = sim.read_vcf_text(dst)
    out = [fixed[0] for fixed, _, _ in orecs]
    for p in (src, dst):
        os.remove(p)
    return res, out


# ------------------------------------------------------------------------------------------------ reader cases

GTS = ["0/1", "0/1", "1/0", "1/1", "0/0", "0|1", "./.", ".", "0/.", "1", "0/1/1", "1|0"]


def gen_reader_case(rng):
    n_samples = rng.choice([1, 2, 2, 3])
    names = ["c1", "c2", "c3"][:rng.choice([1, 2, 3])]
    odd_ploidy = rng.random() < 0.25
    unsorted = rng.random() < 0.2
    recs = []
    p, last = 0, None
    # (round 10) tables that begin at POS 1 = 0-based position 0, the only falsy position
    origin = rng.random() < 0.4
    for c in [rng.choice(names) for _ in range(rng.choice([1, 1, 2, 3]))]:
        first = c != last
        p = p + 3 if c == last else 1 if origin else rng.randrange(5, 40)      # the same name twice in a row is one table
        last = c
        for _ in range(rng.randrange(1, 8)):
            step = rng.choice([0, 0, 3, 7, 11])
            if origin and first:
                step, first = 0, False
            if unsorted and rng.random() < 0.25:
                step = -rng.choice([1, 4])
            p = max(1, p + step)
            kind = rng.choice(["snv", "snv", "snv", "ins", "del", "mnp", "multi", "multi", "noalt", "many", "sym"])
            ref, alts = "A", ["C"]
            if kind == "ins":
                alts = ["ACG"]
            elif kind == "del":
                ref = "ACG"; alts = ["A"]
            elif kind == "mnp":
                ref = "AC"; alts = ["GT"]
            elif kind == "multi":
                alts = rng.choice([["C", "G"], ["C", "AT"], ["C", "G", "T"]])
            elif kind == "noalt":
                alts = []
            elif kind == "many":
                alts = ["A" + "C" * k for k in range(1, rng.choice([15, 16, 17]) + 1)]
            elif kind == "sym":
                alts = ["<DEL>"]
            has_gt = rng.random() < 0.9
            calls = []
            for _ in range(n_samples):
                g = rng.choice(GTS if odd_ploidy else GTS[:9])
                if odd_ploidy and rng.random() < 0.05:
                    g = "/".join(["0"] * rng.choice([14, 15, 16]))
                calls.append({"GT": g, "DP": str(rng.randrange(1, 50))} if has_gt else {"DP": str(rng.randrange(1, 50))})
            recs.append(dict(chrom=c, pos=p - 1, ref=ref, alts=alts, format=["GT", "DP"] if has_gt else ["DP"], calls=calls,
                             info="END=%d" % (p + 3) if kind == "sym" else "."))
    return {"kind": "reader", "samples": [f"S{i}" for i in range(n_samples)], "records": recs, "only_snvs": rng.random() < 0.35,
            "shape": ("odd-ploidy " if odd_ploidy else "") + ("unsorted" if unsorted else "sorted") + (" from POS 1" if origin else "")}


def write_reader_vcf(case, path):
    names = sorted({r["chrom"] for r in case["records"]})
    sim.write_vcf(path, {n: "A" * 500 for n in names}, case["samples"], case["records"],
                  fmt_defs={"DP": '##FORMAT=<ID=DP,Number=1,Type=Integer,Description="Depth">'},
                  info_defs={"END": '##INFO=<ID=END,Number=1,Type=Integer,Description="End">'})


def real_reader_rows(path, only_snvs):
    """what whatshap's reader keeps: [(chrom, [(pos, ref, alt)])] or the name of the exception"""
    import logging
    import pysam
    from whatshap.vcf import VcfReader, VcfNotSortedError, PloidyError
    logging.getLogger("whatshap.vcf").setLevel(logging.ERROR)
    verbosity = pysam.set_verbosity(0)      # htslib's warnings about undeclared contigs/FORMATs are the generator's doing
    try:
        with VcfReader(path, only_snvs=only_snvs) as r:
            return [(t.chromosome, [(v.position, v.reference_allele, v.alternative_allele) for v in t.variants]) for t in r]
    except VcfNotSortedError:
        return "VcfNotSortedError"
    except PloidyError:
        return "PloidyError"
    except RuntimeError as e:
        # the Genotype constructor refuses 15 alleles, which the PloidyError test (> 15) lets through
        return "RuntimeError" if "Maximum ploidy" in str(e) else "RuntimeError: " + str(e)
    finally:
        pysam.set_verbosity(verbosity)


def model_rows(ans, frecs):
    """the model's answer in the same shape"""
    rd = ans.get("reader", {})
    if "error" in rd:
        return rd["error"]
    out, k = [], 0
    for tab, flags in zip(ans["tables"], rd["rows"]):
        rows = []
        for f in flags:
            r = frecs[k]["record"]; k += 1
            if f:
                rows.append((r["pos"], r["ref"], r["alts"][0] if r["alts"] else None))
        out.append((tab["chrom"], rows))
    return out

"""Generator and file helpers for C14 (`whatshap split`).

A case (JSON-serialisable; replay never needs the PRNG):
  {"fmt": "fastq"|"fastq.gz"|"bam",
   "reads": [{"name", "seq" (None = no sequence, BAM only), "comment" (FASTQ), "mapped": bool, "cigar_len": int|None}],
   "header": str|None, "rows": [[columns]]            -- the haplotag list, tab-separated columns
   "ploidy": int, "mode": "h12"|"o", "requested": [untagged, H1, ..] booleans,
   "add": bool, "discard": bool, "largest": bool,
   -- optional (deepening E14):
   "text": str          the list file verbatim (replaces header + rows; line ends, white space, blank lines … as given),
   "quirk": str         which perturbation `text` carries (distribution only),
   "list_gz": bool      the list file is written gzipped (list.tsv.gz),
   "args": "none"|"untagged-only"|"h1+o"   anomalous output options (replaces mode/requested),
   "pre": bool          every output file and the histogram exist beforehand with unrelated content,
   reads[i]["cigar"]: [[op, n]…] (BAM; replaces cigar_len), reads[i]["flag"]: int (BAM, extra flag bits),
   -- optional (round 8):
   "names": "plain"|"wild"   read names `read<i>` only, or drawn from everything SAM QNAME / a FASTQ title allows (distribution only)}
"""
import gzip, os

import pysam

BASES = "ACGT"
CONTIGS = {"chr1": "A" * 5000}


# ---- read names (round 8).  SAM: QNAME = [!-?A-~]{1,254} (htslib also takes '@'); FASTQ: the title up to the first white
# space.  '*' alone means "no name" in SAM, so it is left out altogether.  Nothing here is white space for `str.strip`.
QCHARS = [chr(c) for c in range(33, 127) if chr(c) != "*"]
LEAD = "####@@::/|=+-._,;!?$%&~^<>()[]{}'\"\\`"
SPECIAL = ["#", "##", "#readname", "#readname#", "#r", "#1", "#H1", "#none", "none", "None", "NONE", "H1", "H2", "H3",
           "H4", "H0", "H", "h1", "readname", "haplotype", "@", "@r", "@HD", "@SQ", ">r", "+", "-", ".", "..", "/", "|", "=", ":",
           "a:b:c/1", "m64011_190830_220126/1/ccs", "x|y=z", "r#1", "r#", "r/2", "0", "1", "-1", "1e5", "\\", "\"q\"", "'", "`",
           "chr1", "100", "%s", "{0}", "$HOME", "<r>", "~", "!", "?", ";", ",", "&", "(r)", "[r]", "r=", "=r", "#@", "@#"]


def wild_name(rng, i):
    x = rng.random()
    if x < 0.25:
        return rng.choice(SPECIAL)
    if x < 0.45:
        return rng.choice(LEAD) + f"read{i}"
    if x < 0.55:
        return f"read{i}" + rng.choice(LEAD)
    if x < 0.65:
        return rng.choice(LEAD) + f"read{i}" + rng.choice(LEAD)
    if x < 0.72:
        return "#" + rng.choice(SPECIAL)
    if x < 0.95:
        return "".join(rng.choice(QCHARS) for _ in range(rng.choice([1, 1, 2, 3, 5, 8, 12])))
    return rng.choice(LEAD) + "".join(rng.choice(QCHARS) for _ in range(rng.choice([100, 252, 253])))     # up to 254 = the BAM limit


def name_pool(rng, n, p_wild, stem="read", taken=()):
    """n distinct names; each is wild with probability p_wild"""
    pool, seen = [], set(taken)
    for i in range(n):
        nm = wild_name(rng, i) if rng.random() < p_wild else f"{stem}{i}"
        while nm in seen or nm == "*":
            nm = (nm + rng.choice(LEAD) + str(i))[:254] if len(nm) < 240 else f"{rng.choice(LEAD)}{stem}{i}_{len(seen)}"
        seen.add(nm); pool.append(nm)
    return pool


def gen_case(rng, scale=1, combo=None):
    """combo (0..15) stratifies the option table: bit0 add, bit1 discard, bit2 largest, bit3 untagged output requested"""
    fmt = rng.choice(["fastq", "fastq", "fastq.gz", "bam", "bam"])
    ploidy = rng.choice([2, 2, 2, 3, 4])
    mode = "h12" if ploidy == 2 and rng.random() < 0.5 else "o"
    n = rng.choice([0, 2, 3, 5, 8, 8, 12, 12, 20, 30]) * scale
    lens = [rng.choice([3, 4, 5, 8, 12]) for _ in range(4)] + [rng.randrange(1, 70) for _ in range(3)]
    p_wild = rng.choice([0.25, 0.6, 1.0]) if rng.random() < 0.5 else 0.0
    pool = name_pool(rng, max(3, n), p_wild)
    if p_wild and n and rng.random() < 0.5 and not any(nm.startswith("#") for nm in pool[:n]):
        j = rng.randrange(n)
        if "#" + pool[j] not in pool:
            pool[j] = ("#" + pool[j])[:254]
    reads = []
    discard = rng.random() < 0.4 if combo is None else bool(combo & 2)
    dup_reads = rng.random() < (0.7 if discard else 0.4)
    for i in range(n):
        name = rng.choice(pool[:max(1, n // 2)]) if (dup_reads and rng.random() < 0.3) else pool[i]
        L = rng.choice(lens)
        r = {"name": name, "seq": "".join(rng.choice(BASES) for _ in range(L)), "comment": None, "mapped": False,
             "cigar_len": None}
        if fmt == "bam":
            x = rng.random()
            if x < 0.35:
                r["mapped"] = True; r["cigar_len"] = L
                if rng.random() < 0.6:
                    r["cigar"] = gen_cigar(rng, L)   # unusual operators; query-consuming length = L
            if rng.random() < 0.2:
                r["seq"] = None                      # no sequence: length inferred from CIGAR, else 0
                if r["mapped"] and rng.random() < 0.3:
                    r["cigar_len"] = rng.choice(lens)
                    r["cigar"] = gen_cigar(rng, r["cigar_len"]) if rng.random() < 0.7 else None
                    if rng.random() < 0.15:
                        r["cigar"] = [[5, rng.randrange(1, 9)]]          # only a hard clip: inferred length 0
            if rng.random() < 0.3:                   # pairs / secondary / supplementary / duplicate / QC-fail bits
                r["flag"] = rng.choice([0x1 | 0x40, 0x1 | 0x80, 0x100, 0x800, 0x400, 0x200, 0x1 | 0x2 | 0x40, 0x10])
        elif rng.random() < 0.2:
            r["comment"] = rng.choice(["ccs np=7", "1:N:0", "x"])
        reads.append(r)
    # the list
    want_largest = rng.random() < 0.2 if combo is None else bool(combo & 4)
    four = rng.random() < 0.5 or (want_largest and rng.random() < 0.96)
    header = None
    if rng.random() < 0.5:
        header = "#readname\thaplotype" + ("\tphaseset\tchromosome" if four else "")
    names_in_reads = sorted({r["name"] for r in reads})
    p_listed = rng.choice([0.3, 0.7, 1.0])
    listed = [nm for nm in names_in_reads if rng.random() < p_listed]
    listed += name_pool(rng, rng.choice([0, 0, 1, 3]) or (0 if listed else 1), p_wild, stem="absent", taken=names_in_reads)
    rng.shuffle(listed)
    hashed = [i for i, nm in enumerate(listed) if nm.startswith("#")]
    if hashed and rng.random() < 0.6:
        # a name starting with '#' at a chosen line: first (with a header: first data line), second, last, anywhere
        nm = listed.pop(rng.choice(hashed))
        listed.insert(rng.choice([0, 1, 1, len(listed), len(listed), rng.randrange(len(listed) + 1)]), nm)
    # duplicate names in the list: rare in general; more often (and several copies) with --only-largest-block and
    # without --discard-unknown-reads, where they decide between "number of lines" and "number of names" of a block
    dup_list = rng.random() < (0.3 if (want_largest and not discard) else 0.06) and listed
    if dup_list:
        listed += [rng.choice(listed[:3]) for _ in range(rng.choice([1, 2, 4, 6] if want_largest else [1, 2]))]
    bad_hap = rng.random() < 0.04
    n_chrom = rng.choice([1, 1, 2, 3])
    n_ps = rng.choice([1, 2, 2, 3])
    rows = []
    for nm in listed:
        h = rng.choice(["none"] + [f"H{i}" for i in range(1, ploidy + 1)] * 2)
        if bad_hap and rng.random() < 0.3:
            h = f"H{ploidy + 1}"
        row = [nm, h]
        if four:
            if h == "none":
                row += ["none", f"chr{rng.randrange(n_chrom) + 1}"]
            else:
                row += [str(100 * (rng.randrange(n_ps) + 1)), f"chr{rng.randrange(n_chrom) + 1}"]
        rows.append(row)
    if rng.random() < 0.04:
        rows = []
    largest = want_largest
    add = rng.random() < 0.3 if combo is None else bool(combo & 1)
    want_untagged = rng.random() < 0.7 if combo is None else bool(combo & 8)
    if mode == "h12":
        requested = [want_untagged, rng.random() < 0.8, rng.random() < 0.8]
        if not (requested[1] or requested[2]):
            requested[rng.choice([1, 2])] = True
    else:
        requested = [want_untagged] + [True] * ploidy
    case = {"fmt": fmt, "reads": reads, "header": header, "rows": rows, "ploidy": ploidy, "mode": mode,
            "requested": requested, "add": add, "discard": discard, "largest": largest,
            "names": "wild" if p_wild else "plain"}
    if mode == "o" and rng.random() < 0.05:          # a single -o: ploidy 1
        case["ploidy"] = 1
        case["requested"] = requested[:2]
    x = rng.random()
    if x < 0.05:
        case["args"] = rng.choice(["none", "untagged-only", "h1+o"])
    if rng.random() < 0.35:
        case["text"], case["quirk"] = perturb_text(rng, case)
    case["list_gz"] = rng.random() < 0.25
    case["pre"] = rng.random() < 0.3
    return case


def gen_cigar(rng, qlen):
    """a CIGAR whose query-consuming operators (M I S = X) sum to qlen, with D N H P sprinkled in"""
    parts, left = [], qlen
    if rng.random() < 0.4:
        parts.append([5, rng.randrange(1, 6)])                          # leading hard clip
    if left > 2 and rng.random() < 0.4:
        k = rng.randrange(1, left - 1); parts.append([4, k]); left -= k  # soft clip
    while left > 0:
        k = rng.randrange(1, left + 1)
        parts.append([rng.choice([0, 0, 0, 1, 7, 8]), k]); left -= k
        if left > 0 and rng.random() < 0.5:
            parts.append([rng.choice([2, 3, 6]), rng.randrange(1, 5)])
    if rng.random() < 0.3:
        parts.append([5, rng.randrange(1, 6)])
    return parts


def base_text(case):
    lines = ([case["header"]] if case["header"] is not None else []) + ["\t".join(r) for r in case["rows"]]
    return "".join(l + "\n" for l in lines)


QUIRKS = ["crlf", "cr", "no-final-newline", "trailing-space", "leading-space", "leading-space-header", "blank-line",
          "blank-line-end", "extra-column", "empty-last-column", "short-line", "first-line-wide", "header-narrow",
          "hash-first-name", "inner-space", "unicode-name", "mixed-newlines", "third-column-only",
          "hash-name-line", "header-repeated", "comment-line"]


def perturb_text(rng, case):
    """the list file verbatim, with one perturbation of the layout that the code's `strip()/split("\\t")` reading, its
    header test on the raw first line or its column-count test react to"""
    lines = ([case["header"]] if case["header"] is not None else []) + ["\t".join(r) for r in case["rows"]]
    q = rng.choice(QUIRKS)
    nl, final = "\n", True
    data0 = 1 if case["header"] is not None else 0
    ndata = len(lines) - data0
    pick = (data0 + rng.randrange(ndata)) if ndata else None
    four = bool(case["rows"]) and len(case["rows"][0]) >= 4
    if q == "crlf":
        nl = "\r\n"
    elif q == "cr":
        nl = "\r"
    elif q == "no-final-newline":
        final = False
    elif q == "trailing-space" and pick is not None:
        lines[pick] += rng.choice([" ", "\t", "\x0b", "\xa0", " \t ", "\x1f"])
    elif q == "leading-space" and pick is not None:
        lines[pick] = rng.choice([" ", "\t", "\xa0"]) + lines[pick]
    elif q == "leading-space-header" and case["header"] is not None:
        lines[0] = " " + lines[0]
    elif q == "blank-line" and lines:
        lines.insert(rng.randrange(len(lines) + 1), rng.choice(["", " ", "\t"]))
    elif q == "blank-line-end":
        lines.append("")
    elif q == "extra-column" and lines:
        for i in range(len(lines)):
            if rng.random() < 0.6:
                lines[i] += "\textra"
    elif q == "empty-last-column" and pick is not None and four:
        c = lines[pick].split("\t"); c[3] = ""; lines[pick] = "\t".join(c)
    elif q == "short-line" and pick is not None:
        c = lines[pick].split("\t"); lines[pick] = "\t".join(c[:(2 if four else 1)])
    elif q == "first-line-wide" and lines and not four:
        lines[0] += "\tphaseset\tchromosome"
    elif q == "header-narrow" and case["header"] is not None and four:
        lines[0] = "#readname\thaplotype"
    elif q == "hash-first-name" and case["header"] is None and lines:
        lines[0] = "#" + lines[0]
    elif q == "inner-space" and pick is not None:
        c = lines[pick].split("\t"); c[0] = c[0][:2] + " " + c[0][2:]; lines[pick] = "\t".join(c)
    elif q == "unicode-name" and pick is not None:
        c = lines[pick].split("\t"); c[0] = "ré" + c[0] + "ß"; lines[pick] = "\t".join(c)
    elif q == "mixed-newlines":
        text = "".join(l + rng.choice(["\n", "\r\n", "\r"]) for l in lines)
        return text, q
    elif q == "third-column-only" and lines and not four:
        lines = [l + "\tx" for l in lines]
    elif q == "hash-name-line" and pick is not None:
        # the read named on a data line (any position) gets a name starting with '#', in the list and in the reads
        c = lines[pick].split("\t"); old = c[0]; new = rng.choice(["#", "#", "##", "#@"]) + old
        lines = ["\t".join([new] + l.split("\t")[1:]) if (i >= data0 and l.split("\t")[0] == old) else l
                 for i, l in enumerate(lines)]
        for r in case["reads"]:
            if r["name"] == old:
                r["name"] = new[:254]
    elif q == "header-repeated" and lines:
        # a header-like line further down is a data line (only line 1 can be the header)
        lines.insert(1 + rng.randrange(len(lines)), case["header"] if case["header"] is not None else
                     "#readname\thaplotype" + ("\tphaseset\tchromosome" if four else ""))
    elif q == "comment-line" and lines:
        lines.insert(1 + rng.randrange(len(lines)), rng.choice(["#", "# comment", "#comment\tH1", "#\tnone", "#x\tH1\t100\tchr1"]))
    else:
        q = "none"
    text = nl.join(lines) + (nl if (final and lines) else "")
    return text, q


def list_text(case):
    return case["text"] if case.get("text") is not None else base_text(case)


def fastq_record(r):
    head = "@" + r["name"] + (" " + r["comment"] if r.get("comment") else "")
    return head + "\n" + r["seq"] + "\n+\n" + "I" * len(r["seq"]) + "\n"


def write_inputs(case, d):
    """writes reads + list; returns (reads path, list path)"""
    lp = os.path.join(d, "list.tsv" + (".gz" if case.get("list_gz") else ""))
    data = list_text(case).encode("utf-8")
    with (gzip.open(lp, "wb") if case.get("list_gz") else open(lp, "wb")) as f:
        f.write(data)
    rp = os.path.join(d, "reads." + case["fmt"])
    if case["fmt"] == "bam":
        header = {"HD": {"VN": "1.6", "SO": "unsorted"}, "SQ": [{"SN": n, "LN": len(s)} for n, s in CONTIGS.items()]}
        with pysam.AlignmentFile(rp, "wb", header=header) as out:
            for i, r in enumerate(case["reads"]):
                a = pysam.AlignedSegment(out.header)
                a.query_name = r["name"]
                a.query_sequence = r["seq"]
                if r["seq"] is not None:
                    a.query_qualities = pysam.qualitystring_to_array("I" * len(r["seq"]))
                if r["mapped"]:
                    a.flag = 0; a.reference_id = 0; a.reference_start = 10 + 7 * i; a.mapping_quality = 60
                    a.cigartuples = [tuple(x) for x in r["cigar"]] if r.get("cigar") else [(0, r["cigar_len"])]
                else:
                    a.flag = 4
                if r.get("flag"):
                    a.flag |= r["flag"]
                a.set_tag("ix", i)
                out.write(a)
    else:
        text = "".join(fastq_record(r) for r in case["reads"])
        if case["fmt"].endswith(".gz"):
            with gzip.open(rp, "wt") as f:
                f.write(text)
        else:
            open(rp, "w").write(text)
    return rp, lp


def read_records(path, fmt):
    """independent reader: list of (text identifying the whole record, length)"""
    if not os.path.exists(path):
        return None
    try:
        return _read_records(path, fmt)
    except (OSError, ValueError, EOFError) as e:     # not a gzip / BAM file at all (e.g. appended to a stale file)
        return [("<unreadable output file: %s>" % type(e).__name__, -1)]


def _read_records(path, fmt):
    out = []
    if fmt == "bam":
        with pysam.AlignmentFile(path, "rb", check_sq=False) as af:
            for rec in af.fetch(until_eof=True):
                if rec.query_sequence is not None:
                    L = len(rec.query_sequence)
                elif rec.cigartuples:
                    L = sum(n for op, n in rec.cigartuples if op in (0, 1, 4, 7, 8))
                else:
                    L = 0
                out.append((rec.to_string(), L))
    else:
        op = gzip.open if path.endswith(".gz") else open
        with op(path, "rt") as f:
            lines = f.read().split("\n")
        if lines and lines[-1] == "":
            lines.pop()
        if len(lines) % 4:
            return [("<malformed fastq: %d lines>" % len(lines), -1)]
        for i in range(0, len(lines), 4):
            out.append(("\n".join(lines[i:i + 4]) + "\n", len(lines[i + 1])))
    return out


def cli_args(case, d, rp, lp):
    """returns (argv, {sink index: output path})"""
    ext = case["fmt"]
    paths = {}
    args = ["split"]
    if case.get("args"):
        rest = []
        if case["args"] == "untagged-only":
            rest = ["--output-untagged", os.path.join(d, f"untagged.{ext}")]
        elif case["args"] == "h1+o":
            rest = ["--output-h1", os.path.join(d, f"h1.{ext}"), "-o", os.path.join(d, f"o1.{ext}")]
        hist = os.path.join(d, "hist.tsv")
        return args + rest + ["--read-lengths-histogram", hist, rp, lp], {}, hist
    if case["mode"] == "h12":
        for k, opt in ((1, "--output-h1"), (2, "--output-h2")):
            if case["requested"][k]:
                paths[k] = os.path.join(d, f"h{k}.{ext}")
                args += [opt, paths[k]]
    else:
        for k in range(1, case["ploidy"] + 1):
            paths[k] = os.path.join(d, f"h{k}.{ext}")
            args += ["-o", paths[k]]
    if case["requested"][0]:
        paths[0] = os.path.join(d, f"untagged.{ext}")
        args += ["--output-untagged", paths[0]]
    if case["add"]:
        args.append("--add-untagged")
    if case["discard"]:
        args.append("--discard-unknown-reads")
    if case["largest"]:
        args.append("--only-largest-block")
    hist = os.path.join(d, "hist.tsv")
    args += ["--read-lengths-histogram", hist, rp, lp]
    if case.get("pre"):
        for p in list(paths.values()) + [hist]:
            with open(p, "wb") as f:
                f.write(b"@stale\nACGTACGTACGTACGTACGTACGTACGTACGTACGTACGTACGT\n+\nIIIIIIIIIIIIIIIIIIIIIIIIIIIIIIIIIIIIIIIIIIII\n" * 50)
    return args, paths, hist


def out_args(case):
    """the output options as the model sees them"""
    if case.get("args") == "none":
        return {"h1": False, "h2": False, "untagged": False}
    if case.get("args") == "untagged-only":
        return {"h1": False, "h2": False, "untagged": True}
    if case.get("args") == "h1+o":
        return {"h1": True, "h2": False, "outs": 1, "untagged": False}
    if case["mode"] == "h12":
        return {"h1": case["requested"][1], "h2": case["requested"][2], "untagged": case["requested"][0]}
    return {"h1": False, "h2": False, "outs": case["ploidy"], "untagged": case["requested"][0]}

"""Generator and file helpers for C14 (`whatshap split`).

A case (JSON-serialisable; replay never needs the PRNG):
  {"fmt": "fastq"|"fastq.gz"|"bam",
   "reads": [{"name", "seq" (None = no sequence, BAM only), "comment" (FASTQ), "mapped": bool, "cigar_len": int|None}],
   "header": str|None, "rows": [[columns]]            -- the haplotag list, tab-separated columns
   "ploidy": int, "mode": "h12"|"o", "requested": [untagged, H1, ..] booleans,
   "add": bool, "discard": bool, "largest": bool}
"""
import gzip, os

import pysam

BASES = "ACGT"
CONTIGS = {"chr1": "A" * 5000}


def gen_case(rng, scale=1, combo=None):
    """combo (0..15) stratifies the option table: bit0 add, bit1 discard, bit2 largest, bit3 untagged output requested"""
    fmt = rng.choice(["fastq", "fastq", "fastq.gz", "bam", "bam"])
    ploidy = rng.choice([2, 2, 2, 3, 4])
    mode = "h12" if ploidy == 2 and rng.random() < 0.5 else "o"
    n = rng.choice([0, 2, 3, 5, 8, 8, 12, 12, 20, 30]) * scale
    lens = [rng.choice([3, 4, 5, 8, 12]) for _ in range(4)] + [rng.randrange(1, 70) for _ in range(3)]
    pool = [f"read{i}" for i in range(max(3, n))]
    reads = []
    discard = rng.random() < 0.4 if combo is None else bool(combo & 2)
    dup_reads = rng.random() < (0.7 if discard else 0.4)
    for i in range(n):
        name = rng.choice(pool[:max(1, n // 2)]) if (dup_reads and rng.random() < 0.3) else pool[i]
        L = rng.choice(lens)
        r = {"name": name, "seq": "".join(rng.choice(BASES) for _ in range(L)), "comment": None, "mapped": False,
             "cigar_len": None}
        if fmt == "bam":
            x = rng.random()
            if x < 0.2:
                r["mapped"] = True; r["cigar_len"] = L
            if rng.random() < 0.2:
                r["seq"] = None                      # no sequence: length inferred from CIGAR, else 0
                if r["mapped"] and rng.random() < 0.3:
                    r["cigar_len"] = rng.choice(lens)
        elif rng.random() < 0.2:
            r["comment"] = rng.choice(["ccs np=7", "1:N:0", "x"])
        reads.append(r)
    # the list
    want_largest = rng.random() < 0.2 if combo is None else bool(combo & 4)
    four = rng.random() < 0.5 or (want_largest and rng.random() < 0.96)
    header = None
    if rng.random() < 0.5:
        header = "#readname\thaplotype" + ("\tphaseset\tchromosome" if four else "")
    names_in_reads = sorted({r["name"] for r in reads})
    p_listed = rng.choice([0.3, 0.7, 1.0])
    listed = [nm for nm in names_in_reads if rng.random() < p_listed]
    listed += [f"absent{i}" for i in range(rng.choice([0, 0, 1, 3]) or (0 if listed else 1))]
    rng.shuffle(listed)
    dup_list = rng.random() < 0.06 and listed
    if dup_list:
        listed += [rng.choice(listed) for _ in range(rng.choice([1, 2]))]
    bad_hap = rng.random() < 0.04
    n_chrom = rng.choice([1, 1, 2])
    n_ps = rng.choice([1, 2, 3])
    rows = []
    for nm in listed:
        h = rng.choice(["none"] + [f"H{i}" for i in range(1, ploidy + 1)] * 2)
        if bad_hap and rng.random() < 0.3:
            h = f"H{ploidy + 1}"
        row = [nm, h]
        if four:
            if h == "none":
                row += ["none", f"chr{rng.randrange(n_chrom) + 1}"]
            else:
                row += [str(100 * (rng.randrange(n_ps) + 1)), f"chr{rng.randrange(n_chrom) + 1}"]
        rows.append(row)
    if rng.random() < 0.04:
        rows = []
    largest = want_largest
    add = rng.random() < 0.3 if combo is None else bool(combo & 1)
    want_untagged = rng.random() < 0.7 if combo is None else bool(combo & 8)
    if mode == "h12":
        requested = [want_untagged, rng.random() < 0.8, rng.random() < 0.8]
        if not (requested[1] or requested[2]):
            requested[rng.choice([1, 2])] = True
    else:
        requested = [want_untagged] + [True] * ploidy
    return {"fmt": fmt, "reads": reads, "header": header, "rows": rows, "ploidy": ploidy, "mode": mode,
            "requested": requested, "add": add, "discard": discard, "largest": largest}


def fastq_record(r):
    head = "@" + r["name"] + (" " + r["comment"] if r.get("comment") else "")
    return head + "\n" + r["seq"] + "\n+\n" + "I" * len(r["seq"]) + "\n"


def write_inputs(case, d):
    """writes reads + list; returns (reads path, list path)"""
    lp = os.path.join(d, "list.tsv")
    with open(lp, "w") as f:
        if case["header"] is not None:
            f.write(case["header"] + "\n")
        for row in case["rows"]:
            f.write("\t".join(row) + "\n")
    rp = os.path.join(d, "reads." + case["fmt"])
    if case["fmt"] == "bam":
        header = {"HD": {"VN": "1.6", "SO": "unsorted"}, "SQ": [{"SN": n, "LN": len(s)} for n, s in CONTIGS.items()]}
        with pysam.AlignmentFile(rp, "wb", header=header) as out:
            for i, r in enumerate(case["reads"]):
                a = pysam.AlignedSegment(out.header)
                a.query_name = r["name"]
                a.query_sequence = r["seq"]
                if r["seq"] is not None:
                    a.query_qualities = pysam.qualitystring_to_array("I" * len(r["seq"]))
                if r["mapped"]:
                    a.flag = 0; a.reference_id = 0; a.reference_start = 10 + 7 * i; a.mapping_quality = 60
                    a.cigartuples = [(0, r["cigar_len"])]
                else:
                    a.flag = 4
                a.set_tag("ix", i)
                out.write(a)
    else:
        text = "".join(fastq_record(r) for r in case["reads"])
        if case["fmt"].endswith(".gz"):
            with gzip.open(rp, "wt") as f:
                f.write(text)
        else:
            open(rp, "w").write(text)
    return rp, lp


def read_records(path, fmt):
    """independent reader: list of (text identifying the whole record, length)"""
    if not os.path.exists(path):
        return None
    out = []
    if fmt == "bam":
        with pysam.AlignmentFile(path, "rb", check_sq=False) as af:
            for rec in af.fetch(until_eof=True):
                if rec.query_sequence is not None:
                    L = len(rec.query_sequence)
                elif rec.cigartuples:
                    L = sum(n for op, n in rec.cigartuples if op in (0, 1, 4, 7, 8))
                else:
                    L = 0
                out.append((rec.to_string(), L))
    else:
        op = gzip.open if path.endswith(".gz") else open
        with op(path, "rt") as f:
            lines = f.read().split("\n")
        if lines and lines[-1] == "":
            lines.pop()
        if len(lines) % 4:
            return [("<malformed fastq: %d lines>" % len(lines), -1)]
        for i in range(0, len(lines), 4):
            out.append(("\n".join(lines[i:i + 4]) + "\n", len(lines[i + 1])))
    return out


def cli_args(case, d, rp, lp):
    """returns (argv, {sink index: output path})"""
    ext = case["fmt"]
    paths = {}
    args = ["split"]
    if case["mode"] == "h12":
        for k, opt in ((1, "--output-h1"), (2, "--output-h2")):
            if case["requested"][k]:
                paths[k] = os.path.join(d, f"h{k}.{ext}")
                args += [opt, paths[k]]
    else:
        for k in range(1, case["ploidy"] + 1):
            paths[k] = os.path.join(d, f"h{k}.{ext}")
            args += ["-o", paths[k]]
    if case["requested"][0]:
        paths[0] = os.path.join(d, f"untagged.{ext}")
        args += ["--output-untagged", paths[0]]
    if case["add"]:
        args.append("--add-untagged")
    if case["discard"]:
        args.append("--discard-unknown-reads")
    if case["largest"]:
        args.append("--only-largest-block")
    hist = os.path.join(d, "hist.tsv")
    args += ["--read-lengths-histogram", hist, rp, lp]
    return args, paths, hist

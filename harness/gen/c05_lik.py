"""C05, `--distrust-genotypes`: genotype likelihoods (PL / GL) for a family case of c05_ped, genotyping errors that the
reads can correct, and the VCF with the extra FORMAT fields.

case["pl"] = {sample: [None | [pl00, pl01, pl11] per variant]}   (None: the record carries no likelihoods for anybody)
case["lik_field"] = "PL" | "GL"
"""
import os

from . import sim
from . import c05_ped as G

GT_INDEX = {"0/0": 0, "0/1": 1, "1/1": 2, "1/0": 1}


def add_likelihoods(rng, case, error_prob=0.12, no_pl_prob=0.15, field=None):
    """per record either no likelihoods at all, or a PL triple for every sample: 0 at the called genotype and phred
    distances elsewhere (strong, weak, or tied); with `error_prob` the CALLED genotype of a sample is replaced by a wrong one
    whose PL is only weakly better than the true genotype's, so that reads (which copy the true haplotypes) overrule it"""
    n = len(case["variants"])
    case["lik_field"] = field or rng.choice(["PL", "PL", "GL"])
    pl = {s: [None] * n for s in case["samples"]}
    for i in range(n):
        if any(case["gt"][s][i] not in GT_INDEX for s in case["samples"]) or rng.random() < no_pl_prob:
            continue        # a record with a missing genotype carries GT only (PL '.' is not accepted by whatshap)
        for s in case["samples"]:
            g = GT_INDEX[case["gt"][s][i]]
            style = rng.choice(["strong", "strong", "weak", "weak", "tied", "any"])
            if rng.random() < error_prob:
                wrong = rng.choice([x for x in range(3) if x != g])
                case["gt"][s][i] = G.GT_OF[wrong]
                x = [rng.randrange(20, 80) for _ in range(3)]
                x[wrong] = 0
                x[g] = rng.randrange(0, 12)
            elif style == "strong":
                x = [rng.randrange(25, 99) for _ in range(3)]; x[g] = 0
            elif style == "weak":
                x = [rng.randrange(1, 12) for _ in range(3)]; x[g] = 0
            elif style == "tied":
                x = [rng.choice([0, 0, 3, 10]) for _ in range(3)]; x[g] = 0
            else:
                x = [rng.randrange(0, 60) for _ in range(3)]
            pl[s][i] = x
    case["pl"] = pl


def gl_string(x):
    """GL = log10 likelihoods; written with one decimal so that PL = -10 * GL exactly in decimal"""
    return ",".join("0" if v == 0 else f"-{v // 10}.{v % 10}" for v in x)


def write_case(case, d, prefix="in"):
    """as c05_ped.write_case, the VCF with PL (or GL) where the case has likelihoods"""
    paths = G.write_case(case, d, prefix=prefix)
    field = case.get("lik_field", "PL")
    pkeys = G.phase_format_keys(case)
    recs = []
    for i, v in enumerate(case["variants"]):
        has = all(case["pl"][s][i] is not None for s in case["samples"])
        calls = []
        for s in case["samples"]:
            c = G.phased_call(case, s, i)
            if has:
                c[field] = ",".join(str(x) for x in case["pl"][s][i]) if field == "PL" else gl_string(case["pl"][s][i])
            calls.append(c)
        recs.append({"chrom": case["contig"], "pos": v["pos"], "ref": v["ref"], "alts": [v["alt"]], "calls": calls,
                     "format": (["GT", field] if has else ["GT"]) + pkeys})
    contigs = {case["contig"]: case["seq"]}
    if any("qual" in r for r in case["reads"]):
        # hand-written cases give per-base qualities (the weight of a read's allele in the solver)
        reads = [{"name": r["name"], "chrom": case["contig"], "start": r["start"], "cigar": [tuple(c) for c in r["cigar"]],
                  "seq": r["seq"], "qual": r.get("qual", 30), "rg": "rg_" + r["sample"], "flag": r.get("flag", 0),
                  "mapq": r.get("mapq", 60)} for r in case["reads"]]
        sim.write_bam(paths["bam"], contigs, reads, [("rg_" + s, s) for s in case["samples"]])
    defs = {"PL": '##FORMAT=<ID=PL,Number=G,Type=Integer,Description="Phred-scaled genotype likelihoods">',
            "GL": '##FORMAT=<ID=GL,Number=G,Type=Float,Description="log10 genotype likelihoods">'}
    defs.update(G.PHASE_FMT_DEFS)
    sim.write_vcf(paths["vcf"], contigs, case["samples"], recs, fmt_defs={k: defs[k] for k in [field] + pkeys})
    return paths

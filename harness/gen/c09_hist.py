"""Inputs for the C09 pipeline histories: unrelated samples on 1-2 chromosomes; the variant file mixes `0/1`
and `1/0` unphased genotypes, optionally carries pre-existing phase information (PS, HP, or a different one
per sample) and decoy records (multi-ALT and duplicate-position records carrying phase information of their
own).  Deterministic in the case's `gen_seed`."""
import os
import random

from . import sim
from .c20_ped import PedScenario
from . import c09_layout as L

FMT_DEFS = {
    "PS": '##FORMAT=<ID=PS,Number=1,Type=Integer,Description="Phase set identifier">',
    "HP": '##FORMAT=<ID=HP,Number=.,Type=String,Description="Phasing haplotype identifier">',
    "DP": '##FORMAT=<ID=DP,Number=1,Type=Integer,Description="Depth">',
}


def gen_case(rng, scale=1):
    params = dict(n_contigs=rng.choice([1, 2, 2]), n_trios=0, quartet=False, n_singles=rng.choice([1, 2, 2, 3, 4]),
                  n_variants=[4, 7 + 2 * scale], depth=[3, 6], read_len=[130, 380], het_prob=rng.choice([0.6, 0.8, 0.95]),
                  recomb_prob=0.0, kinds=rng.choice([["snv"], ["snv"], ["snv", "snv", "ins", "del"]]),
                  shuffle_samples=False)
    distrust = rng.random() < 0.3
    params["gt_error_prob"] = rng.choice([0.1, 0.2]) if distrust else 0.0
    seed = rng.randrange(1 << 40)
    # positions of different contigs that coincide on purpose (c09_layout): same sites on all contigs, identical contigs, last
    # phased position of contig i == first phased position of contig i+1
    layout = L.pick_layout(seed)
    if not L.is_plain(layout):
        params["n_contigs"] = layout["contigs"]
    return {"kind": "history", "gen_seed": seed, "params": params, "layout": layout,
            "vcf": {"flip_prob": rng.choice([0.0, 0.5, 0.5, 1.0]), "pre": rng.choice(["none", "none", "PS", "HP", "per-sample"]),
                    "decoys": rng.random() < 0.5, "dp": rng.random() < 0.5,
                    # one sample has no reads on the last contig (a family without accessible positions there)
                    "noreads": rng.random() < 0.25},
            "opts": {"tag1": rng.choice(["PS", "HP"]), "distrust": distrust, "include_hom": bool(distrust and rng.random() < 0.4),
                     "subset": rng.random() < 0.3, "only_snvs": rng.random() < 0.2,
                     # run C restricted to the first chromosome; run E = re-phase C back with the first tag (PS -> HP -> PS)
                     "chrom_subset": rng.random() < 0.4, "back": rng.random() < 0.6,
                     # run Q with an explicit coverage cap (--internal-downsampling); None = the documented default of 15
                     "q_k": rng.choice([None, None, None, 1, 2, 3, 4, 7, 15, 16])}}


def build_inputs(case, d):
    """writes reference, BAM and the variant file of a case; returns (fa, bam, vcf, scenario)"""
    sc = PedScenario(random.Random(case["gen_seed"]), **case["params"])
    L.layout_scenario(sc, case.get("layout"), case["opts"]["only_snvs"], case["gen_seed"])
    rng = random.Random(case["gen_seed"] ^ 0xC09)
    v = case["vcf"]
    recs = []
    keys = ["GT"] + (["DP"] if v["dp"] else [])
    pre_of = {}
    for i, s in enumerate(sc.samples):
        pre_of[s] = {"none": None, "PS": "PS", "HP": "HP", "per-sample": ["PS", "HP", None][i % 3]}[v["pre"]]
    use_ps = any(p == "PS" for p in pre_of.values()) or v["decoys"]
    use_hp = any(p == "HP" for p in pre_of.values())
    fmt = keys + (["PS"] if use_ps else []) + (["HP"] if use_hp else [])
    for r in sc.vcf_records():
        block = rng.choice([5, 17, 1000])
        calls = []
        for s, c in zip(sc.samples, r["calls"]):
            a, b = c["GT"].split("/")
            call = {"DP": str(rng.randrange(1, 60))}
            het = a != b
            if het and rng.random() < v["flip_prob"]:
                a, b = b, a
            pre = pre_of[s]
            if het and pre == "PS" and rng.random() < 0.8:
                if rng.random() < 0.5:
                    a, b = b, a
                call["GT"] = f"{a}|{b}"; call["PS"] = str(block)
            elif het and pre == "HP" and rng.random() < 0.8:
                x, y = sorted((a, b))
                call["GT"] = f"{x}/{y}"
                call["HP"] = rng.choice([f"{block}-1,{block}-2", f"{block}-2,{block}-1"])
            else:
                call["GT"] = f"{a}/{b}"
                if not het and pre == "PS" and rng.random() < 0.3:
                    call["GT"] = f"{a}|{b}"          # phased homozygous call
            calls.append(call)
        recs.append(dict(r, calls=calls, format=fmt))
        if v["decoys"] and rng.random() < 0.35:
            # duplicate position with another ALT, carrying its own (stale) phase
            alt2 = rng.choice([x for x in "ACGT" if x != r["ref"][0] and x != r["alts"][0][0]])
            recs.append({"chrom": r["chrom"], "pos": r["pos"], "ref": r["ref"][0], "alts": [alt2], "format": fmt,
                         "calls": [{"GT": rng.choice(["0|1", "1|0", "0/1"]), "PS": "77", "DP": "3",
                                    "HP": "77-2,77-1" if use_hp and rng.random() < 0.5 else "."} for _ in sc.samples]})
        if v["decoys"] and rng.random() < 0.35:
            # multi-ALT record a few bases downstream
            p = r["pos"] + len(r["ref"]) + 3
            seq = sc.contigs[r["chrom"]]
            if p < len(seq) - 5:
                ref = seq[p]
                alts = [x for x in "ACGT" if x != ref][:2]
                recs.append({"chrom": r["chrom"], "pos": p, "ref": ref, "alts": alts, "format": fmt,
                             "calls": [{"GT": rng.choice(["1|2", "2|1", "0|2", "1/2"]), "PS": "88", "DP": "4",
                                        "HP": "88-1,88-2" if use_hp and rng.random() < 0.5 else "."} for _ in sc.samples]})
    os.makedirs(d, exist_ok=True)
    fa, bam, vcf = (os.path.join(d, "in" + e) for e in (".fasta", ".bam", ".vcf"))
    sim.write_fasta(fa, sc.contigs)
    reads = sc.reads
    if v.get("noreads") and (len(sc.samples) > 1 or len(sc.contigs) > 1):
        last = list(sc.contigs)[-1]
        reads = [r for r in reads if not (r["sample"] == sc.samples[-1] and r["chrom"] == last)]
    sim.write_bam(bam, sc.contigs, reads, [("rg_" + s, s) for s in sc.samples])
    sim.write_vcf(vcf, sc.contigs, sc.samples, recs, fmt_defs={k: FMT_DEFS[k] for k in fmt if k in FMT_DEFS})
    return fa, bam, vcf, sc


# ------------------------------------------------------------------------------------------------
# generator-written phased VCFs with interleaved / nested phase sets (phase input of run Q)
# ------------------------------------------------------------------------------------------------

def gen_interleaved_case(rng, cli=True):
    case = {"kind": "interleaved", "gen_seed": rng.randrange(1 << 40), "cli": cli,
            "n_samples": rng.choice([1, 2, 3]), "n_contigs": rng.choice([1, 1, 2]), "n_variants": rng.choice([7, 9, 12, 14]),
            "enc": rng.choice(["PS", "HP"]), "tag": rng.choice(["PS", "HP"]),
            "pattern": rng.choice(["interleaved", "interleaved", "nested", "nested", "mixed", "contiguous"]),
            "v_noise": rng.choice([0.0, 0.1]), "only_snvs": rng.random() < 0.15}
    case["layout"] = L.pick_layout(case["gen_seed"], p_plain=0.5)
    if not L.is_plain(case["layout"]):
        case["n_contigs"] = case["layout"]["contigs"]
    return case


DEFAULT_CAP = 15          # documented default of --internal-downsampling


def gen_stack_case(rng, cli=True, quick=True):
    """2-4 (sometimes 1) unrelated samples in one VCF, per sample a number of MUTUALLY OVERLAPPING phase sets between 2 and the
    coverage cap k (--internal-downsampling k; None = not given = 15) and a little beyond it; a pseudo-read run needs one read
    per set at a position that all sets span, so whether the sets fit depends on k and on how many sets overlap - and not on how
    many samples, contigs or sets the file has"""
    k = rng.choice([None, None, None] + [rng.randrange(2, 13 if quick else 16)] * 3)
    cap = DEFAULT_CAP if k is None else k
    n_samples = rng.choice([1, 2, 2, 2, 3, 3, 4])
    m = [max(2, rng.choice([cap, cap, cap, cap - 1, rng.randrange(2, cap + 1), rng.randrange(2, cap + 1), cap + 1, cap + 3]))
         for _ in range(n_samples)]
    case = {"kind": "interleaved", "gen_seed": rng.randrange(1 << 40), "cli": cli, "pattern": "stack",
            "n_samples": n_samples, "n_contigs": rng.choice([1, 1, 1, 2]), "k": k, "stack_m": m,
            "n_variants": 0, "het9": True, "stack_groups": rng.choice([1, 1, 1, 2]),
            "p_phase": rng.choice([1.0, 1.0, 0.95]), "enc": rng.choice(["PS", "HP"]), "tag": rng.choice(["PS", "HP"]),
            "v_noise": rng.choice([0.0, 0.0, 0.03]), "only_snvs": rng.random() < 0.15}
    # (9 of 11 genotypes are heterozygous; every group of mutually overlapping sets needs 2 * m heterozygous variants)
    case["n_variants"] = case["stack_groups"] * (int(2 * max(m) * 1.3) + rng.choice([2, 5, 9]))
    case["layout"] = L.pick_layout(case["gen_seed"], p_plain=0.7)
    if not L.is_plain(case["layout"]):
        case["n_contigs"] = 2
        case["layout"]["contigs"] = 2
    return case


def _stack_sets(rng, het_idx, m, groups=1):
    """`groups` consecutive groups of m sets each; the sets of a group all overlap each other (more sets than the cap in the
    file, but never more than m over one position)"""
    if groups > 1:
        cut = len(het_idx) // groups
        out = {}
        for g in range(groups):
            part = het_idx[g * cut:(g + 1) * cut] if g < groups - 1 else het_idx[g * cut:]
            for i, b in _stack_sets(rng, part, m).items():
                out[i] = b + g * m
        return out
    return _stack_group(rng, het_idx, m)


def _stack_group(rng, het_idx, m):
    """m sets that all overlap each other: every set has a member among the first m heterozygous variants and one among the
    last m; what lies between goes to random sets (interleaved)"""
    n = len(het_idx)
    m = max(1, min(m, n // 2))
    head, tail = list(range(m)), list(range(m))
    rng.shuffle(head); rng.shuffle(tail)
    out = {}
    for j, i in enumerate(het_idx):
        if j < m:
            out[i] = head[j]
        elif j >= n - m:
            out[i] = tail[j - (n - m)]
        else:
            out[i] = rng.randrange(m)
    return out


def _assign_sets(rng, het_idx, pattern):
    """{variant index: set number} for the heterozygous variants of one sample on one contig"""
    n = len(het_idx)
    if n == 0:
        return {}
    if pattern == "mixed":
        pattern = rng.choice(["interleaved", "nested", "contiguous"])
    if pattern == "interleaved" or n < 5:
        k = rng.choice([2, 2, 3])
        return {i: rng.randrange(k) for i in het_idx}
    if pattern == "contiguous":
        cut = sorted(rng.sample(range(1, n), min(2, n - 1)))
        return {i: sum(j >= c for c in cut) for j, i in enumerate(het_idx)}
    # nested: A = head + tail, B = a run in the middle, optionally C inside B
    a = rng.randrange(1, n - 3)
    b = rng.randrange(a + 2, n)          # B occupies [a, b), at least 2 members
    out = {}
    for j, i in enumerate(het_idx):
        out[i] = 1 if a <= j < b else 0
    if b - a >= 5 and rng.random() < 0.5:
        c0 = rng.randrange(a + 1, b - 3)
        for j in range(c0, c0 + 2):
            out[het_idx[j]] = 2
    return out


def build_interleaved(case, d):
    """writes V (unphased variant file) and P (the same variants, phased with interleaved / nested sets);
    returns (V path, P path, samples)"""
    rng = random.Random(case["gen_seed"])
    samples = [f"S{i}" for i in range(case["n_samples"])]
    contigs = {f"chr{c + 1}": "N" * (30000 if case["pattern"] == "stack" else 5000) for c in range(case["n_contigs"])}
    enc = case["enc"]
    recs_v, recs_p = [], []
    groups_v, groups_p = [], []
    for chrom in contigs:
        recs_v, recs_p = [], []
        groups_v.append(recs_v); groups_p.append(recs_p)
        pos, sites = 40, []
        for _ in range(case["n_variants"]):
            pos += rng.randrange(25, 90)
            ref = rng.choice("ACGT")
            kind = rng.choice(["snv", "snv", "snv", "ins"])
            alt = rng.choice([x for x in "ACGT" if x != ref]) if kind == "snv" else ref + rng.choice(["A", "CG", "T"])
            sites.append((pos, ref, alt))
        per_sample = []
        for sj, s in enumerate(samples):
            gts = [rng.choice([(0, 1)] * (9 if case.get("het9") else 5) + [(0, 0), (1, 1)]) for _ in sites]
            het_idx = [i for i, g in enumerate(gts) if g == (0, 1)]
            if case["pattern"] == "stack":
                sets = _stack_sets(rng, het_idx, case["stack_m"][sj], case.get("stack_groups", 1))
                ids = rng.sample(range(1, 6000), max(sets.values(), default=0) + 1)
            else:
                sets = _assign_sets(rng, het_idx, case["pattern"])
                ids = rng.sample([3, 17, 250, 999, 4321, 77], 4)
            per_sample.append((gts, sets, ids))
        for i, (pos, ref, alt) in enumerate(sites):
            cv, cp = [], []
            for gts, sets, ids in per_sample:
                a, b = gts[i]
                v_gt = f"{a}/{b}"
                if rng.random() < case["v_noise"]:
                    v_gt = rng.choice(["0/0", "1/1", "./.", "0/1"])      # V disagrees with P: not a shared het variant
                cv.append({"GT": v_gt})
                call = {"GT": f"{a}/{b}", "PS": ".", "HP": "."}
                r = rng.random()
                if i in sets and r < case.get("p_phase", 0.9):
                    block = ids[sets[i]]
                    flip = rng.random() < 0.5
                    if enc == "PS":
                        call["GT"] = "1|0" if flip else "0|1"; call["PS"] = str(block)
                    else:
                        call["HP"] = f"{block}-2,{block}-1" if flip else f"{block}-1,{block}-2"
                elif a == b and enc == "PS" and r < 0.3:
                    call["GT"] = f"{a}|{b}"; call["PS"] = str(ids[0])        # phased homozygous call: not eligible
                cp.append(call)
            recs_v.append({"chrom": chrom, "pos": pos, "ref": ref, "alts": [alt], "format": ["GT"], "calls": cv})
            recs_p.append({"chrom": chrom, "pos": pos, "ref": ref, "alts": [alt], "format": ["GT", enc], "calls": cp})
    # positions of different contigs coincide on purpose (V and P shifted alike; anchors: members of multi-variant sets of P)
    L.layout_parallel(case.get("layout"), [groups_v, groups_p], case["only_snvs"])
    recs_v = [r for g in groups_v for r in g]
    recs_p = [r for g in groups_p for r in g]
    os.makedirs(d, exist_ok=True)
    V, P = os.path.join(d, "V.vcf"), os.path.join(d, "P.vcf")
    sim.write_vcf(V, contigs, samples, recs_v)
    sim.write_vcf(P, contigs, samples, recs_p, fmt_defs={enc: FMT_DEFS[enc]})
    return V, P, samples

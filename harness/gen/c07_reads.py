"""Generators of read-selection instances for C07.

A case is a JSON-able dict
    {"reads": [[positions], [qualities], preferred(0/1)], ...], "k": int, "bridging": bool, "pref_none": bool}
positions strictly increasing, >= 2 per read (the contract of `readselection`).
"""
import itertools


def _positions(rng, n):
    """n distinct increasing genomic positions with irregular gaps"""
    out, p = [], rng.randrange(1, 50)
    for _ in range(n):
        out.append(p)
        p += rng.randrange(1, 60)
    return out


def _read(rng, positions, max_span, gap_prob, quals):
    n = len(positions)
    span = rng.randrange(2, max(3, min(n, max_span) + 1))
    span = min(span, n)
    start = rng.randrange(0, n - span + 1)
    idx = list(range(start, start + span))
    # holes (paired-end / uncovered variants): keep first and last so the span is as drawn
    if len(idx) > 2 and rng.random() < gap_prob:
        inner = [i for i in idx[1:-1] if rng.random() < 0.5]
        idx = [idx[0]] + inner + [idx[-1]]
    pos = [positions[i] for i in idx]
    if rng.random() < 0.5:
        q = [rng.choice(quals)] * len(pos)
    else:
        q = [rng.choice(quals) for _ in pos]
    return [pos, q, 0]


def small_case(rng, max_reads=8):
    """<= max_reads reads over 3..7 positions; duplicates and equal scores are frequent (ties)"""
    npos = rng.randrange(3, 8)
    positions = _positions(rng, npos)
    n = rng.randrange(1, max_reads + 1)
    quals = rng.choice([[1], [1, 2], [1, 2, 3, 10], [0, 5, 30]])
    reads = []
    for _ in range(n):
        if reads and rng.random() < 0.25:
            r = rng.choice(reads)
            reads.append([list(r[0]), list(r[1]), 0])
        else:
            reads.append(_read(rng, positions, rng.choice([2, 3, npos]), 0.3, quals))
    mode = rng.random()
    if mode < 0.45:
        for r in reads:
            r[2] = 1 if rng.random() < rng.choice([0.2, 0.5]) else 0
    return {"reads": reads, "k": rng.choice([1, 1, 2, 2, 3, 3, 4]), "bridging": rng.random() < 0.5,
            "pref_none": rng.random() < 0.5}


def large_case(rng, scale=1):
    """100-200 reads (x scale) over 15..60 positions with interval structure, coverage far above the cap"""
    npos = rng.randrange(15, 61)
    positions = _positions(rng, npos)
    n = rng.randrange(100, 201) * scale
    quals = rng.choice([[1], [10, 20, 30, 40], list(range(0, 60))])
    max_span = rng.choice([3, 6, 12, npos])
    reads = [_read(rng, positions, max_span, rng.choice([0.0, 0.3, 0.8]), quals) for _ in range(n)]
    if rng.random() < 0.5:
        frac = rng.choice([0.02, 0.1, 0.4])
        for r in reads:
            r[2] = 1 if rng.random() < frac else 0
    return {"reads": reads, "k": rng.choice([1, 2, 3, 5, 8, 15, 23]), "bridging": rng.random() < 0.6,
            "pref_none": rng.random() < 0.5}


def medium_case(rng):
    """10-40 reads: too many for exhaustive tie enumeration, small enough to shrink"""
    npos = rng.randrange(4, 16)
    positions = _positions(rng, npos)
    n = rng.randrange(10, 41)
    quals = rng.choice([[1], [1, 2], [10, 20, 30]])
    reads = [_read(rng, positions, rng.choice([2, 3, 5, npos]), 0.3, quals) for _ in range(n)]
    if rng.random() < 0.6:
        frac = rng.choice([0.1, 0.3, 0.6])
        for r in reads:
            r[2] = 1 if rng.random() < frac else 0
    return {"reads": reads, "k": rng.choice([1, 2, 3, 4, 6]), "bridging": rng.random() < 0.5,
            "pref_none": rng.random() < 0.5}


def malformed_case(rng):
    """a read with fewer than two variants among valid ones: `readselection` must raise ValueError"""
    c = small_case(rng, 5)
    bad = rng.randrange(len(c["reads"]) + 1)
    p = rng.randrange(1, 400)
    c["reads"].insert(bad, [[p], [1], 0] if rng.random() < 0.8 else [[], [], 0])
    return c


def exhaustive_cases(max_reads=3, npos=4, ks=(1, 2, 3), quals=(1, 2)):
    """all multisets of <= max_reads reads over `npos` positions (every subset of >= 2 positions, one
    quality per read), every k, with/without bridging, three preferred patterns"""
    positions = [10 * (i + 1) for i in range(npos)]
    types = []
    for m in range(2, npos + 1):
        for sub in itertools.combinations(positions, m):
            for q in quals:
                types.append((list(sub), [q] * m))
    for n in range(1, max_reads + 1):
        for combo in itertools.combinations_with_replacement(range(len(types)), n):
            for k in ks:
                for bridging in (False, True):
                    for pat in range(3):
                        reads = []
                        for j, t in enumerate(combo):
                            pref = 0 if pat == 0 else (1 if (j == 0 if pat == 1 else j % 2 == 1) else 0)
                            reads.append([list(types[t][0]), list(types[t][1]), pref])
                        if pat == 2 and n < 2:
                            continue
                        yield {"reads": reads, "k": k, "bridging": bridging, "pref_none": pat == 0}

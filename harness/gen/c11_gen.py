"""C11 generators and the independent brute-force oracle (definitions of the numbers `whatshap compare` reports).

Nothing here imports whatshap or talks to the Lean model.  Haplotypes are lists of small ints.

Definitions (oracle):
* correspondence = bijection sigma of the haplotypes; haplotype j of phasing 1 <-> haplotype sigma[j] of phasing 0
* Hamming numerator  = min over sigma of sum_j hamming(ph1[j], ph0[sigma[j]])            (reported / ploidy)
* objective(sc, fc)  = min over sequences (sigma_i)_i of
                       sc * sum_i #{j: sigma_i[j] != sigma_{i-1}[j]} + fc * sum_i #{j: ph0[sigma_i[j]][i] != ph1[j][i]}
  together with the set of (switches, flips) of all optimal sequences
* switch errors      = objective(1, prohibitive) on the genotype-matching positions (flips forced to 0)
* switch/flip        = objective(1, 1) on all positions
* different genotypes= positions whose allele multisets differ
True brute force enumerates all (p!)^n sequences; beyond a size limit the same objective is computed by a
plain (un-pruned) Viterbi recursion over all permutations, which is cross-checked against the enumeration
on every small case.
"""
import itertools
from collections import Counter
from fractions import Fraction

BRUTE_LIMIT = 20000


def hd(a, b):
    return sum(x != y for x, y in zip(a, b))


def min_hamming_num(ph0, ph1):
    p = len(ph0)
    return min(sum(hd(ph1[j], ph0[s[j]]) for j in range(p)) for s in itertools.permutations(range(p)))


def diff_genotypes(ph0, ph1):
    n = len(ph0[0])
    return sum(Counter(h[i] for h in ph0) != Counter(h[i] for h in ph1) for i in range(n))


def matching_positions(ph0, ph1):
    n = len(ph0[0])
    return [i for i in range(n) if Counter(h[i] for h in ph0) == Counter(h[i] for h in ph1)]


def _flips(s, ph0, ph1, i):
    return sum(ph0[s[j]][i] != ph1[j][i] for j in range(len(s)))


def objective_enum(ph0, ph1, sc, fc):
    """true brute force: every sequence of correspondences (depth-first, costs accumulated along the way)"""
    p, n = len(ph0), len(ph0[0])
    perms = list(itertools.permutations(range(p)))
    P = len(perms)
    fl = [[_flips(s, ph0, ph1, i) for s in perms] for i in range(n)]
    dist = [[hd(a, b) for b in perms] for a in perms]
    best, pairs = [None], set()

    def rec(i, last, sw, f):
        if i == n:
            c = sc * sw + fc * f
            if best[0] is None or c < best[0]:
                best[0] = c
                pairs.clear()
                pairs.add((sw, f))
            elif c == best[0]:
                pairs.add((sw, f))
            return
        fi = fl[i]
        if last is None:
            for s in range(P):
                rec(i + 1, s, 0, fi[s])
        else:
            dl = dist[last]
            for s in range(P):
                rec(i + 1, s, sw + dl[s], f + fi[s])
    rec(0, None, 0, 0)
    return best[0], set(pairs)


def objective_viterbi(ph0, ph1, sc, fc):
    p, n = len(ph0), len(ph0[0])
    perms = list(itertools.permutations(range(p)))
    if n == 0:
        return 0, {(0, 0)}
    col = {}
    for s in perms:
        f = _flips(s, ph0, ph1, 0)
        col[s] = (fc * f, {(0, f)})
    for i in range(1, n):
        new = {}
        for r in perms:
            f = _flips(r, ph0, ph1, i)
            best, pairs = None, set()
            for q, (c, ps) in col.items():
                d = hd(r, q)
                v = c + sc * d
                if best is None or v < best:
                    best, pairs = v, {(a + d, b + f) for a, b in ps}
                elif v == best:
                    pairs |= {(a + d, b + f) for a, b in ps}
            new[r] = (best + fc * f, pairs)
        col = new
    m = min(c for c, _ in col.values())
    out = set()
    for c, ps in col.values():
        if c == m:
            out |= ps
    return m, out


def objective(ph0, ph1, sc, fc, force_viterbi=False):
    """(min cost, set of optimal (switches, flips)); brute force when small (and then Viterbi is cross-checked)"""
    p, n = len(ph0), (len(ph0[0]) if ph0 else 0)
    if n == 0:
        return 0, {(0, 0)}
    import math
    if not force_viterbi and math.factorial(p) ** n <= BRUTE_LIMIT:
        r = objective_enum(ph0, ph1, sc, fc)
        v = objective_viterbi(ph0, ph1, sc, fc)
        assert r == v, ("oracle self-check failed", ph0, ph1, sc, fc, r, v)
        return r
    return objective_viterbi(ph0, ph1, sc, fc)


def block_definitions(ph0, ph1):
    """the defined values for one block, as exact numbers:
    dict(hamming=Fraction, switches=Fraction, sf_cost=Fraction, sf_pairs=set of (Fraction,Fraction), diff=int)"""
    p, n = len(ph0), len(ph0[0])
    mp = matching_positions(ph0, ph1)
    m0 = [[h[i] for i in mp] for h in ph0]
    m1 = [[h[i] for i in mp] for h in ph1]
    big = 2 * n * p + 1
    swc, swp = objective(m0, m1, 1, big)
    assert all(f == 0 for _, f in swp), "matching genotypes must allow a flip-free sequence"
    sfc, sfp = objective(ph0, ph1, 1, 1)
    return dict(hamming=Fraction(min_hamming_num(ph0, ph1), p), switches=Fraction(swc, p),
                sf_cost=Fraction(sfc, p), sf_pairs={(Fraction(a, p), Fraction(b, p)) for a, b in sfp},
                diff=n - len(mp), n_matching=len(mp))


# ------------------------------------------------------------------------------------------------
# generators
# ------------------------------------------------------------------------------------------------

def het_column(rng, p):
    while True:
        c = [rng.randrange(2) for _ in range(p)]
        if 0 < sum(c) < p:
            return c


def truth_haps(rng, p, n):
    cols = [het_column(rng, p) for _ in range(n)]
    return [[cols[i][j] for i in range(n)] for j in range(p)]


def perturb(rng, haps, p_switch=0.2, p_flip=0.1, p_geno=0.0):
    """a phasing derived from `haps`: random haplotype switches (a permutation applied from a position on),
    flips (alleles permuted at one position; keeps the genotype) and, with p_geno, a changed genotype"""
    p, n = len(haps), len(haps[0])
    cur = list(range(p))
    out = [[0] * n for _ in range(p)]
    for i in range(n):
        if i > 0 and rng.random() < p_switch:
            a, b = rng.sample(range(p), 2)
            cur[a], cur[b] = cur[b], cur[a]
            if p > 2 and rng.random() < 0.3:
                rng.shuffle(cur)
        col = [haps[cur[j]][i] for j in range(p)]
        if rng.random() < p_flip:
            a, b = rng.sample(range(p), 2)
            col[a], col[b] = col[b], col[a]
            if p > 2 and rng.random() < 0.3:
                rng.shuffle(col)
        if rng.random() < p_geno:
            col = het_column(rng, p)
        for j in range(p):
            out[j][i] = col[j]
    return out


def relabel(haps, sigma):
    return [haps[k] for k in sigma]


class Scenario:
    """k phased VCFs of one sample over a shared variant catalogue.

    files[f][chrom] = list of calls dict(pos, gt(list), phased(bool), ps(int)) in position order
    (a variant may be absent from a file)."""

    def __init__(self, rng, ploidy, n_files, n_chroms=1, n_var=(2, 12), identical=False, interleave=0.15,
                 p_switch=0.2, p_flip=0.1, p_geno=0.0, p_unphased=0.08, p_hom=0.06, p_missing=0.05, cut=0.2):
        self.ploidy, self.n_files = ploidy, n_files
        self.chroms = [f"chr{c + 1}" for c in range(n_chroms)]
        self.contigs = {c: "A" * 2000 for c in self.chroms}
        self.files = [dict() for _ in range(n_files)]
        for c in self.chroms:
            n = rng.randrange(n_var[0], n_var[1] + 1)
            positions = sorted(rng.sample(range(10, 1900), n))
            truth = truth_haps(rng, ploidy, n)
            base = None
            for f in range(n_files):
                if identical and f > 0:
                    calls = [dict(c_) for c_ in base]
                    for c_ in calls:
                        c_["gt"] = list(c_["gt"])
                    self.files[f][c] = calls
                    continue
                ph = perturb(rng, truth, p_switch, p_flip, p_geno)
                # block structure: cut points; occasionally interleaved phase sets
                ps_ids, cur = [], None
                two = rng.random() < interleave
                alt = None
                for i in range(n):
                    if cur is None or rng.random() < cut:
                        cur = positions[i] + 1
                        if two and alt is None:
                            alt = cur
                    ps_ids.append(alt if (two and alt is not None and rng.random() < 0.3) else cur)
                calls = []
                for i in range(n):
                    if rng.random() < p_missing:
                        continue
                    gt = [ph[j][i] for j in range(ploidy)]
                    phased = True
                    r = rng.random()
                    if r < p_unphased:
                        phased = False
                    elif r < p_unphased + p_hom:
                        a = rng.randrange(2)
                        gt = [a] * ploidy
                        phased = rng.random() < 0.5
                    calls.append(dict(pos=positions[i], gt=gt, phased=phased, ps=ps_ids[i]))
                self.files[f][c] = calls
                if f == 0:
                    base = calls

    def relabelled(self, rng, which_files=None):
        """same phasings, haplotypes of every phase set listed in a random different order"""
        import copy
        s = copy.copy(self)
        s.files = []
        for f, tab in enumerate(self.files):
            new = {}
            for c, calls in tab.items():
                sig = {}
                out = []
                for call in calls:
                    if which_files is not None and f not in which_files:
                        out.append(dict(call, gt=list(call["gt"])))
                        continue
                    if call["ps"] not in sig:
                        perm = list(range(self.ploidy))
                        rng.shuffle(perm)
                        sig[call["ps"]] = perm
                    g = call["gt"]
                    if call["phased"]:
                        g = [g[k] for k in sig[call["ps"]]]
                    out.append(dict(call, gt=list(g)))
                new[c] = out
            s.files.append(new)
        return s

    def as_case(self):
        return {"ploidy": self.ploidy, "chroms": self.chroms,
                "files": [{c: [[x["pos"], x["gt"], x["phased"], x["ps"]] for x in calls] for c, calls in tab.items()}
                          for tab in self.files]}

    @staticmethod
    def from_case(case):
        s = Scenario.__new__(Scenario)
        s.ploidy = case["ploidy"]
        s.chroms = list(case["chroms"])
        s.contigs = {c: "A" * 2000 for c in s.chroms}
        s.files = [{c: [dict(pos=x[0], gt=list(x[1]), phased=bool(x[2]), ps=x[3]) for x in calls] for c, calls in tab.items()}
                   for tab in case["files"]]
        s.n_files = len(s.files)
        return s

    def vcf_records(self, f):
        recs = []
        for c in self.chroms:
            for call in self.files[f].get(c, []):
                gt = ("|" if call["phased"] else "/").join(str(a) for a in call["gt"])
                d = {"GT": gt, "PS": str(call["ps"]) if call["phased"] else "."}
                recs.append({"chrom": c, "pos": call["pos"], "ref": "A", "alts": ["C"], "format": ["GT", "PS"], "calls": [d]})
        return recs


PS_DEF = {"PS": '##FORMAT=<ID=PS,Number=1,Type=Integer,Description="Phase set">'}


# ------------------------------------------------------------------------------------------------
# oracle for whole comparisons (independent re-computation from the generated calls)
# ------------------------------------------------------------------------------------------------

def is_het(gt):
    return len(set(gt)) > 1


def joint_blocks(tables):
    """tables: list (per data set) of call lists of one chromosome.
    Returns (common positions sorted, phases per data set aligned to common, ordered list of blocks (index lists))"""
    maps = [{c["pos"]: c for c in t} for t in tables]
    common = sorted(p for p in maps[0] if all(p in m and is_het(m[p]["gt"]) for m in maps))
    phases = [[(m[p]["ps"], m[p]["gt"]) if (m[p]["phased"] and is_het(m[p]["gt"])) else None for p in common] for m in maps]
    order, blocks = [], {}
    for vi in range(len(common)):
        if any(ph[vi] is None for ph in phases):
            continue
        key = tuple(ph[vi][0] for ph in phases)
        if key not in blocks:
            blocks[key] = []
            order.append(key)
        blocks[key].append(vi)
    return common, phases, [blocks[k] for k in order]


def pair_definitions(t0, t1, ploidy):
    """what a pairwise comparison of one chromosome has to report, by the definitions"""
    common, phases, blocks = joint_blocks([t0, t1])
    big = [b for b in blocks if len(b) >= 2]
    tot = dict(hamming=Fraction(0), switches=Fraction(0), sf_cost=Fraction(0), diff=0)
    sums = {(Fraction(0), Fraction(0))}
    per_block = []
    longest, longest_def, longest_block = 0, None, None
    for b in big:
        ph0 = [[phases[0][i][1][j] for i in b] for j in range(ploidy)]
        ph1 = [[phases[1][i][1][j] for i in b] for j in range(ploidy)]
        d = block_definitions(ph0, ph1)
        per_block.append((b, ph0, ph1, d))
        for k in ("hamming", "switches", "sf_cost", "diff"):
            tot[k] += d[k]
        sums = {(a + x, c + y) for a, c in sums for x, y in d["sf_pairs"]}
        if len(b) > longest:
            longest, longest_def, longest_block = len(b), d, (b, ph0, ph1)
    return dict(common=common, blocks=big, total=tot, total_sf_pairs=sums, longest_len=longest, longest=longest_def,
                longest_block=longest_block, per_block=per_block,
                intersection_blocks=len(big), covered=sum(len(b) for b in big), pairs=sum(len(b) - 1 for b in big))


def multiway_definition(tables):
    """histogram {frozenset of data-set indices that disagree with data set 0: count} over adjacent pairs"""
    common, phases, blocks = joint_blocks(tables)
    hist, total = Counter(), 0
    for b in blocks:
        if len(b) < 2:
            continue
        for x, y in zip(b, b[1:]):
            total += 1
            same = [phases[k][x][1][0] == phases[k][y][1][0] for k in range(len(tables))]
            hist[frozenset(k for k in range(len(tables)) if same[k] != same[0])] += 1
    return total, hist

"""C06 generators: error-free reads with ground truth, written column by column.

A haplotype is the reference with a set of variants applied (some *listed* in the VCF, some *private*: the
"unrelated indels" of the property).  It is laid out as alignment columns

    ('M', refpos, base, vidx)   reference base aligned to a haplotype base (base may differ: SNV/MNP ALT)
    ('I', anchor, base, vidx)   haplotype base inserted after reference position `anchor`
    ('D', refpos, None, vidx)   reference base missing from the haplotype

with indels placed directly after their anchor base (= the normalised, left-most position for the variants
produced here).  A read is a contiguous range of columns (optionally with an N skip cut out, soft/hard clips
added, M written as =/X), so it is an exact copy of the haplotype with the canonical CIGAR.

Ground truth per (read, listed variant): `overlap`, `full` (fully covers, DESIGN §5 C06), `isolated`, and the
allele carried.
"""
from . import sim

BASES = "ACGT"
OVERHANG = 10


class HVar:
    """variant of a haplotype; listed=False -> not in the VCF ("unrelated")"""
    __slots__ = ("pos", "ref", "alt", "kind", "listed", "shiftable")

    def __init__(self, pos, ref, alt, kind, listed=True, shiftable=False):
        self.pos, self.ref, self.alt, self.kind, self.listed, self.shiftable = pos, ref, alt, kind, listed, shiftable

    def as_list(self):
        return [self.pos, self.ref, self.alt, self.kind, self.listed, self.shiftable]

    @staticmethod
    def from_list(l):
        return HVar(*l)

    def __repr__(self):
        return f"{self.pos}:{self.ref}>{self.alt}{'' if self.listed else '*'}"


def make_hvar(rng, refseq, pos, kind, alphabet=BASES, allow_shiftable=False):
    """normalised VCF form (indels: one anchor base, left-aligned).  None if impossible here."""
    n = len(refseq)
    if pos < 1 or pos >= n - 8:
        return None
    if kind == "snv":
        ref = refseq[pos]
        alts = [b for b in alphabet if b != ref]
        return HVar(pos, ref, rng.choice(alts), kind) if alts else None
    if kind == "mnp":
        L = rng.choice([2, 2, 3, 4])
        ref = refseq[pos:pos + L]
        mid = "".join(rng.choice(alphabet) for _ in range(L - 2))
        first = [b for b in alphabet if b != ref[0]]
        last = [b for b in alphabet if b != ref[-1]]
        if not first or not last:
            return None
        return HVar(pos, ref, rng.choice(first) + mid + rng.choice(last), kind)
    if kind == "ins":
        L = rng.choice([1, 1, 2, 3, 5, 8])
        anchor = refseq[pos]
        ins = "".join(rng.choice(alphabet) for _ in range(L))
        nxt = refseq[pos + 1]
        # left-aligned: the inserted sequence must not end with the anchor base
        if ins[-1] == anchor:
            return None
        # shiftable to the right iff rotating the insertion over the following reference keeps the haplotype
        shiftable = (ins[0] == nxt)
        if shiftable and not allow_shiftable:
            return None
        return HVar(pos, anchor, anchor + ins, kind, shiftable=shiftable)
    if kind in ("del", "longdel"):
        # "longdel": longer than the re-alignment overhang, so it can straddle a neighbour's window boundary
        L = rng.choice([1, 1, 2, 3, 5, 8]) if kind == "del" else rng.choice([11, 12, 14, 17, 23])
        kind = "del"
        ref = refseq[pos:pos + 1 + L]
        if pos + 2 + L >= n:
            return None
        anchor = ref[0]
        if ref[-1] == anchor:      # not left-aligned
            return None
        shiftable = (ref[1] == refseq[pos + 1 + L])
        if shiftable and not allow_shiftable:
            return None
        return HVar(pos, ref, anchor, kind, shiftable=shiftable)
    raise ValueError(kind)


def place_variants(rng, refseq, n, kinds, gap, alphabet=BASES, allow_shiftable=False, margin=12, listed=True, taken=()):
    """n variants with `gap()` reference bases between the end of one REF span and the start of the next"""
    out = []
    pos = margin + rng.randrange(0, 6)
    tries = 0
    taken = sorted(taken, key=lambda v: v.pos)
    while len(out) < n and pos < len(refseq) - margin and tries < 60 * n + 100:
        tries += 1
        v = make_hvar(rng, refseq, pos, rng.choice(list(kinds)), alphabet, allow_shiftable)
        if v is None or any(not (v.pos + len(v.ref) + 1 <= t.pos or t.pos + len(t.ref) + 1 <= v.pos) for t in taken):
            pos += 1
            continue
        v.listed = listed
        out.append(v)
        pos = v.pos + len(v.ref) + gap()
    return out


def twin_indels(rng, refseq, n, alphabet=BASES, margin=12):
    """pairs of insertions (or deletions) 1-3 bp apart whose sequences are alike: the constellation of DESIGN §6 F11
    (a read carrying only one of the two is re-aligned to a window in which the other one explains it as well)"""
    out = []
    pos = margin + rng.randrange(0, 6)
    tries = 0
    while len(out) < 2 * n and pos < len(refseq) - margin - 12 and tries < 80 * n + 100:
        tries += 1
        g = rng.choice([1, 2, 2, 3])
        L = rng.choice([1, 2, 3, 4])
        a1, a2 = refseq[pos], refseq[pos + g]
        x = "".join(rng.choice(alphabet) for _ in range(L))
        y = list(x)
        if L > 1 and rng.random() < 0.7:
            k = rng.randrange(L)
            y[k] = rng.choice(alphabet)
        y = "".join(y)
        if x[-1] == a1 or y[-1] == a2:
            pos += 1
            continue
        v1 = HVar(pos, a1, a1 + x, "ins", shiftable=(x[0] == refseq[pos + 1]))
        v2 = HVar(pos + g, a2, a2 + y, "ins", shiftable=(y[0] == refseq[pos + g + 1]))
        out += [v1, v2]
        pos += g + 1 + 26 + rng.randrange(0, 20)
    return out


def columns(refseq, hvars, alleles):
    """hvars sorted by pos, non-overlapping. Returns (cols, spans) with spans[i] = (c0, c1) column range of hvars[i]"""
    cols, spans = [], []
    p = 0
    for i, v in enumerate(hvars):
        assert v.pos >= p, (v, p)
        for q in range(p, v.pos):
            cols.append(("M", q, refseq[q], -1))
        c0 = len(cols)
        if alleles[i] == 0:
            for k in range(len(v.ref)):
                cols.append(("M", v.pos + k, v.ref[k], i))
        elif len(v.ref) == len(v.alt):
            for k in range(len(v.ref)):
                cols.append(("M", v.pos + k, v.alt[k], i))
        elif len(v.alt) > len(v.ref):
            cols.append(("M", v.pos, v.alt[0], i))
            for b in v.alt[1:]:
                cols.append(("I", v.pos, b, i))
        else:
            cols.append(("M", v.pos, v.alt[0], i))
            for k in range(1, len(v.ref)):
                cols.append(("D", v.pos + k, None, i))
        spans.append((c0, len(cols)))
        p = v.pos + len(v.ref)
    for q in range(p, len(refseq)):
        cols.append(("M", q, refseq[q], -1))
    return cols, spans


def _cigar_of(cols, refseq, style):
    """cols: list of columns or ('N', refpos0, length). style 'M' or '=X'"""
    cig = []

    def add(op, n=1):
        if cig and cig[-1][0] == op:
            cig[-1][1] += n
        else:
            cig.append([op, n])
    for c in cols:
        if c[0] == "M":
            add(0 if style == "M" else (7 if c[2] == refseq[c[1]] else 8))
        elif c[0] == "I":
            add(1)
        elif c[0] == "D":
            add(2)
        elif c[0] == "N":
            add(3, c[2])
    return cig


def make_read(rng, refseq, hvars, alleles, cols, spans, c0, c1, *, style="M", skip=None, soft=(0, 0), hard=(0, 0),
              clip_aligned=(0, 0)):
    """Read = columns [c0,c1) of the haplotype.
    skip: None or (n0,n1) column range (c0<n0<n1<c1) cut out as an N operation.
    soft: junk bases added as S at either end; clip_aligned: that many leading/trailing read bases are turned into S
    (they are a copy of the haplotype but not aligned); hard: H lengths.
    Returns None if nothing alignable remains, else dict(start, cigar, seq, kept) with
    kept = set of column indices that are *aligned* (M/D/I inside the alignment)."""
    idx = list(range(c0, c1))
    if skip:
        n0, n1 = skip
        idx = [k for k in idx if not (n0 <= k < n1)]
    # leading/trailing read bases turned into soft clip
    lead_s, trail_s = [], []
    def qbases(ks):
        return sum(1 for k in ks if cols[k][0] != "D")
    ca, cb = clip_aligned
    while idx and (qbases(lead_s) < ca or cols[idx[0]][0] != "M"):
        k = idx.pop(0)
        if cols[k][0] != "D":
            lead_s.append(k)
    while idx and (qbases(trail_s) < cb or cols[idx[-1]][0] != "M"):
        k = idx.pop()
        if cols[k][0] != "D":
            trail_s.insert(0, k)
    if len(idx) < 2:
        return None
    if skip:
        n0, n1 = skip
        # the N must be flanked by aligned M columns on both sides
        if not (n0 - 1 in idx and n1 in idx and cols[n0 - 1][0] == "M" and cols[n1][0] == "M"):
            return None
    items = []
    for k in idx:
        if skip and k == skip[1]:
            r0 = cols[skip[0] - 1][1] + 1
            r1 = cols[k][1]
            if r1 - r0 <= 0:
                return None
            items.append(("N", r0, r1 - r0))
        items.append(cols[k])
    cig = _cigar_of(items, refseq, style)
    seq = "".join(cols[k][2] for k in idx if cols[k][0] != "D")
    s0 = "".join(rng.choice(BASES) for _ in range(soft[0])) + "".join(cols[k][2] for k in lead_s)
    s1 = "".join(cols[k][2] for k in trail_s) + "".join(rng.choice(BASES) for _ in range(soft[1]))
    if s0:
        cig.insert(0, [4, len(s0)])
    if s1:
        cig.append([4, len(s1)])
    if hard[0]:
        cig.insert(0, [5, hard[0]])
    if hard[1]:
        cig.append([5, hard[1]])
    return {"start": cols[idx[0]][1], "cigar": [tuple(x) for x in cig], "seq": s0 + seq + s1, "kept": idx,
            "skip": skip}


def truth(refseq, hvars, alleles, cols, spans, read):
    """per listed variant index i: dict(overlap, full, isolated, allele, neighbour_n)"""
    kept = set(read["kept"])
    skip = read["skip"]
    out = {}
    # changed columns of this haplotype (substituted M, I, D) with their window-relevant coordinate
    changed = []
    for k, c in enumerate(cols):
        if c[3] >= 0 and alleles[c[3]] == 1:
            if c[0] == "M" and c[2] != refseq[c[1]]:
                changed.append((c[3], "M", c[1]))
            elif c[0] == "D":
                changed.append((c[3], "D", c[1]))
            elif c[0] == "I":
                changed.append((c[3], "I", c[1]))
    for i, v in enumerate(hvars):
        if not v.listed:
            continue
        a, b = v.pos, v.pos + len(v.ref)
        overlap = any(cols[k][0] in "MD" and a <= cols[k][1] < b for k in kept)
        c0, c1 = spans[i]
        full = (c0 - 1 >= 0 and c1 < len(cols) and all(k in kept for k in range(c0 - 1, c1 + 1))
                and cols[c0 - 1][0] == "M" and cols[c1][0] == "M")
        # (an N cut never lies inside range(c0-1, c1+1) when all those columns are kept)
        lo, hi = a - OVERHANG, b + OVERHANG
        neigh = 0
        for (j, kind, q) in changed:
            if j == i:
                continue
            if kind in "MD" and lo <= q < hi:
                neigh += 1
            elif kind == "I" and lo <= q <= hi - 2:
                neigh += 1
        # distance (in reference bases) from the REF span to the nearest N edge inside the same read, if any
        near_n = None
        if skip and full:
            r0 = cols[skip[0] - 1][1] + 1
            r1 = cols[skip[1]][1]
            if r1 <= a:
                near_n = a - r1
            elif r0 >= b:
                near_n = r0 - b
        out[i] = {"overlap": overlap, "full": full, "isolated": neigh == 0, "allele": alleles[i], "near_n": near_n}
    return out


# ------------------------------------------------------------------------------------------------
# scenario: one contig, one sample, two haplotypes, reads with decorations
# ------------------------------------------------------------------------------------------------

class C06Scenario:
    def __init__(self, rng, *, stream, n_reads, alphabet=BASES, contig_len=(500, 900), kinds=("snv", "mnp", "ins", "del"),
                 allow_shiftable=False, decorations=True, paired=0.0, end_on_variant=0.15,
                 n_files=1, reuse_names=False, same_molecule=0.0, supplementary=0.0):
        """n_files > 1: the templates are distributed over that many alignment files (`src` of a read = index of its file);
        reuse_names: every file numbers its templates from 1 ("r1", "r2", ... as sequencing runs / simulators / SRA dumps do), so
        one name denotes unrelated molecules (random haplotype, random place) in different files; same_molecule: probability that a
        template is ALSO written to a second file under the same name (the same library aligned twice: two reads, equal content);
        supplementary: probability that a single-end template gets a supplementary alignment (flag 0x800; another stretch of the
        same haplotype, same or - rarely - opposite strand) next to its primary one IN THE SAME FILE.
        A read (= template) is identified by (src, name) everywhere."""
        self.stream = stream
        self.n_files = n_files
        L = rng.randrange(*contig_len)
        self.ref = sim.random_seq(rng, L, alphabet)
        if stream == "isolated":
            gap = lambda: 24 + rng.randrange(0, 30)
            nv = rng.randrange(4, 12)
            listed = place_variants(rng, self.ref, nv, kinds, gap, alphabet, allow_shiftable)
            private = []
            if decorations and rng.random() < 0.6:
                # unrelated indels/SNVs of the haplotypes, far (> 2*overhang+) from every listed variant
                cand = place_variants(rng, self.ref, rng.randrange(1, 5), ("ins", "del", "snv"), lambda: 30 + rng.randrange(0, 60),
                                      alphabet, False, listed=False)
                for p in cand:
                    if all(p.pos + len(p.ref) + 12 <= v.pos - OVERHANG or v.pos + len(v.ref) + OVERHANG + 12 <= p.pos for v in listed):
                        private.append(p)
        elif stream == "twins":
            listed = twin_indels(rng, self.ref, rng.randrange(4, 10), alphabet)
            private = []
        else:  # "close": neighbours 0..14 bases apart, listed or private
            gap = lambda: rng.choice([0, 1, 1, 2, 2, 3, 4, 6, 9, 14, 30])
            nv = rng.randrange(5, 16)
            ks = tuple(kinds) + (("longdel",) if "del" in kinds and rng.random() < 0.5 else ())
            allv = place_variants(rng, self.ref, nv, ks, gap, alphabet, allow_shiftable)
            listed, private = [], []
            for v in allv:
                if rng.random() < 0.8:
                    listed.append(v)
                else:
                    v.listed = False
                    private.append(v)
        self.hvars = sorted(listed + private, key=lambda v: v.pos)
        self.listed_idx = [i for i, v in enumerate(self.hvars) if v.listed]
        # two haplotypes
        self.haps = []
        for h in range(2):
            self.haps.append([rng.randrange(2) for _ in self.hvars])
        self.cols = [columns(self.ref, self.hvars, al) for al in self.haps]
        self.reads = []
        rid = 0
        per_file = [0] * n_files
        multi = n_files > 1 or reuse_names or same_molecule > 0 or supplementary > 0     # (old streams: no extra PRNG draws)
        for _ in range(n_reads):
            h = rng.randrange(2)
            cols, spans = self.cols[h]
            rid += 1
            name = f"r{rid}_h{h}"
            src, first = 0, len(self.reads)
            if multi:
                src = rng.randrange(n_files)
                per_file[src] += 1
                if n_files > 1 and rng.random() < same_molecule:
                    name = f"dup{rid}"            # unique in every file; written to two files below
                elif reuse_names:
                    name = f"r{per_file[src]}"    # unique within its file, shared with unrelated molecules of the other files
            self._template(rng, h, name, src, paired, decorations, end_on_variant, supplementary)
            if name.startswith("dup"):
                other = rng.choice([f for f in range(n_files) if f != src])
                for r in list(self.reads[first:]):
                    self.reads.append(dict(r, src=other))

    def _template(self, rng, h, name, src, paired, decorations, end_on_variant, supplementary):
        cols, spans = self.cols[h]
        if rng.random() < paired:
            # two mates of one template, FR or FF orientation, possibly overlapping
            l1, l2 = rng.randrange(30, 120), rng.randrange(30, 120)
            s1 = rng.randrange(0, max(1, len(cols) - l1 - l2 - 60))
            s2 = s1 + rng.randrange(max(1, l1 - 20), l1 + 60)
            orient = rng.choice(["FR", "FR", "FF", "RR", "RF"])
            for mate, (s, l) in enumerate([(s1, l1), (s2, l2)]):
                r = self._one(rng, h, s, min(len(cols), s + l), decorations)
                if r is None:
                    continue
                rev = {"FR": (False, True), "FF": (False, False), "RR": (True, True), "RF": (True, False)}[orient][mate]
                r.update(name=name, flag=1 | 2 | (64 if mate == 0 else 128) | (16 if rev else 0), paired=orient, mate=mate,
                         src=src, supp=False)
                self.reads.append(r)
            return
        l = rng.randrange(25, 220)
        s = rng.randrange(0, max(1, len(cols) - l))
        e = min(len(cols), s + l)
        if self.listed_idx and rng.random() < end_on_variant:
            # reads that start/end on or just next to a variant (first/last aligned base)
            i = rng.choice(self.listed_idx)
            c0, c1 = spans[i]
            if rng.random() < 0.5:
                e = min(len(cols), rng.choice([c0, c0 + 1, c1 - 1, c1, c1 + 1, c1 + 2])); s = max(0, e - l)
            else:
                s = max(0, rng.choice([c0 - 2, c0 - 1, c0, c0 + 1, c1 - 1, c1])); e = min(len(cols), s + l)
        r = self._one(rng, h, s, e, decorations)
        if r is None:
            return
        r.update(name=name, flag=0, paired=None, mate=0, src=src, supp=False)
        self.reads.append(r)
        if supplementary > 0 and rng.random() < supplementary:
            # split read: primary + supplementary alignment of ONE template (same name, same file, same haplotype)
            rev = rng.random() < 0.5
            r["flag"] = 16 if rev else 0
            l2 = rng.randrange(25, 160)
            if rng.random() < 0.5:      # the neighbouring stretch of the molecule (as after a large deletion / inversion) ...
                s2 = min(max(0, e + rng.randrange(-15, 40)), max(0, len(cols) - l2))
            else:                       # ... or anywhere
                s2 = rng.randrange(0, max(1, len(cols) - l2))
            r2 = self._one(rng, h, s2, min(len(cols), s2 + l2), decorations)
            if r2 is not None:
                rev2 = rev if rng.random() < 0.8 else not rev
                r2.update(name=name, flag=2048 | (16 if rev2 else 0), paired=None, mate=0, src=src, supp=True)
                self.reads.append(r2)

    def _one(self, rng, h, s, e, decorations):
        cols, spans = self.cols[h]
        if e - s < 4:
            return None
        kw = {}
        if decorations:
            kw["style"] = rng.choice(["M", "M", "=X"])
            if rng.random() < 0.3:
                kw["soft"] = (rng.choice([0, 0, 3, 12]), rng.choice([0, 0, 2, 15]))
            if rng.random() < 0.2:
                kw["clip_aligned"] = (rng.choice([0, 2, 7]), rng.choice([0, 1, 9]))
            if rng.random() < 0.15:
                kw["hard"] = (rng.choice([0, 5]), rng.choice([0, 11]))
            if rng.random() < 0.3 and e - s > 20:
                n0 = rng.randrange(s + 3, e - 8)
                n1 = min(e - 3, n0 + rng.randrange(3, 70))
                if n1 > n0:
                    kw["skip"] = (n0, n1)
        r = make_read(rng, self.ref, self.hvars, self.haps[h], cols, spans, s, e, **kw)
        if r is None and "skip" in kw:
            kw.pop("skip")
            r = make_read(rng, self.ref, self.hvars, self.haps[h], cols, spans, s, e, **kw)
        if r is None:
            return None
        r["hap"] = h
        r["truth"] = truth(self.ref, self.hvars, self.haps[h], cols, spans, r)
        del r["kept"]
        return r

    # -- serialisation (replay never depends on the PRNG)
    def to_case(self):
        return {"stream": self.stream, "ref": self.ref, "hvars": [v.as_list() for v in self.hvars],
                "haps": self.haps, "n_files": self.n_files,
                "reads": [{k: (r[k] if k != "truth" else {str(i): t for i, t in r[k].items()}) for k in
                           ("name", "flag", "start", "cigar", "seq", "hap", "truth", "paired", "mate", "src", "supp")}
                          for r in self.reads]}


def case_reads(case):
    """reads of a (replayed) case with truth keys back to int"""
    out = []
    for r in case["reads"]:
        r = dict(r)
        r["cigar"] = [tuple(x) for x in r["cigar"]]
        r["truth"] = {int(i): t for i, t in r["truth"].items()}
        r.setdefault("src", 0)            # cases recorded before the multi-file streams
        r.setdefault("supp", False)
        out.append(r)
    return out


# ------------------------------------------------------------------------------------------------
# synthetic inputs for the direct function calls
# ------------------------------------------------------------------------------------------------

def random_cigar(rng, max_ops=7, max_len=6, ops=(0, 0, 0, 1, 2, 3, 4, 5, 6, 7, 8), bad_op=0.0):
    n = rng.randrange(0, max_ops + 1)
    out = []
    for _ in range(n):
        op = rng.choice(ops)
        if rng.random() < bad_op:
            op = rng.choice([9, 10])
        out.append((op, rng.randrange(0 if rng.random() < 0.05 else 1, max_len + 1)))
    return out


def cigar_ref_len(cigar):
    return sum(l for op, l in cigar if op in (0, 2, 3, 7, 8))


def cigar_query_len(cigar):
    return sum(l for op, l in cigar if op in (0, 1, 4, 7, 8))

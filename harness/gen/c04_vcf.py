"""Rich variant files for C04: the records of a phasing scenario (so that real reads phase real variants)
decorated with everything a VCF may legally carry next to the genotype: ID/QUAL/FILTER values, INFO fields and
FORMAT fields of all Types and Numbers (1/A/R/G/./Flag), missing and partial genotypes, records without GT,
records without ALT, multi-ALT, symbolic ALT, duplicate positions, pre-existing PS/HP phase, extra header lines
(`##phasing=`, FILTER/ALT/INFO definitions, optional missing contig lines / missing or mis-declared predefined
FORMATs).  Deterministic in the case's `gen_seed`."""
import os
import random

from . import sim
from .c20_ped import PedScenario

INFO_DEFS = {
    "DP": '##INFO=<ID=DP,Number=1,Type=Integer,Description="Total depth">',
    "AF": '##INFO=<ID=AF,Number=A,Type=Float,Description="Allele frequency">',
    "XR": '##INFO=<ID=XR,Number=R,Type=Integer,Description="per allele">',
    "XS": '##INFO=<ID=XS,Number=.,Type=String,Description="strings">',
    "DB": '##INFO=<ID=DB,Number=0,Type=Flag,Description="flag">',
    "END": '##INFO=<ID=END,Number=1,Type=Integer,Description="End position">',
    "SVTYPE": '##INFO=<ID=SVTYPE,Number=1,Type=String,Description="SV type">',
    # only ever used undeclared (`undeclared_info`): the harness's own copy of the input has to declare them too
    "AC": '##INFO=<ID=AC,Number=A,Type=Integer,Description="Allele count">',
    "AN": '##INFO=<ID=AN,Number=A,Type=Integer,Description="Allele number">',
}
FMT_DEFS = {
    "DP": '##FORMAT=<ID=DP,Number=1,Type=Integer,Description="Depth">',
    "AD": '##FORMAT=<ID=AD,Number=.,Type=Integer,Description="Allele depths">',
    "ADR": '##FORMAT=<ID=ADR,Number=R,Type=Integer,Description="Allele depths, R">',
    "XA": '##FORMAT=<ID=XA,Number=A,Type=Float,Description="per alt">',
    "PL": '##FORMAT=<ID=PL,Number=G,Type=Integer,Description="phred likelihoods">',
    "XF": '##FORMAT=<ID=XF,Number=1,Type=Float,Description="float">',
    "XT": '##FORMAT=<ID=XT,Number=1,Type=String,Description="text">',
    "XV": '##FORMAT=<ID=XV,Number=.,Type=String,Description="text list">',
    "GQ": '##FORMAT=<ID=GQ,Number=1,Type=Integer,Description="Genotype quality">',
    "PS": '##FORMAT=<ID=PS,Number=1,Type=Integer,Description="Phase set identifier">',
    "HP": '##FORMAT=<ID=HP,Number=.,Type=String,Description="Phasing haplotype identifier">',
    "PQ": '##FORMAT=<ID=PQ,Number=1,Type=Float,Description="Phasing quality">',
}
# deliberately non-matching declarations of predefined FORMATs (missing_headers replaces them)
ODD_DEFS = {
    "GQ": '##FORMAT=<ID=GQ,Number=.,Type=Integer,Description="GQ with Number=.">',
    "AD": '##FORMAT=<ID=AD,Number=R,Type=Integer,Description="AD as the VCF spec declares it">',
    "PQ": '##FORMAT=<ID=PQ,Number=1,Type=Integer,Description="PQ as Integer">',
}
# further mis-declarations of the phase tags themselves (only with `odd_tag_defs`): replaced, not refused
ODD_TAG_DEFS = {
    "HP": '##FORMAT=<ID=HP,Number=1,Type=String,Description="HP with Number=1">',
    "PS": '##FORMAT=<ID=PS,Number=.,Type=Integer,Description="PS with Number=.">',
}
PS_STRING = '##FORMAT=<ID=PS,Number=1,Type=String,Description="PS as String: whatshap refuses the file">'
EXTRA_HEADER = [
    "##phasing=none",
    "##source=c04gen",
    '##FILTER=<ID=q10,Description="Quality below 10">',
    '##FILTER=<ID=s50,Description="Less than 50% of samples have data">',
    '##ALT=<ID=DEL,Description="Deletion">',
    "##reference=file:///dev/null",
]


def gen_case(rng, scale=1):
    n_trios = rng.choice([0, 0, 1])
    params = dict(n_contigs=rng.choice([1, 2, 2, 3]), n_trios=n_trios, quartet=False,
                  n_singles=rng.choice([0, 1, 2]) if n_trios else rng.choice([1, 2, 3, 3]),
                  n_variants=[4, 7 + 2 * scale], depth=[3, 6], read_len=[130, 380], het_prob=rng.choice([0.6, 0.8]),
                  recomb_prob=0.0, kinds=rng.choice([["snv"], ["snv", "snv", "ins", "del", "mnp"]]), shuffle_samples=False)
    distrust = rng.random() < 0.3
    params["gt_error_prob"] = 0.15 if distrust else 0.0
    case = {"kind": "c04", "gen_seed": rng.randrange(1 << 40), "params": params,
            "vcf": {"pre": rng.choice(["none", "none", "PS", "HP", "per-sample"]), "decoys": rng.random() < 0.7,
                    "odd_gt": rng.random() < 0.5, "phasing_line": rng.random() < 0.5,
                    "contig_header": rng.random() < 0.8, "odd_defs": rng.random() < 0.3, "undefined_gq": rng.random() < 0.2,
                    "n_info": rng.randrange(0, 5), "n_fmt": rng.randrange(0, 6), "flip_prob": rng.choice([0.0, 0.5]),
                    "skipped_only_last": rng.random() < 0.25},
            "opts": {"tag": rng.choice(["PS", "HP"]), "distrust": distrust, "include_hom": bool(distrust and rng.random() < 0.5),
                     "ped": bool(n_trios), "only_snvs": rng.random() < 0.25,
                     "sample_sel": rng.random() < 0.4, "chrom_sel": rng.random() < 0.35}}
    v, o = case["vcf"], case["opts"]
    # file-level shapes (Model/C04File.lean)
    v["split_chrom"] = params["n_contigs"] > 1 and rng.random() < 0.3     # a chromosome name comes back later in the file
    v["many_alts"] = rng.random() < 0.25                                   # a record with >= 16 ALT alleles
    v["odd_tag_defs"] = rng.random() < 0.2
    v["undeclared_info"] = rng.random() < 0.25
    v["phasing_twice"] = rng.random() < 0.4
    # F60 (fixes/F60.patch): a FILTER used in the body but not declared makes the unpatched whatshap abort while writing the
    # first such record; generated only on request so that the check stays silent on the unpatched tree
    draw = rng.random() < 0.3
    v["undeclared_filter"] = draw and bool(os.environ.get("VERIF_C04_F60"))
    r = rng.random()
    # inputs the header pipeline refuses (VcfError -> clean command-line error, no output)
    v["refused"] = "undef-format" if r < 0.04 else "undef-info" if r < 0.08 else "ps-string" if r < 0.12 else None
    o["out_kind"] = rng.choice(["file", "file", "stdout", "gz", "preexisting"])
    # co-located records (round 7): every kind of record the reader may skip, IN FRONT OF and BEHIND a phasable record at the
    # same CHROM/POS, with heterozygous calls; --only-snvs (which moves the line between "skipped" and "the variant here"
    # for indels/MNPs/symbolic alleles) is then as likely as not
    v["coloc"] = rng.choice([0.0, 0.5, 0.9])
    if v["coloc"]:
        o["only_snvs"] = rng.random() < 0.5
    o["bad_sample"] = rng.random() < 0.04
    o["use_ped_samples"] = bool(n_trios) and not o["sample_sel"] and not o["bad_sample"] and rng.random() < 0.3
    # coordinate boundaries (round 10): a variant at the FIRST base of every contig (POS 1 = 0-based position 0, the only
    # position / component name that is falsy in Python) and / or at its LAST base, covered by reads that reach the contig
    # end, and always with a co-located record (mostly a second SNV behind it: the duplicate-position skip at position 0)
    v["edge"] = rng.choice([None, None, "first", "first", "both", "last"])
    return case


def _fmt_value(rng, key, n_alt, ploidy=2):
    if rng.random() < 0.15:
        return "."
    ri = lambda: str(rng.randrange(0, 90))  # noqa: E731
    if key == "DP" or key == "GQ":
        return ri()
    if key in ("AD", "ADR"):
        return ",".join(ri() for _ in range(n_alt + 1))
    if key == "XA":
        return ",".join(rng.choice(["0.5", "0.25", "1", "."]) for _ in range(max(1, n_alt)))
    if key == "PL":
        g = (n_alt + 1) * (n_alt + 2) // 2
        return ",".join(ri() for _ in range(g))
    if key == "XF":
        return rng.choice(["0.5", "1.25", "3", "1e-05", "0.125"])
    if key == "PQ":
        return rng.choice(["10", "23", "5"])
    if key == "XT":
        return rng.choice(["foo", "a_b", "x-y", "T"])
    if key == "XV":
        return ",".join(rng.choice(["u", "vv", "w1"]) for _ in range(rng.randrange(1, 4)))
    return "."


def _info_value(rng, keys, n_alt):
    out = []
    for k in keys:
        if rng.random() < 0.3:
            continue
        if k == "DP":
            out.append(f"DP={rng.randrange(1, 200)}")
        elif k == "AF":
            out.append("AF=" + ",".join(rng.choice(["0.5", "0.25", "0.125"]) for _ in range(max(1, n_alt))))
        elif k == "XR":
            out.append("XR=" + ",".join(str(rng.randrange(9)) for _ in range(n_alt + 1)))
        elif k == "XS":
            out.append("XS=" + ",".join(rng.choice(["ab", "c", "d_e"]) for _ in range(rng.randrange(1, 3))))
        elif k == "DB":
            out.append("DB")
    return ";".join(out) or "."


COLOC_KINDS = ("del", "ins", "mnp", "multi", "many", "noalt", "sym", "snv")


def coloc_record(rng, kind, r, seq):
    """site part of a record of `kind` at the position of the real record `r` (what callers emit next to each other
    when indels are anchored at the preceding base, multi-allelic sites are only partly split, gVCF blocks are kept, ...)"""
    p = r["pos"]
    b = seq[p]
    other = [x for x in "ACGT" if x != b]
    if kind == "del":
        n = rng.choice([1, 1, 2, 5])
        return dict(ref=seq[p:p + 1 + n], alts=[b]) if p + 1 + n < len(seq) else None
    if kind == "ins":
        return dict(ref=b, alts=[b + "".join(rng.choice("ACGT") for _ in range(rng.choice([1, 2, 6])))])
    if kind == "mnp":
        if p + 2 >= len(seq):
            return None
        return dict(ref=seq[p:p + 2], alts=[rng.choice(other) + rng.choice([x for x in "ACGT" if x != seq[p + 1]])])
    if kind == "multi":
        # SNV+SNV, SNV+indel or deletion+SNV (REF longer than one base)
        sh = rng.choice(["snvs", "snv+ins", "del+snv"])
        if sh == "snvs":
            return dict(ref=b, alts=rng.sample(other, 2))
        if sh == "snv+ins":
            return dict(ref=b, alts=[rng.choice(other), b + "TT"])
        return dict(ref=seq[p:p + 2], alts=[b, rng.choice(other) + seq[p + 1]]) if p + 2 < len(seq) else None
    if kind == "many":
        n_alt = rng.choice([16, 17])
        return dict(ref=b, alts=[b + "C" * j + "G" for j in range(n_alt)])
    if kind == "noalt":
        return dict(ref=rng.choice([b, seq[p:p + 2]]), alts=[])
    if kind == "sym":
        return dict(ref=b, alts=[rng.choice(["<DEL>", "<DEL>", "<DUP>", "<INS>"])])
    if kind == "snv":
        cand = [x for x in other if [x] != r["alts"]]
        return dict(ref=b, alts=[rng.choice(cand)])
    raise ValueError(kind)


def coloc_gt(rng, n_alt, het_prob=0.85):
    """a genotype for a co-located record: mostly heterozygous, every textual form (order, separator)"""
    if n_alt == 0:
        return rng.choice(["0/0", "0|0", "./.", "0/0"])
    if rng.random() < het_prob:
        a, b = (0, 1) if n_alt == 1 else rng.choice([(0, 1), (0, 2), (1, 2), (0, n_alt)])
        if rng.random() < 0.4:
            a, b = b, a
        return f"{a}{rng.choice(['/', '/', '|'])}{b}"
    return rng.choice(["1/1", "0/0", "1|1", "./.", "0/.", "."])


def edge_positions(edge, seq):
    return ([0] if edge in ("first", "both") else []) + ([len(seq) - 1] if edge in ("last", "both") else [])


def edge_scenario(case):
    """the scenario of the case; with `edge`: every contig additionally has a variant at its first and / or last base (the
    shared generator keeps a margin of 30 bases), and every sample has reads of both haplotypes that begin at the first /
    end at the last base (reads drawn uniformly practically never do), so that these variants are phased like any other"""
    edge = case["vcf"].get("edge")
    if not edge:
        return PedScenario(random.Random(case["gen_seed"]), **case["params"])
    orig = sim.make_variants

    def with_edges(rng, chrom, refseq, n, **kw):
        vs = orig(rng, chrom, refseq, n, **kw)
        kinds = list(kw.get("kinds", ("snv",)))
        if edge in ("first", "both") and (not vs or vs[0].pos > 25):
            v0 = sim.make_variant(rng, chrom, refseq, 0, rng.choice(kinds + ["snv"])) or sim.make_variant(rng, chrom, refseq, 0, "snv")
            vs = [v0] + vs
        if edge in ("last", "both") and (not vs or vs[-1].pos + len(vs[-1].ref) < len(refseq) - 25):
            vs = vs + [sim.make_variant(rng, chrom, refseq, len(refseq) - 1, "snv")]
        return vs
    sim.make_variants = with_edges
    try:
        sc = PedScenario(random.Random(case["gen_seed"]), **case["params"])
    finally:
        sim.make_variants = orig
    r = random.Random(case["gen_seed"] ^ 0xED6E)
    k = 0
    for s in sc.samples:
        for name, seq in sc.contigs.items():
            L = len(seq)
            for h in (0, 1, 0, 1, r.randrange(2)):
                rl = min(L, r.randrange(110, 320))
                for st, en in ([(0, rl)] if edge in ("first", "both") else []) + ([(L - rl, L)] if edge in ("last", "both") else []):
                    hr = sim.hap_read(seq, sc.variants[name], sc.haps[(s, name)][h], st, en)
                    if hr is None:
                        continue
                    start, cigar, q, covered = hr
                    k += 1
                    sc.reads.append({"name": f"e{k}_{s}_h{h}", "chrom": name, "start": start, "cigar": cigar, "seq": q,
                                     "rg": "rg_" + s, "sample": s, "hap": h, "covered": covered, "mapq": 60})
    return sc


# what stands next to a variant at a contig boundary: mostly a second SNV behind it (the plain duplicate position)
EDGE_DECK = [("snv", "behind")] * 6 + [(k, sd) for k in COLOC_KINDS for sd in ("front", "behind")]


def map_edge(rng, v):
    if v.get("edge_fixed"):
        return tuple(v["edge_fixed"])
    return rng.choice(EDGE_DECK)


def build_inputs(case, d):
    sc = edge_scenario(case)
    rng = random.Random(case["gen_seed"] ^ 0xC04)
    v = case["vcf"]
    info_keys = rng.sample(["DP", "AF", "XR", "XS", "DB"], v["n_info"])
    fmt_pool = ["DP", "AD", "ADR", "XA", "PL", "XF", "XT", "XV", "GQ", "PQ"]
    if case["opts"]["distrust"]:
        # --distrust-genotypes reads PL as genotype likelihoods and crashes on a missing PL value (observed; not C04's subject)
        fmt_pool.remove("PL")
    fmt_keys = rng.sample(fmt_pool, min(v["n_fmt"], len(fmt_pool)))
    pre_of = {s: {"none": None, "PS": "PS", "HP": "HP", "per-sample": ["PS", "HP", None][i % 3]}[v["pre"]]
              for i, s in enumerate(sc.samples)}
    use_ps = any(p == "PS" for p in pre_of.values()) or v["decoys"] or bool(v.get("coloc")) or bool(v.get("edge"))
    use_hp = any(p == "HP" for p in pre_of.values())
    keys = ["GT"] + fmt_keys + (["PS"] if use_ps else []) + (["HP"] if use_hp else [])
    recs, deck = [], []

    def site_extras(n_alt):
        return {"id": rng.choice([".", ".", f"rs{rng.randrange(1000)}"]), "qual": rng.choice([".", "30", "12.5", "100"]),
                "filter": rng.choice([".", "PASS", "PASS", "q10", "q10;s50"]), "info": _info_value(rng, info_keys, n_alt)}

    def other_fields(call, n_alt):
        for k in fmt_keys:
            call[k] = _fmt_value(rng, k, n_alt)
        return call

    for r in sc.vcf_records():
        block = rng.choice([5, 17, 1000])
        calls = []
        for s, c in zip(sc.samples, r["calls"]):
            a, b = c["GT"].split("/")
            het = a != b
            if het and rng.random() < v["flip_prob"]:
                a, b = b, a
            call = other_fields({}, 1)
            pre = pre_of[s]
            if v["odd_gt"] and rng.random() < 0.12:
                call["GT"] = rng.choice(["./.", ".", "0/.", "./1", ".|."])
            elif het and pre == "PS" and rng.random() < 0.8:
                call["GT"] = f"{a}|{b}"; call["PS"] = str(block)
            elif het and pre == "HP" and rng.random() < 0.8:
                x, y = sorted((a, b))
                call["GT"] = f"{x}/{y}"; call["HP"] = rng.choice([f"{block}-1,{block}-2", f"{block}-2,{block}-1"])
            else:
                call["GT"] = f"{a}/{b}"
                if not het and pre == "PS" and rng.random() < 0.3:
                    call["GT"] = f"{a}|{b}"; call["PS"] = str(block)
            calls.append(call)
        if v["decoys"] and rng.random() < 0.12:
            # a multi-ALT record at the SAME position in front of the biallelic one (what `bcftools norm` leaves when
            # only some records are split): it is skipped, and the biallelic record behind it is still the one phased
            ref0 = r["ref"][0]
            alts0 = ([r["alts"][0]] if len(r["ref"]) == 1 and len(r["alts"][0]) == 1 else [])
            alts0 += [x for x in "ACGT" if x != ref0 and x not in alts0][:2 - len(alts0)]
            recs.append(dict(chrom=r["chrom"], pos=r["pos"], ref=ref0, alts=alts0, format=keys,
                             calls=[other_fields({"GT": rng.choice(["1/2", "0/1", "0/2", "1|2", "./."]),
                                                  "PS": rng.choice(["66", "."]), "HP": "."}, 2) for _ in sc.samples],
                             **site_extras(2)))
        behind = []
        at_edge = bool(v.get("edge")) and r["pos"] in edge_positions(v["edge"], sc.contigs[r["chrom"]])
        if (v.get("coloc") and rng.random() < v["coloc"]) or at_edge:
            # (kind, side) combinations are dealt round-robin from a shuffled deck: one case of ~16 records sees them all
            # (`coloc_fixed`: hand-written corpus cases name the combinations themselves)
            if not deck and v.get("coloc_fixed"):
                deck.extend(map(tuple, reversed(v["coloc_fixed"])))
            if not deck:
                deck.extend((k, sd) for k in COLOC_KINDS for sd in ("front", "behind"))
                rng.shuffle(deck)
            kind, side = map_edge(rng, v) if at_edge else deck.pop()
            both = [(kind, side)] + ([(rng.choice(COLOC_KINDS), "behind" if side == "front" else "front")] if rng.random() < 0.25 else [])
            if at_edge and not v.get("edge_fixed") and rng.random() < 0.4:
                # three or four records at the boundary position: a record of a skipped kind BETWEEN two SNVs as well
                both.append((rng.choice(["multi", "noalt", "many", "sym", "del"]), "behind"))
                both.append(("snv", "behind"))
            for kind, side in both:
                site = coloc_record(rng, kind, r, sc.contigs[r["chrom"]])
                if site is None:
                    continue
                n_alt = len(site["alts"])
                ex = site_extras(n_alt)
                if site["alts"] and site["alts"][0].startswith("<") and not (v.get("undeclared_info") and rng.random() < 0.5):
                    ex["info"] = f"END={r['pos'] + 6};SVTYPE={site['alts'][0][1:-1]}" + ("" if ex["info"] == "." else ";" + ex["info"])
                ccalls = []
                for _ in sc.samples:
                    gt = coloc_gt(rng, n_alt, v.get("coloc_het", 0.85))
                    call = other_fields({"GT": gt}, n_alt)
                    if "|" in gt and rng.random() < 0.7:
                        call["PS"] = rng.choice(["44", str(r["pos"] + 1)])
                    if use_hp and "/" in gt and rng.random() < 0.3:
                        call["HP"] = rng.choice(["44-1,44-2", "44-2,44-1"])
                    ccalls.append(call)
                rec = dict(chrom=r["chrom"], pos=r["pos"], format=keys, calls=ccalls, **site, **ex)
                (recs if side == "front" else behind).append(rec)
        recs.append(dict(r, calls=calls, format=keys, **site_extras(1)))
        recs.extend(behind)
        if not v["decoys"]:
            continue
        seq = sc.contigs[r["chrom"]]
        kind = rng.choice(["dup", "multi", "sym", "noalt", "nogt", "none", "none"])
        p = r["pos"] + len(r["ref"]) + 3
        if kind == "dup":
            alt2 = rng.choice([x for x in "ACGT" if x != r["ref"][0] and x != r["alts"][0][0]])
            recs.append(dict(chrom=r["chrom"], pos=r["pos"], ref=r["ref"][0], alts=[alt2], format=keys,
                             calls=[other_fields({"GT": rng.choice(["0|1", "1|0", "0/1", "1/1"]), "PS": "77",
                                                  "HP": rng.choice(["77-2,77-1", "."])}, 1) for _ in sc.samples], **site_extras(1)))
        elif p < len(seq) - 8:
            ref = seq[p]
            if kind == "multi":
                alts = [x for x in "ACGT" if x != ref][:2]
                recs.append(dict(chrom=r["chrom"], pos=p, ref=ref, alts=alts, format=keys,
                                 calls=[other_fields({"GT": rng.choice(["1|2", "2|1", "0|2", "1/2", "0/1", "./."]), "PS": "88",
                                                      "HP": rng.choice(["88-1,88-2", "."])}, 2) for _ in sc.samples], **site_extras(2)))
            elif kind == "sym":
                ex = site_extras(1)
                if not (v.get("undeclared_info") and rng.random() < 0.5):
                    # (otherwise the symbolic allele comes without END: `missing_headers` asks for the END definition anyway)
                    ex["info"] = f"END={p + 5};SVTYPE=DEL" + ("" if ex["info"] == "." else ";" + ex["info"])
                recs.append(dict(chrom=r["chrom"], pos=p, ref=ref, alts=["<DEL>"], format=keys,
                                 calls=[other_fields({"GT": rng.choice(["0/1", "0|1", "1/1", "0/0"]), "PS": "99"}, 1) for _ in sc.samples], **ex))
            elif kind == "noalt":
                recs.append(dict(chrom=r["chrom"], pos=p, ref=ref, alts=[], format=keys,
                                 calls=[other_fields({"GT": rng.choice(["0/0", "0|0", "./."]), "PS": "."}, 0) for _ in sc.samples], **site_extras(0)))
            elif kind == "nogt" and fmt_keys:
                alt = rng.choice([x for x in "ACGT" if x != ref])
                recs.append(dict(chrom=r["chrom"], pos=p, ref=ref, alts=[alt], format=list(fmt_keys),
                                 calls=[other_fields({}, 1) for _ in sc.samples], **site_extras(1)))
    if v.get("many_alts") and recs:
        # a record with 16 or more ALT alleles (more than the reader accepts even with multi-allelic support), in front
        # of or behind an ordinary record at the same position
        k = rng.randrange(len(recs))
        base = recs[k]
        n_alt = rng.choice([16, 17])
        ref0 = base["ref"][0]
        behind = rng.choice([0, 1])
        recs.insert(k + behind,
                    dict(chrom=base["chrom"], pos=base["pos"], ref=ref0,
                         alts=[ref0 + "C" * j + "G" for j in range(n_alt)], format=keys,
                         calls=[other_fields({"GT": rng.choice(["1/2", "0|3", "0/1", "./."]), "PS": rng.choice(["55", "."])}, n_alt)
                                for _ in sc.samples], **site_extras(n_alt)))
    if v.get("skipped_only_last"):
        # a last chromosome on which every record is of a kind the reader skips (multi-ALT, no ALT): whatshap sees no
        # variant at all there, yet all its records belong in the output
        sc.contigs["chrZ"] = sim.random_seq(rng, 300)
        seqz = sc.contigs["chrZ"]
        for p in (40, 90, 150, 210):
            ref = seqz[p]
            if rng.random() < 0.5:
                alts = [x for x in "ACGT" if x != ref][:2]
                recs.append(dict(chrom="chrZ", pos=p, ref=ref, alts=alts, format=keys,
                                 calls=[other_fields({"GT": rng.choice(["1/2", "0/2", "0/1", "./."])}, 2) for _ in sc.samples],
                                 **site_extras(2)))
            else:
                recs.append(dict(chrom="chrZ", pos=p, ref=ref, alts=[], format=keys,
                                 calls=[other_fields({"GT": rng.choice(["0/0", "./."])}, 0) for _ in sc.samples], **site_extras(0)))
    if v.get("split_chrom"):
        # the tail of the first chromosome comes back after all other chromosomes (not sorted by contig, still a VCF):
        # reader and writer both see it as one more table
        first = recs[0]["chrom"]
        own = [r for r in recs if r["chrom"] == first]
        cuts = [i for i in range(1, len(own)) if own[i]["pos"] > own[i - 1]["pos"]]
        if cuts and len({r["chrom"] for r in recs}) > 1:
            cut = rng.choice(cuts)
            tail = own[cut:]
            recs = [r for r in recs if not any(r is t for t in tail)] + tail
    if v.get("undeclared_filter"):
        for r in recs:
            if rng.random() < 0.3:
                r["filter"] = rng.choice(["q99", "q10;q99", "lowq"])
    refused = v.get("refused")
    if refused == "undef-format" and recs:
        r0 = rng.choice(recs)
        r0["format"] = list(r0["format"]) + ["XQ"]           # neither declared nor predefined
        for c in r0["calls"]:
            c["XQ"] = "7"
    elif refused == "undef-info" and recs:
        r0 = rng.choice(recs)
        r0["info"] = "XZ=3" if r0["info"] == "." else r0["info"] + ";XZ=3"
    fmt_defs, info_defs = {}, {}
    used_fmt = {k for r in recs for k in r["format"]} - {"XQ"}
    for k in sorted(used_fmt - {"GT"}):
        if k == "GQ" and v["undefined_gq"]:
            continue                      # predefined: whatshap adds the definition
        fmt_defs[k] = ODD_DEFS[k] if (v["odd_defs"] and k in ODD_DEFS) else FMT_DEFS[k]
        if v.get("odd_tag_defs") and k in ODD_TAG_DEFS:
            fmt_defs[k] = ODD_TAG_DEFS[k]
    if refused == "ps-string":
        fmt_defs["PS"] = PS_STRING
    for k in info_keys + (["END", "SVTYPE"] if any(r["alts"] and r["alts"][0].startswith("<") for r in recs) and not v.get("undeclared_info") else []):
        info_defs[k] = INFO_DEFS[k]
    if v.get("undeclared_info"):
        # predefined INFO keys used without a declaration (END/SVTYPE above, AC/AN here): whatshap adds the definitions
        for r in recs:
            if rng.random() < 0.3:
                r["info"] = "AC=1;AN=2" if r["info"] == "." else r["info"] + ";AC=1;AN=2"
    extra = [l for l in EXTRA_HEADER if v["phasing_line"] or not l.startswith("##phasing")]
    if v.get("phasing_twice") and v["phasing_line"]:
        extra.append("##phasing=partial")        # only the first `phasing` line is removed
    os.makedirs(d, exist_ok=True)
    fa, bam, vcf = (os.path.join(d, "in" + e) for e in (".fasta", ".bam", ".vcf"))
    sim.write_fasta(fa, sc.contigs)
    sim.write_bam(bam, sc.contigs, sc.reads, [("rg_" + s, s) for s in sc.samples])
    sim.write_vcf(vcf, sc.contigs, sc.samples, recs, extra_header=extra, fmt_defs=fmt_defs, info_defs=info_defs,
                  contig_header=v["contig_header"])
    with open(os.path.join(d, "in.ped"), "w") as f:
        f.write(sc.ped_text())
    return fa, bam, vcf, sc

"""C02 (round 10, seed C02-j): base-quality profiles as a routine dimension of the C02 BAM generator.

The reads stay error-free in sequence and alignment; only the base qualities vary.  With the documented behaviour the weight
of an allele observation is the constant 30 when a reference is given (re-alignment) and the base quality at the variant
without one — so with `--reference` NO quality profile may change anything, and a weight-0 observation must never exist.

Profiles (chosen per case on an own random stream, `scenario_seed ^ 0xC02A`):
  const30        every base Q30 (what the generator always did)
  mixed          every base drawn from {0, 2, 30, 93} (per read one of a few mixtures)
  long-q0        the longer half of the reads all '!' (Q0: PacBio CLR style), the shorter half Q30
  q0-variants    Q0 exactly at the bases aligned to variant positions (anchor base of an indel), Q30 elsewhere; in half of the reads
  q0-bridge      per (sample, contig) 1-3 cuts between consecutive variants; every template (read name) that covers variants on
                 both sides of a cut gets Q0 — on all its bases, or only at its variant columns —, every other read keeps Q30:
                 the two sides are phased by ordinary reads and linked ONLY through quality-0 observations
  missing        no qualities at all ('*' in SAM, 0xff in BAM) for all reads, or for a random half (tag-free: stripped after writing)
  positive-mixed every base from {2, 11, 30, 93} (the only mixed profile used without a reference)
"""
import os

import pysam

PROFILES = ["const30", "mixed", "long-q0", "q0-variants", "q0-bridge", "q0-bridge", "missing", "positive-mixed"]
POSITIVE = ["const30", "positive-mixed", "missing"]
MISSING_TAG = "XQ"       # marks the reads whose qualities are stripped by `strip_missing`


def gen_profile(rng, positive_only=False):
    return rng.choice(POSITIVE if positive_only else PROFILES)


def qpos_of(ref_pos, start, cigar):
    """query index of the base aligned to reference position `ref_pos` (None: not in an M/=/X block)"""
    rp, qp = start, 0
    for op, n in cigar:
        if op in (0, 7, 8):
            if rp <= ref_pos < rp + n:
                return qp + (ref_pos - rp)
            rp += n; qp += n
        elif op in (1, 4):
            qp += n
        elif op in (2, 3):
            rp += n
    return None


def variant_columns(r, variants):
    """query indices of the bases aligned to the positions of the variants the read's alignment overlaps"""
    out = []
    for v in variants:
        q = qpos_of(v.pos, r["start"], r["cigar"])
        if q is not None and q < len(r["seq"]):
            out.append(q)
    return out


def apply(rng, sc, profile):
    """set r["qual"] (list of ints) — and the tag that marks missing qualities — on every read of the scenario; returns a
    description for the case"""
    info = {"profile": profile}
    n = len(sc.reads)
    lens = sorted(len(r["seq"]) for r in sc.reads) or [0]
    median = lens[len(lens) // 2]
    for r in sc.reads:
        r["qual"] = [30] * len(r["seq"])
    if profile == "const30":
        pass
    elif profile in ("mixed", "positive-mixed"):
        pool = [0, 2, 30, 93] if profile == "mixed" else [2, 11, 30, 93]
        for r in sc.reads:
            kind = rng.randrange(3)
            if kind == 0:
                r["qual"] = [rng.choice(pool) for _ in r["seq"]]
            elif kind == 1:
                r["qual"] = [rng.choice(pool)] * len(r["seq"])
    elif profile == "long-q0":
        for r in sc.reads:
            if len(r["seq"]) > median:
                r["qual"] = [0] * len(r["seq"])
    elif profile == "q0-variants":
        for r in sc.reads:
            if rng.random() < 0.5:
                for q in variant_columns(r, sc.variants[r["chrom"]]):
                    r["qual"][q] = 0
    elif profile == "q0-bridge":
        cuts = {}
        whole = rng.random() < 0.5
        info["q0_on"] = "all bases of the bridging templates" if whole else "variant columns of the bridging templates"
        by_name = {}
        for r in sc.reads:
            by_name.setdefault((r["sample"], r["chrom"], r["name"]), []).append(r)
        for s in sc.samples:
            for c in sc.contigs:
                nv = len(sc.variants[c])
                if nv >= 4:
                    cuts[(s, c)] = sorted(rng.sample(range(1, nv), min(nv - 1, rng.choice([1, 1, 2, 3]))))
        info["cuts"] = {f"{s}:{c}": v for (s, c), v in cuts.items()}
        for (s, c, _), group in by_name.items():
            cov = sorted({i for r in group for i in r.get("covered", [])})
            if not cov:
                continue
            if any(cov[0] < cut <= cov[-1] for cut in cuts.get((s, c), [])):
                for r in group:
                    if whole:
                        r["qual"] = [0] * len(r["seq"])
                    else:
                        for q in variant_columns(r, sc.variants[c]):
                            r["qual"][q] = 0
    elif profile == "missing":
        frac = rng.choice([1.0, 1.0, 0.5])
        info["missing_fraction"] = frac
        for r in sc.reads:
            if rng.random() < frac:
                r["qual_missing"] = True
                r["tags"] = list(r.get("tags", [])) + [(MISSING_TAG, 1)]
    info["reads_with_q0_at_variant"] = sum(
        1 for r in sc.reads if not r.get("qual_missing") and any(r["qual"][q] == 0 for q in variant_columns(r, sc.variants[r["chrom"]])))
    return info


def strip_missing(path):
    """rewrite the BAM: alignments marked with the tag lose their qualities (and the tag)"""
    tmp = path + ".tmp.bam"
    changed = False
    with pysam.AlignmentFile(path) as inp, pysam.AlignmentFile(tmp, "wb", header=inp.header) as out:
        for a in inp:
            if a.has_tag(MISSING_TAG):
                a.set_tag(MISSING_TAG, None)
                a.query_qualities = None
                changed = True
            out.write(a)
    if changed:
        os.replace(tmp, path)
        pysam.index(path)
    else:
        os.remove(tmp)


def expected_weight(r, pos, with_reference):
    """the weight the documented behaviour gives the observation of the variant at `pos` made on alignment `r`
    (None: this alignment has no aligned base there)"""
    q = qpos_of(pos, r["start"], r["cigar"])
    if q is None or q >= len(r["seq"]):
        return None
    if with_reference or r.get("qual_missing"):
        return 30
    return r["qual"][q]

"""C07, round 10: caps beyond what `whatshap phase` accepts, and pile-ups deeper than such a cap.

The property is quantified over EVERY cap k >= 1 of `whatshap.readselect.readselection`; the command line stops at 23, the
library does not.  Two case forms (both compact, JSON-able):

  {"deep": {"positions": [...], "types": [[ [idx...], [quals...], preferred(0/1), multiplicity ], ...],
            "k": int, "bridging": bool, "pref_none": bool, "shuffle": seed}}
      a read set made of few read TYPES (index lists into `positions`) with large multiplicities, so that more than k reads
      span one variant for caps k around the limits of machine counters (2^7, 2^8, 2^9 …); `expand` turns it into the
      ordinary library case of harness/gen/c07_reads.py.

  {"mon": {"length": n, "ops": [["add", b, e, times] | ["max", b, e], ...]}}
      an operation sequence on the coverage monitor itself (`whatshap.coverage.CovMonitor`, the anchored state
      "number of selected reads spanning each variant index"): depths up to 2^16 + x are reached in milliseconds here,
      which `readselection` (one slice per unit of coverage) cannot do in a quick run.
"""
import random

from harness.gen import c07_reads as G

# caps around the limits of 7/8/9-bit counters and a few ordinary values above the CLI limit
DEEP_CAPS = [24, 31, 32, 33, 64, 100, 127, 127, 128, 128, 129, 200, 254, 255, 255, 256, 256, 256, 257, 257, 258, 300, 383, 400]
DEEP_CAPS_BIG = [511, 512, 513, 600]
# caps no read set of a quick run can reach: everything must be selected, whatever the representation of the cap
HUGE_CAPS = [1000, 32767, 32768, 65535, 65536, 65537, 2 ** 31 - 1, 2 ** 31, 2 ** 32, 2 ** 32 + 1, 2 ** 63 - 1, 2 ** 63,
             2 ** 64, 2 ** 64 + 5, 10 ** 30]


def deep_case(rng, big=False):
    npos = rng.randrange(2, 8)
    positions = G._positions(rng, npos)
    k = rng.choice(DEEP_CAPS_BIG if big else DEEP_CAPS)
    ntypes = rng.randrange(1, 7)
    quals = rng.choice([[1], [1, 2], [10, 20, 30]])
    types = []
    for _ in range(ntypes):
        pos, q, _ = G._read(rng, positions, rng.choice([2, 3, npos]), 0.3, quals)
        types.append([[positions.index(p) for p in pos], q, 0, 0])
    if rng.random() < 0.4:
        for t in types:
            t[2] = 1 if rng.random() < 0.4 else 0
    # the pile-up: one or two types get about k (+/- a few, or a good deal more) copies, so that the reads spanning their
    # variants number more than k; the others a handful or a fraction of k
    hot = rng.sample(range(ntypes), min(ntypes, rng.choice([1, 1, 2])))
    for j, t in enumerate(types):
        if j in hot:
            t[3] = max(1, k // len(hot) + rng.choice([0, 1, 1, 2, 3, 7, k // 8, k // 4, k // 2]))
        else:
            t[3] = rng.choice([1, 2, 5, max(1, k // 10), max(1, k // 3)])
    return {"deep": {"positions": positions, "types": types, "k": k, "bridging": rng.random() < 0.5,
                     "pref_none": rng.random() < 0.5, "shuffle": rng.randrange(1 << 30)}}


def expand(deep):
    """the library case ({"reads": …, "k": …}) of a deep case; the order of the reads is a seeded shuffle"""
    reads = []
    for idx, q, pref, mult in deep["types"]:
        pos = [deep["positions"][i] for i in idx]
        for _ in range(mult):
            reads.append([list(pos), list(q), pref])
    random.Random(deep["shuffle"]).shuffle(reads)
    return {"reads": reads, "k": deep["k"], "bridging": deep["bridging"], "pref_none": deep["pref_none"]}


def huge_cap_case(rng):
    """an ordinary read set with a cap far above its depth"""
    c = G.medium_case(rng) if rng.random() < 0.7 else G.small_case(rng, 8)
    c["k"] = rng.choice(HUGE_CAPS)
    return c


MON_DEPTHS = [3, 23, 24, 126, 127, 128, 129, 254, 255, 256, 257, 300, 511, 512, 513, 1000]
MON_DEPTHS_DEEP = [32767, 32768, 32769, 65535, 65536, 65537, 66000, 70000]


def mon_case(rng, deep=False):
    n = rng.randrange(2, 9)
    ops = []
    target = rng.choice(MON_DEPTHS_DEEP if deep else MON_DEPTHS)
    # a main range that receives `target` calls in a few instalments with queries in between, and side ranges
    b = rng.randrange(0, n - 1)
    e = rng.randrange(b + 2, n + 1)
    done = 0
    parts = sorted({rng.randrange(1, target + 1) for _ in range(rng.randrange(0, 3))} | {target})
    for p in parts:
        ops.append(["add", b, e, p - done])
        done = p
        for _ in range(rng.randrange(1, 4)):
            qb = rng.randrange(0, n)
            ops.append(["max", qb, rng.randrange(qb + 1, n + 1)])
        if rng.random() < 0.6:
            sb = rng.randrange(0, n - 1)
            ops.append(["add", sb, rng.randrange(sb + 1, n + 1), rng.choice([1, 2, 5, 100, 255, 256])])
    ops.append(["max", 0, n])
    ops.append(["max", b, e])
    return {"mon": {"length": n, "ops": ops}}

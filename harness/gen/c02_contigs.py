"""C02: multi-contig references whose contigs are related by LENGTH and/or SEQUENCE.

`sim.Scenario` draws every contig length independently from a range of ~900 values, so two contigs of one reference never
have the same length, let alone the same sequence.  Real references do: equal-length scaffolds / synthetic references /
amplicon panels, duplicated contigs (alt haplotypes, decoys, a plasmid listed twice), contigs whose lengths differ by one.
None of that is phase information: every chromosome is phased from ITS OWN reference sequence and ITS OWN reads, so C02's
predicate is the same.  Anything the implementation keeps from one chromosome (or sample) to the next — a copy of the
reference, a table keyed by length / name prefix / position — shows on these references and never on the independent ones.

`gen_contigs` draws 2-5 contigs; each contig after the first is related to its PREDECESSOR (the chromosome processed just
before it) or to a random earlier contig by one of
  equal        same length, independent random sequence
  near         same length, the other contig's sequence with ~2 % substitutions (paralogous scaffolds)
  identical    the very same sequence (its variants are drawn independently, so the two contigs still differ in the VCF)
  plus1/minus1 length differing by exactly one (independent sequence; or the other sequence with one base added/removed)
  prefix/suffix  the first / last 20..L/2 bases are the other contig's, the rest independent (same length or not)
  shifted      same length, the other sequence rotated by a few bases (every window is off by a constant)
  free         unrelated length
Contig names are drawn from several styles (chr1.., numeric, scaffold_*, names that are prefixes of one another) and the
order of the contigs is the order of FASTA, BAM header and VCF, i.e. the processing order.
"""
from harness.gen import sim

RELATIONS = ["equal", "equal", "equal", "near", "identical", "plus1", "minus1", "shifted", "prefix", "prefix", "suffix", "free"]


def _names(r, n):
    style = r.choice(["chr", "num", "scaffold", "prefix"])
    if style == "chr":
        return [f"chr{i + 1}" for i in range(n)], style
    if style == "num":
        return [str(i + 1) for i in range(n)], style
    if style == "scaffold":
        ids = r.sample(range(1, 60), n)
        return [f"scaffold_{i}" for i in ids], style
    base = ["ctg1", "ctg10", "ctg11", "ctg1_alt", "ctg100"]
    return r.sample(base, n), style


def gen_contigs(r, kinds, n_variants=(3, 10), length=(420, 1000)):
    """returns (given, info): given = {name: (sequence, [sim.Variant])} in processing order (for sim.Scenario(given=...)),
    info = JSON-able description (relations, lengths)"""
    n = r.choice([2, 2, 3, 3, 4, 5])
    names, style = _names(r, n)
    seqs, rels = [], []
    for i in range(n):
        if i == 0:
            seqs.append(sim.random_seq(r, r.randrange(*length)))
            rels.append("first")
            continue
        rel = r.choice(RELATIONS)
        other = seqs[i - 1] if r.random() < 0.7 else r.choice(seqs)
        L = len(other)
        if rel == "equal":
            s = sim.random_seq(r, L)
        elif rel == "near":
            s = "".join((r.choice([b for b in "ACGT" if b != c]) if r.random() < 0.02 else c) for c in other)
        elif rel == "identical":
            s = other
        elif rel == "plus1":
            if r.random() < 0.5:
                s = sim.random_seq(r, L + 1)
            else:
                k = r.randrange(L + 1)
                s = other[:k] + r.choice("ACGT") + other[k:]
        elif rel == "minus1":
            if r.random() < 0.5:
                s = sim.random_seq(r, L - 1)
            else:
                k = r.randrange(L)
                s = other[:k] + other[k + 1:]
        elif rel in ("prefix", "suffix"):
            # shares the first / last 20..L/2 bases with the other contig, independent beyond; same length half of the time
            k = r.randrange(20, max(21, L // 2))
            L2 = L if r.random() < 0.5 else r.randrange(*length)
            rest = sim.random_seq(r, max(30, L2 - k))
            s = other[:k] + rest if rel == "prefix" else rest + other[L - k:]
        elif rel == "shifted":
            k = r.randrange(1, 12)
            s = other[k:] + other[:k]
        else:
            s = sim.random_seq(r, r.randrange(*length))
        seqs.append(s)
        rels.append(rel)
    given = {}
    for name, s in zip(names, seqs):
        nv = r.randrange(n_variants[0], n_variants[1] + 1)
        given[name] = (s, sim.make_variants(r, name, s, nv, kinds=kinds))
    lens = [len(s) for s in seqs]
    info = {"names": style, "relations": rels, "lengths": lens,
            "equal_length_neighbours": sum(1 for a, b, x, y in zip(lens, lens[1:], seqs, seqs[1:]) if a == b and x != y),
            "identical_neighbours": sum(1 for x, y in zip(seqs, seqs[1:]) if x == y),
            "off_by_one_neighbours": sum(1 for a, b in zip(lens, lens[1:]) if abs(a - b) == 1)}
    return given, info

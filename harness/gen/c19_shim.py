"""C19: direct access to `src/genotype.cpp` / `src/binomial.cpp` of the tree under test.

`Genotype(uint64_t index, uint32_t ploidy)`, `get_code()` (the packed 64-bit word) and `operator<`/`==` on C++ objects
of different origin are not reachable through `whatshap.core` (the index constructor only through
`PhredGenotypeLikelihoods.genotypes()`, i.e. for all indices 0..count-1 at once).  This module compiles the two
translation units of the working tree (the same sources `wsbuild` compiles into `whatshap.core`, same `-std=c++11`)
together with a thin `extern "C"` layer into a shared object, cached by content hash under the verification cache
(outside /repo and /verif), and loads it with ctypes.  Nothing of the C++ is re-implemented here.
"""
import ctypes, hashlib, os, subprocess

REPO = os.environ.get("WHATSHAP_REPO", "/repo")
CACHE = os.environ.get("WHVERIF_CACHE", "/var/tmp/whatshap-verif")

SHIM = r"""
#include <cstring>
#include <stdexcept>
#include <string>
#include <vector>
#include "genotype.h"
#include "binomial.h"

struct Obs {
    uint64_t code; uint64_t index; uint32_t ploidy; uint32_t n; uint32_t vec[32];
    int hom; int dipbi; int none; char str[256];
};

static void fill(const Genotype& g, Obs* o) {
    o->code = g.get_code();
    o->ploidy = g.get_ploidy();
    o->index = g.get_index();
    std::vector<uint32_t> v = g.as_vector();
    o->n = v.size();
    for (size_t i = 0; i < v.size() && i < 32; i++) o->vec[i] = v[i];
    o->hom = g.is_homozygous(); o->dipbi = g.is_diploid_and_biallelic(); o->none = g.is_none();
    std::string s = g.toString();
    std::strncpy(o->str, s.c_str(), 255); o->str[255] = 0;
}
static int fail(const std::exception& e, char* msg) { std::strncpy(msg, e.what(), 255); msg[255] = 0; return 1; }

extern "C" {
int c19_from_index(uint64_t index, uint32_t ploidy, Obs* o, char* msg) {
    try { Genotype g(index, ploidy); fill(g, o); return 0; } catch (const std::exception& e) { return fail(e, msg); }
}
int c19_from_alleles(const uint32_t* a, uint32_t n, Obs* o, char* msg) {
    try { std::vector<uint32_t> v(a, a + n); Genotype g(v); fill(g, o); return 0; } catch (const std::exception& e) { return fail(e, msg); }
}
static Genotype make(int kind, uint64_t index, uint32_t ploidy, const uint32_t* a, uint32_t n) {
    if (kind == 0) { std::vector<uint32_t> v(a, a + n); return Genotype(v); }
    return Genotype(index, ploidy);
}
/* out[0..2] = (g == h), (g != h), (g < h) */
int c19_cmp(int k1, uint64_t i1, uint32_t p1, const uint32_t* a1, uint32_t n1,
            int k2, uint64_t i2, uint32_t p2, const uint32_t* a2, uint32_t n2, int* out, char* msg) {
    try {
        Genotype g = make(k1, i1, p1, a1, n1), h = make(k2, i2, p2, a2, n2);
        out[0] = (g == h); out[1] = (g != h); out[2] = (g < h);
        return 0;
    } catch (const std::exception& e) { return fail(e, msg); }
}
int c19_convert(uint64_t index, uint32_t ploidy, uint32_t* out, char* msg) {
    try {
        std::vector<uint32_t> v = convert_index_to_alleles(index, ploidy);
        for (size_t i = 0; i < v.size(); i++) out[i] = v[i];
        return 0;
    } catch (const std::exception& e) { return fail(e, msg); }
}
int c19_binom(int n, int k) { return binomial_coefficient(n, k); }
uint32_t c19_max_ploidy() { return get_max_genotype_ploidy(); }
uint32_t c19_max_alleles() { return get_max_genotype_alleles(); }
uint64_t c19_empty_code() { Genotype g; return g.get_code(); }
}
"""


class Obs(ctypes.Structure):
    _fields_ = [("code", ctypes.c_uint64), ("index", ctypes.c_uint64), ("ploidy", ctypes.c_uint32), ("n", ctypes.c_uint32),
                ("vec", ctypes.c_uint32 * 32), ("hom", ctypes.c_int), ("dipbi", ctypes.c_int), ("none", ctypes.c_int),
                ("str", ctypes.c_char * 256)]


class ShimError(Exception):
    pass


def build():
    """compile (or fetch from the cache) the shim for the tree under test; returns the path of the shared object"""
    srcs = ["src/genotype.cpp", "src/binomial.cpp", "src/genotype.h", "src/binomial.h"]
    h = hashlib.sha256(SHIM.encode())
    for s in srcs:
        with open(os.path.join(REPO, s), "rb") as f:
            h.update(s.encode() + b"\0" + hashlib.sha256(f.read()).digest())
    d = os.path.join(CACHE, "c19shim")
    os.makedirs(d, exist_ok=True)
    so = os.path.join(d, h.hexdigest()[:20] + ".so")
    if not os.path.exists(so):
        src = os.path.join(d, "shim-%d.cpp" % os.getpid())
        tmp = so + ".tmp%d" % os.getpid()
        with open(src, "w") as f:
            f.write(SHIM)
        try:
            r = subprocess.run(["g++", "-std=c++11", "-O2", "-fPIC", "-shared", "-Werror=return-type", "-Werror=narrowing",
                                "-I", os.path.join(REPO, "src"), src, os.path.join(REPO, "src/genotype.cpp"),
                                os.path.join(REPO, "src/binomial.cpp"), "-o", tmp], capture_output=True, text=True)
            if r.returncode != 0:
                raise ShimError("compiling src/genotype.cpp + src/binomial.cpp failed:\n" + r.stderr[-3000:])
            os.replace(tmp, so)
        finally:
            for p in (src, tmp):
                if os.path.exists(p):
                    os.remove(p)
        olds = sorted((os.path.join(d, x) for x in os.listdir(d) if x.endswith(".so")), key=os.path.getmtime, reverse=True)
        for p in olds[20:]:
            if p != so:
                os.remove(p)
    os.utime(so)
    return so


ERRS = (("Maximum ploidy", "ploidy"), ("Maximum alleles", "alleles"), ("not sorted", "unsorted"),
        ("Invalid set position", "setpos"), ("Invalid set allele", "setallele"), ("Invalid get position", "getpos"))


def err_name(msg):
    for pat, name in ERRS:
        if pat in msg:
            return {"err": name}
    return {"err": msg}


class Shim:
    def __init__(self):
        self.path = build()
        L = self.lib = ctypes.CDLL(self.path)
        u32p = ctypes.POINTER(ctypes.c_uint32)
        L.c19_from_index.argtypes = [ctypes.c_uint64, ctypes.c_uint32, ctypes.POINTER(Obs), ctypes.c_char_p]
        L.c19_from_alleles.argtypes = [u32p, ctypes.c_uint32, ctypes.POINTER(Obs), ctypes.c_char_p]
        L.c19_cmp.argtypes = [ctypes.c_int, ctypes.c_uint64, ctypes.c_uint32, u32p, ctypes.c_uint32] * 2 + \
                             [ctypes.POINTER(ctypes.c_int), ctypes.c_char_p]
        L.c19_convert.argtypes = [ctypes.c_uint64, ctypes.c_uint32, u32p, ctypes.c_char_p]
        L.c19_binom.argtypes = [ctypes.c_int, ctypes.c_int]
        L.c19_binom.restype = ctypes.c_int
        L.c19_max_ploidy.restype = ctypes.c_uint32
        L.c19_max_alleles.restype = ctypes.c_uint32
        L.c19_empty_code.restype = ctypes.c_uint64
        self.msg = ctypes.create_string_buffer(256)

    @staticmethod
    def _obs(o):
        s = o.str.decode()
        return {"code": str(o.code), "vector": [o.vec[i] for i in range(min(o.n, 32))], "index": o.index, "ploidy": o.ploidy,
                "none": bool(o.none), "hom": bool(o.hom), "dipbi": bool(o.dipbi),
                "str": None if s == "." else [int(x) for x in s.split("/")]}

    def from_index(self, index, ploidy):
        o = Obs()
        if self.lib.c19_from_index(index, ploidy, ctypes.byref(o), self.msg):
            return err_name(self.msg.value.decode())
        return self._obs(o)

    def from_alleles(self, alleles):
        o = Obs()
        arr = (ctypes.c_uint32 * max(1, len(alleles)))(*alleles)
        if self.lib.c19_from_alleles(arr, len(alleles), ctypes.byref(o), self.msg):
            return err_name(self.msg.value.decode())
        return self._obs(o)

    def _side(self, x):
        """x = ("a", alleles) or ("i", index, ploidy)"""
        if x[0] == "a":
            return [0, 0, 0, (ctypes.c_uint32 * max(1, len(x[1])))(*x[1]), len(x[1])]
        return [1, x[1], x[2], (ctypes.c_uint32 * 1)(), 0]

    def cmp(self, x, y):
        out = (ctypes.c_int * 3)()
        if self.lib.c19_cmp(*(self._side(x) + self._side(y) + [out, self.msg])):
            return {"err": "ctor"}
        return {"eq": bool(out[0]), "ne": bool(out[1]), "lt": bool(out[2])}

    def convert(self, index, ploidy):
        out = (ctypes.c_uint32 * max(1, ploidy))()
        if self.lib.c19_convert(index, ploidy, out, self.msg):
            return err_name(self.msg.value.decode())
        return [out[i] for i in range(ploidy)]

    def binom(self, n, k):
        return self.lib.c19_binom(n, k)

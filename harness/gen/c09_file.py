"""File-level inputs for C09 (in-process stream): a variant file V and one or two phase-input files P1, P2 over the same
contigs, written as plain text so that every shape the reader / writer / PhasedInputReader branch on is produced:

* 1-3 contigs, optionally a contig whose records come in two separate runs (chr1, chr2, chr1), optionally a contig of V
  that a phase file does not have (and vice versa), optionally one pair of records out of order (VcfNotSortedError);
* records the code skips: no ALT, multi-ALT, symbolic ALT, duplicate positions (before / after a skipped record of the
  same position), indels (skipped under --only-snvs);
* 1-3 samples in V; a phase file may lack a sample, have an extra one, list them in another order;
* per file and sample an encoding (PS, HP, none), optionally different encodings per contig (legal: `phase_detected` is
  per chromosome) or per sample (MixedPhasingError), phase-set ids that are not positions, `PS` on unphased GT, phased GT
  with PS `.` (block None) or without a PS key (block 0), phased homozygous calls, HP with either order, on sorted and
  unsorted GT, malformed HP values, missing / partial genotypes, haploid and triploid calls (PloidyError or not,
  depending on where they stand), PQ as Integer or Float (values 0, missing, fractional).
Deterministic in the case's `gen_seed`."""
import os
import random

from . import sim
from . import c09_layout as L

FMT_DEFS = {
    "PS": '##FORMAT=<ID=PS,Number=1,Type=Integer,Description="Phase set identifier">',
    "HP": '##FORMAT=<ID=HP,Number=.,Type=String,Description="Phasing haplotype identifier">',
    "PQ_int": '##FORMAT=<ID=PQ,Number=1,Type=Integer,Description="Phasing quality">',
    "PQ_float": '##FORMAT=<ID=PQ,Number=1,Type=Float,Description="Phasing quality">',
    "DP": '##FORMAT=<ID=DP,Number=1,Type=Integer,Description="Depth">',
}
BAD_HP = ["5-1", "5-1,6-2", "5-1,5-1", "5-1,5-2,5-3", "5-0,5-1", "x-1,x-2", "5,6", "5-,5-2", "5-2,5-3"]


def gen_file_case(rng, quick=True):
    case = _gen_file_case(rng, quick)
    # positions of different contigs coincide on purpose (c09_layout); with such a layout mostly a dense plan for the writer
    # (every position with a phase and a component for every target), so that the records at the coinciding positions are phased
    case["layout"] = L.pick_layout(case["gen_seed"], p_plain=0.5)
    if not L.is_plain(case["layout"]):
        case["n_contigs"] = case["layout"]["contigs"]
        case["dense_plan"] = (case["gen_seed"] >> 3) % 4 != 0
    return case


def _gen_file_case(rng, quick=True):
    return {"kind": "file", "gen_seed": rng.randrange(1 << 40),
            "n_samples": rng.choice([1, 2, 2, 3]), "n_contigs": rng.choice([1, 2, 2, 3]),
            "n_sites": rng.choice([5, 8, 10, 12] if quick else [4, 8, 12, 16]),
            "n_files": rng.choice([1, 1, 2]),
            "only_snvs": rng.random() < 0.25,
            "split_contig": rng.random() < 0.12,
            "unsorted": rng.random() < 0.06,
            "enc_mode": rng.choice(["uniform", "uniform", "uniform", "per-contig", "per-sample", "per-file"]),
            "weird": rng.choice([0.0, 0.0, 0.04, 0.12]),          # malformed HP, odd ploidies
            "pq": rng.choice(["none", "none", "int", "float"]),
            "sample_shuffle": rng.random() < 0.3,
            "tag": rng.choice(["PS", "HP"]), "rm": rng.random() < 0.7,
            "chrom_subset": rng.random() < 0.3, "sample_subset": rng.random() < 0.35,
            "no_gt_record": rng.random() < 0.04}


def _sites(rng, case, chrom):
    """[(pos, ref, alts)] incl. records the code has to skip"""
    out, pos = [], 30
    for _ in range(case["n_sites"]):
        pos += rng.randrange(15, 80)
        ref = rng.choice("ACGT")
        kind = rng.choice(["snv"] * 6 + ["ins", "del", "multi", "noalt", "sym"])
        other = [x for x in "ACGT" if x != ref]
        if kind == "snv":
            alts = [rng.choice(other)]
        elif kind == "ins":
            alts = [ref + rng.choice(["A", "CG", "T"])]
        elif kind == "del":
            ref, alts = ref + rng.choice(["A", "CG"]), [ref]
        elif kind == "multi":
            alts = rng.sample(other, 2)
        elif kind == "noalt":
            alts = []
        else:
            alts = ["<DEL>"]
        out.append((pos, ref, alts))
        if rng.random() < 0.3:
            # a second (and third) record at the same position
            for _ in range(rng.choice([1, 1, 2])):
                k2 = rng.choice(["snv", "snv", "ins", "multi", "noalt"])
                r2 = ref[0]
                o2 = [x for x in "ACGT" if x != r2]
                a2 = {"snv": [rng.choice(o2)], "ins": [r2 + "GG"], "multi": rng.sample(o2, 2), "noalt": []}[k2]
                out.append((pos, r2, a2))
    if case["unsorted"] and len(out) > 3 and chrom == "chr1":
        i = rng.randrange(1, len(out) - 1)
        out[i], out[i + 1] = out[i + 1], out[i]
    return out


def _gt_of(rng, n_alts):
    r = rng.random()
    hi = max(1, n_alts)
    if r < 0.62:
        return (0, hi) if hi == 1 else tuple(sorted(rng.sample(range(hi + 1), 2)))
    if r < 0.74:
        return (0, 0)
    if r < 0.86:
        return (hi, hi)
    if r < 0.92:
        return (None, None)
    return (None, 1) if rng.random() < 0.5 else (0, None)


def _fmt_gt(g, sep):
    return sep.join("." if a is None else str(a) for a in g)


def _phase_call(rng, case, enc, g, ids, weird):
    """one call of a phase file: dict of FORMAT values; `g` the (sorted) genotype tuple of the sample at the site"""
    call = {"PS": ".", "HP": ".", "PQ": "."}
    het = None not in g and len(set(g)) > 1
    r = rng.random()
    if weird and rng.random() < weird:
        w = rng.choice(["hap", "trip", "trip-phased", "badhp", "hp-missing-gt"])
        if w == "hap":
            call["GT"] = str(rng.choice([0, 1])); return call
        if w == "trip":
            call["GT"] = "0/1/1"; return call
        if w == "trip-phased":
            call["GT"] = "0|1|1"; call["PS"] = str(ids[0]); return call
        if w == "badhp" and enc == "HP":
            call["GT"] = _fmt_gt(g, "/"); call["HP"] = rng.choice(BAD_HP); return call
        if w == "hp-missing-gt" and enc == "HP":
            call["GT"] = rng.choice(["./.", "./1", "0/."]); call["HP"] = f"{ids[0]}-1,{ids[0]}-2"; return call
    block = ids[0] if rng.random() < 0.5 else rng.choice(ids)
    if enc == "PS":
        if het and r < 0.75:
            a, b = g if rng.random() < 0.5 else g[::-1]
            call["GT"] = f"{a}|{b}"
            call["PS"] = "." if rng.random() < 0.08 else str(block)
        elif het and r < 0.85:
            call["GT"] = _fmt_gt(g if rng.random() < 0.5 else g[::-1], "/"); call["PS"] = str(block)   # PS on unphased GT
        elif not het and None not in g and r < 0.3:
            call["GT"] = _fmt_gt(g, "|"); call["PS"] = str(block)                                        # phased hom
        elif None in g and r < 0.3:
            call["GT"] = _fmt_gt(g, "|")                                                                  # phased partial
        else:
            call["GT"] = _fmt_gt(g if rng.random() < 0.7 else g[::-1], "/")
    elif enc == "HP":
        gg = g if rng.random() < 0.8 else g[::-1]
        call["GT"] = _fmt_gt(gg, "/")
        if het and r < 0.8:
            call["HP"] = rng.choice([f"{block}-1,{block}-2", f"{block}-2,{block}-1"])
        elif not het and None not in g and r < 0.15:
            call["HP"] = f"{block}-1,{block}-2"                                                           # HP on a hom call
    else:
        call["GT"] = _fmt_gt(g if rng.random() < 0.7 else g[::-1], "/")
    if case["pq"] != "none" and (call["PS"] != "." or call["HP"] != "."):
        if case["pq"] == "int":
            call["PQ"] = rng.choice(["30", "7", "0", ".", "255"])
        elif case["pq"] == "float":
            call["PQ"] = rng.choice(["30", "12.5", "0.4", ".", "99.9"])
    return call


def build_file(case, d):
    """writes V.vcf and P1.vcf (P2.vcf); returns dict(V=..., P=[...], samples=[...], contigs=[...])"""
    rng = random.Random(case["gen_seed"])
    samples = [f"S{i}" for i in range(case["n_samples"])]
    contigs = [f"chr{c + 1}" for c in range(case["n_contigs"])]
    contig_seqs = {c: "N" * 6000 for c in contigs}
    sites = {c: _sites(rng, case, c) for c in contigs}
    lay = case.get("layout")
    base = (lay or {}).get("base", "independent")
    if not L.is_plain(lay) and len(contigs) > 1:
        if base in ("same", "identical"):
            for c in contigs[1:]:
                sites[c] = list(sites[contigs[0]])
        for prev, c in zip(contigs, contigs[1:]):
            def anchors(xs):
                return sorted({p for p, ref, alts in xs if L.phasable_record({"ref": ref, "alts": alts}, case["only_snvs"])})
            off = L.chain_offset(lay.get("chain"), sorted(p for p, _, _ in sites[prev]), anchors(sites[prev]),
                                 sorted(p for p, _, _ in sites[c]), anchors(sites[c]))
            sites[c] = [(p + off, ref, alts) for p, ref, alts in sites[c]]
    truth = {c: [[_gt_of(rng, len(alts)) for _ in samples] for (_, _, alts) in sites[c]] for c in contigs}
    if base == "identical":
        for c in contigs[1:]:
            truth[c] = [list(x) for x in truth[contigs[0]]]
    os.makedirs(d, exist_ok=True)
    # ---- variant file
    recs_v = []
    for c in contigs:
        for (pos, ref, alts), gts in zip(sites[c], truth[c]):
            calls = []
            for g in gts:
                if rng.random() < 0.08:
                    g = rng.choice([(0, 0), (1, 1), (None, None), (0, 1)])
                calls.append({"GT": _fmt_gt(g if rng.random() < 0.7 else g[::-1], "/"), "DP": str(rng.randrange(1, 50))})
            recs_v.append({"chrom": c, "pos": pos, "ref": ref, "alts": alts, "format": ["GT", "DP"], "calls": calls})
    V = os.path.join(d, "V.vcf")
    sim.write_vcf(V, contig_seqs, samples, recs_v, fmt_defs={"DP": FMT_DEFS["DP"]})
    # ---- phase files
    paths = []
    for fi in range(case["n_files"]):
        psamples = list(samples)
        if len(psamples) > 1 and rng.random() < 0.2:
            psamples.remove(rng.choice(psamples))               # the file lacks a sample of V
        if rng.random() < 0.15:
            psamples.append("X9")                                # ... or has one V does not know
        if case["sample_shuffle"]:
            rng.shuffle(psamples)
        pcontigs = list(contigs)
        if len(pcontigs) > 1 and rng.random() < 0.2:
            pcontigs.remove(rng.choice(pcontigs))               # the file lacks a contig of V
        base_enc = rng.choice(["PS", "HP"])
        enc_of = {}
        for c in contigs:
            for s in psamples:
                m = case["enc_mode"]
                if m == "uniform" or m == "per-file":
                    e = base_enc
                elif m == "per-contig":
                    e = ["PS", "HP"][(contigs.index(c) + (base_enc == "HP")) % 2]
                else:
                    e = ["PS", "HP", "none"][(psamples.index(s) + (base_enc == "HP")) % 3]
                enc_of[(c, s)] = e
        keys = ["GT"] + (["DP"] if rng.random() < 0.3 else [])
        drop_ps_key = rng.random() < 0.1                        # phased GT without a PS key: block 0
        fmt = keys + ([] if drop_ps_key else ["PS"]) + (["HP"] if any(e == "HP" for e in enc_of.values()) else [])
        if case["pq"] != "none":
            fmt.append("PQ")
        ids = rng.sample([3, 17, 250, 999, 4321, 77, 1000000], 3)
        groups = []
        for c in pcontigs:
            recs = []
            if base == "identical" and groups and c != pcontigs[0] and rng.random() < 0.8:
                # a copy of the file's first contig (calls, encodings, phase-set ids and all), shifted like its sites
                off = sites[c][0][0] - sites[pcontigs[0]][0][0]
                groups.append([dict(r, chrom=c, pos=r["pos"] + off, calls=[dict(x) for x in r["calls"]]) for r in groups[0]])
                continue
            for (pos, ref, alts), gts in zip(sites[c], truth[c]):
                if rng.random() < 0.1:
                    continue                                     # the phase file lacks this record
                calls = []
                for s in psamples:
                    g = gts[samples.index(s)] if s in samples else _gt_of(rng, len(alts))
                    if rng.random() < 0.05:
                        g = _gt_of(rng, len(alts))
                    call = _phase_call(rng, case, enc_of[(c, s)], g, ids, case["weird"])
                    call["DP"] = str(rng.randrange(1, 50))
                    calls.append(call)
                rec = {"chrom": c, "pos": pos, "ref": ref, "alts": alts, "format": fmt, "calls": calls}
                if case["no_gt_record"] and rng.random() < 0.15:
                    rec = dict(rec, format=[k for k in fmt if k != "GT"] or ["DP"])
                recs.append(rec)
            groups.append(recs)
        if case["split_contig"] and len(groups) > 1 and len(groups[0]) > 3:
            cut = len(groups[0]) // 2
            groups = [groups[0][:cut]] + groups[1:] + [groups[0][cut:]]
        defs = {k: FMT_DEFS[k] for k in fmt if k in FMT_DEFS}
        defs["DP"] = FMT_DEFS["DP"]                             # records without GT fall back to FORMAT DP
        if case["pq"] != "none":
            defs["PQ"] = FMT_DEFS["PQ_" + case["pq"]]
        P = os.path.join(d, f"P{fi + 1}.vcf")
        sim.write_vcf(P, contig_seqs, psamples, [r for g in groups for r in g], fmt_defs=defs)
        paths.append(P)
    return {"V": V, "P": paths, "samples": samples, "contigs": contigs}

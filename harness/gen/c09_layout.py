"""Cross-contig position layouts for the C09 generators.

The writer / reader / PhasedInputReader are driven once per chromosome; anything they remember from the chromosome before
(the position of the previously phased record, the previous record of the duplicate test, a cached table, a phase-set id
that is a position) only shows when positions of DIFFERENT contigs coincide.  Independently drawn contigs practically never
do, so every stream draws a layout (deterministic in the case's `gen_seed`, stored in the case):

  base   independent   every contig has its own sites (what the generators always did)
         same          every contig has the sites (positions) of the first one, genotypes / phase of its own
         identical     every contig is a copy of the first one (records, genotypes, phase, reads)
  chain  None          no shift
         ends          contig i+1 is shifted so that its FIRST record stands at the position of the LAST record of contig i
         phased        ... its first record that can be phased stands at the position of the last record of contig i that can be
                       phased (last phased position of contig i == first phased position of contig i+1)
         second        ... its SECOND phasable record stands at the position of the last phasable record of contig i (the
                       coincidence is in the middle of a phase set, not at its first member)
"""
import random

BASES = ["independent", "same", "identical"]
CHAINS = [None, "ends", "phased", "second"]


def pick_layout(gen_seed, p_plain=0.45):
    """layout of a case, derived from its seed (the stream's own PRNG is not consumed: cases without a layout stay what they
    were).  `plain` = independent contigs without a shift"""
    r = random.Random(gen_seed ^ 0x1A70C09)
    if r.random() < p_plain:
        return {"base": "independent", "chain": None}
    base = r.choice(["independent", "same", "same", "identical", "identical"])
    chain = r.choice(["phased", "phased", "phased", "ends", "second", None])
    if base == "independent" and chain is None:
        chain = "phased"
    return {"base": base, "chain": chain, "contigs": r.choice([2, 2, 3])}


def is_plain(layout):
    return not layout or (layout.get("base", "independent") == "independent" and not layout.get("chain"))


def tag(layout):
    return "plain" if is_plain(layout) else f"{layout.get('base', 'independent')}/{layout.get('chain') or 'noshift'}"


def chain_offset(chain, prev_positions, prev_anchor_positions, cur_positions, cur_anchor_positions):
    """shift for the current contig (its positions not yet shifted) so that the anchors coincide; 0 when impossible.
    *_positions: sorted positions of all records, *_anchor_positions: of those that can be phased"""
    if not chain or not prev_positions or not cur_positions:
        return 0
    if chain == "ends":
        last, first = prev_positions[-1], cur_positions[0]
    else:
        if not prev_anchor_positions or not cur_anchor_positions:
            return 0
        last = prev_anchor_positions[-1]
        first = cur_anchor_positions[1] if (chain == "second" and len(cur_anchor_positions) > 1) else cur_anchor_positions[0]
    off = last - first
    if cur_positions[0] + off < 1:
        return 0
    return off


# ------------------------------------------------------------------------------------------------
# record lists (generator-written VCFs: file stream, interleaved stream)
# ------------------------------------------------------------------------------------------------

def phasable_record(r, only_snvs):
    alts = r["alts"]
    if len(alts) != 1 or alts[0].startswith("<"):
        return False
    return not only_snvs or (len(r["ref"]) == 1 and len(alts[0]) == 1)


def _block_of(call):
    """phase-set id a generator-written call states, or None"""
    hp = call.get("HP", ".")
    if hp not in (".", None, ""):
        return "hp" + str(hp).split("-")[0]
    gt = call.get("GT", "")
    if "|" in gt and len(set(gt.split("|"))) > 1 and call.get("PS", ".") not in (".", None, ""):
        return "ps" + str(call["PS"])
    return None


def multi_set_positions(recs, only_snvs):
    """sorted positions of the phasable records of ONE contig at which some sample is in a phase set with >= 2 members"""
    count = {}
    for r in recs:
        if phasable_record(r, only_snvs):
            for si, c in enumerate(r["calls"]):
                b = _block_of(c)
                if b is not None:
                    count[(si, b)] = count.get((si, b), 0) + 1
    out = set()
    for r in recs:
        if phasable_record(r, only_snvs):
            for si, c in enumerate(r["calls"]):
                b = _block_of(c)
                if b is not None and count[(si, b)] >= 2:
                    out.add(r["pos"])
    return sorted(out)


def layout_record_groups(layout, groups, only_snvs, anchors=None):
    """groups: [[records of contig 1], [records of contig 2], ...] (several parallel files: pass a list of such lists with the
    same shape via `layout_parallel`).  Returns the offsets applied per contig"""
    return layout_parallel(layout, [groups], only_snvs, anchors)


def layout_parallel(layout, files, only_snvs, anchors=None):
    """files: [groups of file 1, groups of file 2, ...], all over the same contigs in the same order and (base same /
    identical) with the same number of records per contig.  Mutates the records in place (`pos`, for identical: the whole
    record list of contigs 2.. is replaced by a renamed copy of contig 1's).  `anchors(recs)` -> sorted anchor positions
    of one contig, evaluated on the LAST file (the phased one); default: phasable records in a multi-variant set.
    Returns the list of offsets"""
    if is_plain(layout) or not files or len(files[0]) < 2:
        return [0] * (len(files[0]) if files else 0)
    anchors = anchors or (lambda recs: multi_set_positions(recs, only_snvs))
    n = len(files[0])
    base = layout.get("base", "independent")
    for groups in files:
        first = groups[0]
        for k in range(1, n):
            if base == "identical":
                name = groups[k][0]["chrom"] if groups[k] else None
                if name is not None:
                    groups[k][:] = [dict(r, chrom=name, calls=[dict(c) for c in r["calls"]]) for r in first]
            elif base == "same":
                for r, r1 in zip(groups[k], first):
                    r["pos"] = r1["pos"]
                # (records beyond the length of contig 1 keep their own positions; sort to stay a legal file)
                groups[k].sort(key=lambda r: r["pos"])
    offs = [0]
    ref = files[-1]
    for k in range(1, n):
        prev, cur = ref[k - 1], ref[k]
        off = chain_offset(layout.get("chain"), sorted(r["pos"] for r in prev), anchors(prev),
                           sorted(r["pos"] for r in cur), anchors(cur))
        offs.append(off)
        if off:
            for groups in files:
                for r in groups[k]:
                    r["pos"] += off
    return offs


# ------------------------------------------------------------------------------------------------
# PedScenario (reference + reads + variants): histories of CLI runs
# ------------------------------------------------------------------------------------------------

def layout_scenario(sc, layout, only_snvs, seed):
    """mutates a PedScenario (unrelated samples only): contigs 2.. become (base same / identical) copies of contig 1 - identical:
    every sample keeps its haplotypes and reads; same: the haplotypes and reads are rotated among the samples, i.e. the same
    sites with other genotypes - and are shifted (chain) by a random reference prefix so that the anchors coincide"""
    from . import sim
    if is_plain(layout) or len(sc.contigs) < 2:
        return [0] * len(sc.contigs)
    rng = random.Random(seed ^ 0x5C1F7)
    names = list(sc.contigs)
    first = names[0]
    base = layout.get("base", "independent")
    ns = len(sc.samples)

    def het_positions(name):
        out = []
        for i, v in enumerate(sc.variants[name]):
            if only_snvs and v.kind != "snv":
                continue
            for s in sc.samples:
                h0, h1 = sc.haps[(s, name)]
                a, b = sc.gt_errors.get((s, name, i), (h0[i], h1[i]))
                if a != b:
                    out.append(v.pos)
                    break
        return sorted(out)

    if base in ("same", "identical"):
        reads1 = [r for r in sc.reads if r["chrom"] == first]
        sc.reads = list(reads1)
        for k, name in enumerate(names[1:], start=1):
            rot = k if base == "same" else 0
            sc.contigs[name] = sc.contigs[first]
            sc.variants[name] = [sim.Variant(name, v.pos, v.ref, v.alt, v.kind) for v in sc.variants[first]]
            for key in [key for key in sc.gt_errors if key[1] == name]:
                del sc.gt_errors[key]
            src_of = {s: sc.samples[(j + rot) % ns] for j, s in enumerate(sc.samples)}
            for s, src in src_of.items():
                h0, h1 = sc.haps[(src, first)]
                sc.haps[(s, name)] = (list(h0), list(h1))
                for (s1, n1, i), g in list(sc.gt_errors.items()):
                    if s1 == src and n1 == first:
                        sc.gt_errors[(s, name, i)] = g
                for r in reads1:
                    if r["sample"] == src:
                        sc.reads.append(dict(r, name=f"{r['name']}_c{k}_{s}", chrom=name, rg="rg_" + s, sample=s))
    offs = [0]
    for k in range(1, len(names)):
        prev, name = names[k - 1], names[k]
        off = chain_offset(layout.get("chain"), sorted(v.pos for v in sc.variants[prev]), het_positions(prev),
                           sorted(v.pos for v in sc.variants[name]), het_positions(name))
        off = max(0, off)
        offs.append(off)
        if off:
            sc.contigs[name] = sim.random_seq(rng, off) + sc.contigs[name]
            for v in sc.variants[name]:
                v.pos += off
            for r in sc.reads:
                if r["chrom"] == name:
                    r["start"] += off
    return offs

"""Pedigree scenarios for C20 (and C09/C04 pipeline runs): several chromosomes, several families
(trios / quartets / unrelated singles), children built from their parents' haplotypes with optional
recombination, error-free reads per sample, optional genotype errors in the VCF (for
--distrust-genotypes).  Deterministic in the `rng` passed in; a case is regenerated from its stored
`gen_seed` + `params`, never from the run's PRNG."""
import os
import random

from . import sim


class PedScenario:
    def __init__(self, rng, n_contigs=2, n_trios=1, quartet=False, n_singles=1, n_variants=(4, 9), depth=(3, 6),
                 read_len=(120, 400), het_prob=0.6, recomb_prob=0.5, gt_error_prob=0.0, kinds=("snv",),
                 contig_len=(500, 1100), shuffle_samples=True, empty_last_contig=False):
        self.rng = rng
        self.contigs, self.variants, self.haps = {}, {}, {}
        self.trios = []          # (father, mother, child)
        self.samples = []
        for k in range(n_trios):
            # the first child's name sorts before or after its sibling's ("D…"): PED lines are not always alphabetical
            f, m, c = f"F{k}", f"M{k}", (f"C{k}" if rng.random() < 0.5 else f"Z{k}")
            self.samples += [f, m, c]
            self.trios.append((f, m, c))
            if quartet and k == 0:
                self.samples.append(f"D{k}")
                self.trios.append((f, m, f"D{k}"))
        for j in range(n_singles):
            self.samples.append(f"S{j}")
        children = {c: (f, m) for f, m, c in self.trios}
        for ci in range(n_contigs):
            name = f"chr{ci + 1}"
            L = rng.randrange(*contig_len)
            seq = sim.random_seq(rng, L)
            self.contigs[name] = seq
            nv = rng.randrange(n_variants[0], n_variants[1] + 1)
            vs = sim.make_variants(rng, name, seq, nv, kinds=kinds, min_gap=22)
            self.variants[name] = vs
            n = len(vs)
            all_ref = empty_last_contig and ci == n_contigs - 1   # nothing to phase for anybody on this contig
            for s in self.samples:
                if s in children:
                    continue
                h0, h1 = [], []
                for _ in vs:
                    a = rng.randrange(2)
                    if all_ref:
                        h0.append(0); h1.append(0)
                    elif rng.random() < het_prob:
                        h0.append(a); h1.append(1 - a)
                    else:
                        h0.append(a); h1.append(a)
                self.haps[(s, name)] = (h0, h1)
            for s, (f, m) in children.items():
                hs = []
                for parent in (f, m):
                    cur = rng.randrange(2)
                    bp = rng.randrange(2, n) if (n > 3 and rng.random() < recomb_prob) else None
                    h = []
                    for i in range(n):
                        if bp is not None and i == bp:
                            cur = 1 - cur
                        h.append(self.haps[(parent, name)][cur][i])
                    hs.append(h)
                self.haps[(s, name)] = (hs[0], hs[1])
        if shuffle_samples:
            rng.shuffle(self.samples)
        # genotype errors written into the VCF (truth stays in self.haps)
        self.gt_errors = {}
        for name, vs in self.variants.items():
            for i in range(len(vs)):
                for s in self.samples:
                    if rng.random() < gt_error_prob:
                        h0, h1 = self.haps[(s, name)]
                        a, b = sorted((h0[i], h1[i]))
                        self.gt_errors[(s, name, i)] = rng.choice([g for g in ((0, 0), (0, 1), (1, 1)) if g != (a, b)])
        self.reads = []
        rid = 0
        for s in self.samples:
            for name, seq in self.contigs.items():
                L = len(seq)
                d = rng.randrange(depth[0], depth[1] + 1)
                n_reads = max(1, int(d * L / ((read_len[0] + read_len[1]) / 2)))
                for _ in range(n_reads):
                    rl = rng.randrange(read_len[0], read_len[1] + 1)
                    st = rng.randrange(0, max(1, L - rl))
                    h = rng.randrange(2)
                    hr = sim.hap_read(seq, self.variants[name], self.haps[(s, name)][h], st, min(L, st + rl))
                    if hr is None:
                        continue
                    start, cigar, q, covered = hr
                    rid += 1
                    self.reads.append({"name": f"r{rid}_{s}_h{h}", "chrom": name, "start": start, "cigar": cigar, "seq": q,
                                       "rg": "rg_" + s, "sample": s, "hap": h, "covered": covered, "mapq": 60})

    def vcf_records(self):
        recs = []
        for name in self.contigs:
            for i, v in enumerate(self.variants[name]):
                calls = []
                for s in self.samples:
                    h0, h1 = self.haps[(s, name)]
                    a, b = self.gt_errors.get((s, name, i), tuple(sorted((h0[i], h1[i]))))
                    calls.append({"GT": f"{a}/{b}"})
                recs.append({"chrom": name, "pos": v.pos, "ref": v.ref, "alts": [v.alt], "calls": calls, "format": ["GT"]})
        return recs

    def ped_text(self):
        return "".join(f"fam{i}\t{c}\t{f}\t{m}\t0\t1\n" for i, (f, m, c) in enumerate(self.trios))

    def write(self, d, prefix="in"):
        os.makedirs(d, exist_ok=True)
        fa, bam, vcf, ped = (os.path.join(d, prefix + e) for e in (".fasta", ".bam", ".vcf", ".ped"))
        sim.write_fasta(fa, self.contigs)
        sim.write_bam(bam, self.contigs, self.reads, [("rg_" + s, s) for s in self.samples])
        sim.write_vcf(vcf, self.contigs, self.samples, self.vcf_records())
        with open(ped, "w") as f:
            f.write(self.ped_text())
        return fa, bam, vcf, ped


def scenario_from_case(case):
    """rebuild the scenario of a stored case (gen_seed + params)"""
    return PedScenario(random.Random(case["gen_seed"]), **case["params"])

"""C02: how the reads of a scenario are handed to `whatshap phase` — alignment files, read groups, read names, processes.

`whatshap phase` takes any number of BAM/CRAM files; a read belongs to the sample named by the `SM` of the `@RG` header line
of ITS OWN FILE whose `ID` equals the read's `RG` tag.  Read-group IDs are only unique within one file: per-sample BAMs
routinely all use `@RG ID:1`.  None of this is phase information, so C02's predicate is the same for every layout.

`gen_layout` draws (from its own random stream) one layout for a scenario:
  files        per-sample files (1-3 files per sample, CLI order shuffled) | mixed files (2-4 files, each a subset of the
               samples, every sample somewhere) | one file
  read groups  1-3 per (file, sample); ID styles: numbered 1..n in every file in a per-file shuffled order (the same ID names
               DIFFERENT samples in different files), small shared pool, globally unique, legacy `rg_<sample>`
  decoys       header-only @RG lines: for a sample that has no reads in this file, or without SM (whatshap only warns)
  names        globally unique, or numbered per file (same name in different files, also across samples)
Mates (same name) stay together.  Every file keeps at least one read (whatshap rejects empty alignment files).

`run_inprocess` runs several `whatshap` command lines one after the other in ONE Python interpreter (the overlay's
`whatshap.__main__.main`), each with its own trace file: what a notebook / pipeline script calling whatshap as a library
does; nothing of one run may leak into the next.
"""
import json, os, subprocess

from harness.gen import sim

POOL = ["1", "2", "3", "4", "A", "B", "5", "6", "7", "8", "9", "C"]


def gen_layout(r, samples, reads):
    """reads: the scenario's read dicts (keys name, sample; mates share a name).
    Returns (files, place, info): files = [[(rg id, SM or None), ...] per file] (header order), place = [(file index, rg id,
    read name) per read], info = small JSON-able description."""
    mode = r.choice(["per-sample", "per-sample", "mixed", "one-file"])
    if mode == "per-sample":
        holders = []
        for s in samples:
            holders += [[s] for _ in range(r.choice([1, 1, 2, 3]))]
        r.shuffle(holders)
    elif mode == "mixed":
        holders = [[s for s in samples if r.random() < 0.6] for _ in range(r.choice([2, 2, 3, 4]))]
        for s in samples:
            if not any(s in h for h in holders):
                r.choice(holders).append(s)
        holders = [h for h in holders if h]
    else:
        holders = [list(samples)]
    style = r.choice(["numbered", "numbered", "pool", "unique", "legacy"])
    names = r.choice(["unique", "per-file"])
    files, slots = [], {s: [] for s in samples}
    for fi, h in enumerate(holders):
        sl = [(s, k) for s in h for k in range(r.choice([1, 1, 2, 3]))]
        r.shuffle(sl)
        if style == "numbered":
            ids = [str(i + 1) for i in range(len(sl))]
        elif style == "pool":
            ids = r.sample(POOL[:max(4, len(sl) + 1)], len(sl))
        elif style == "unique":
            ids = [f"f{fi}.{s}.{k}" for s, k in sl]
        else:
            ids = ["rg_" + s if k == 0 else f"rg_{s}_{k}" for s, k in sl]
        rgs = [(i, s) for i, (s, _) in zip(ids, sl)]
        for i, s in rgs:
            slots[s].append((fi, i))
        files.append(rgs)
    # place the reads (mates together)
    groups = {}
    for idx, rd in enumerate(reads):
        groups.setdefault(rd["name"], []).append(idx)
    where = {}
    for nm, idxs in groups.items():
        where[nm] = r.choice(slots[reads[idxs[0]]["sample"]])
    # no empty file: move one name group of a sample the file holds into it, else drop the file
    for fi, rgs in enumerate(files):
        if any(w[0] == fi for w in where.values()):
            continue
        cnt = {}
        for nm, w in where.items():
            cnt[w[0]] = cnt.get(w[0], 0) + 1
        movable = [nm for nm, w in where.items() if cnt[w[0]] >= 2 and any(sm == reads[groups[nm][0]]["sample"] for _, sm in rgs)]
        if movable:
            nm = r.choice(movable)
            s = reads[groups[nm][0]]["sample"]
            where[nm] = (fi, r.choice([i for i, sm in rgs if sm == s]))
    keep = [fi for fi in range(len(files)) if any(w[0] == fi for w in where.values())]
    renum = {fi: k for k, fi in enumerate(keep)}
    files = [list(files[fi]) for fi in keep]
    if not files:
        files = [[("rg_" + s, s) for s in samples]]
    for s in samples:      # a sample must be named by some header, or whatshap refuses the run (not a C02 matter)
        if not any(sm == s for rgs in files for _, sm in rgs):
            files[0].append((f"only.{s}", s))
    # decoys: header-only read groups
    for fi, rgs in enumerate(files):
        used = {i for i, _ in rgs}
        free = [i for i in POOL if i not in used]
        if r.random() < 0.25 and free:
            absent = [s for s in samples if not any(sm == s for _, sm in rgs)] or ["ghost"]
            rgs.append((free.pop(0), r.choice(absent)))
        if r.random() < 0.1 and free:
            rgs.append((free.pop(0), None))
        r.shuffle(rgs)
    counters = [0] * len(files)
    newname = {}
    for nm, (fi, _) in where.items():
        f = renum[fi]
        if names == "per-file":
            newname[nm] = f"q{counters[f]}"
            counters[f] += 1
        else:
            newname[nm] = nm
    place = [(renum[where[rd["name"]][0]], where[rd["name"]][1], newname[rd["name"]]) for rd in reads]
    owner = {}
    for rgs in files:
        for i, sm in rgs:
            if sm is not None:
                owner.setdefault(i, set()).add(sm)
    info = {"mode": mode, "rg_ids": style, "names": names, "files": [[[i, sm] for i, sm in rgs] for rgs in files],
            "colliding_ids": sorted(i for i, o in owner.items() if len(o) > 1)}
    return files, place, info


def write_layout(d, contigs, reads, files, place):
    """write the BAM files of a layout into directory d; returns their paths in CLI order (= source_id order)"""
    os.makedirs(d, exist_ok=True)
    paths = []
    for fi, rgs in enumerate(files):
        mine = [dict(rd, rg=rg, name=nm) for rd, (f, rg, nm) in zip(reads, place) if f == fi]
        p = os.path.join(d, f"in{fi}.bam")
        sim.write_bam(p, contigs, mine, rgs)
        paths.append(p)
    return paths


DRIVER = r'''
import json, os, sys, traceback
jobs = json.load(open(sys.argv[1]))
from whatshap.__main__ import main
res = []
for job in jobs:
    os.environ["WHATSHAP_VERIF_TRACE"] = job["trace"]
    rc, err = 0, ""
    try:
        main([str(a) for a in job["args"]])
    except SystemExit as e:
        rc = e.code if isinstance(e.code, int) else (0 if e.code is None else 1)
        err = "SystemExit(%r)" % (e.code,)
    except BaseException:
        rc, err = 1, traceback.format_exc()
    res.append({"rc": rc, "err": err})
json.dump(res, open(sys.argv[2], "w"))
'''


def run_inprocess(jobs, overlay, wd, timeout=900):
    """jobs: [{"args": [...], "trace": path}]: all run in ONE interpreter, in order.
    Returns [(rc, stderr tail, trace records)] per job."""
    if not os.path.exists(os.path.join(overlay, "whatshap", "__init__.py")):
        raise RuntimeError("overlay %s disappeared: refusing to fall back to the installed whatshap" % overlay)
    drv, jf, rf = (os.path.join(wd, n) for n in ("c02_driver.py", "c02_jobs.json", "c02_results.json"))
    with open(drv, "w") as f:
        f.write(DRIVER)
    for j in jobs:
        if os.path.exists(j["trace"]):
            os.remove(j["trace"])
    json.dump(jobs, open(jf, "w"))
    if os.path.exists(rf):
        os.remove(rf)
    env = dict(os.environ)
    env["PYTHONPATH"] = overlay
    p = subprocess.run([sim.PY, drv, jf, rf], env=env, capture_output=True, text=True, timeout=timeout, cwd=wd)
    res = json.load(open(rf)) if os.path.exists(rf) else [{"rc": p.returncode or 1, "err": "driver died: " + p.stderr[-400:]}] * len(jobs)
    out = []
    for j, x in zip(jobs, res):
        recs = [json.loads(l) for l in open(j["trace"])] if os.path.exists(j["trace"]) else []
        out.append((x["rc"], (x["err"] or p.stderr)[-400:], recs))
    return out

"""Standalone reproducers for F12-F16 (and F11). Run from the /verif checkout:
   PYTHONPATH=<whatshap tree to test>:/verif /venv/bin/python -m harness.gen.c06_repro [workdir]
Each case: reference, VCF variants, one or two reads (start, CIGAR, sequence, flag) -> ReadSetReader.read."""
import os, sys
from harness.gen import sim
from whatshap.variants import ReadSetReader
from whatshap.core import NumericSampleIds
from whatshap.vcf import VcfReader

d = sys.argv[1] if len(sys.argv) > 1 else "/var/tmp/c06-repro"
os.makedirs(d, exist_ok=True)


def run(name, ref, variants, reads, with_reference, expect):
    contigs = {"chr1": ref}
    bam, vcf = os.path.join(d, name + ".bam"), os.path.join(d, name + ".vcf")
    sim.write_bam(bam, contigs, [dict(name=r[0], chrom="chr1", start=r[1], cigar=r[2], seq=r[3], flag=r[4], rg="rg", mapq=60) for r in reads],
                  [("rg", "S")])
    sim.write_vcf(vcf, contigs, ["S"], [dict(chrom="chr1", pos=p, ref=a, alts=[b], calls=[{"GT": "0/1"}], format=["GT"]) for p, a, b in variants])
    vs = list(VcfReader(vcf, only_snvs=False))[0].variants
    rd = ReadSetReader([bam], reference=None, numeric_sample_ids=NumericSampleIds())
    rs = rd.read("chr1", vs, "S", ref if with_reference else None)
    got = {r.name: [(v.position, v.allele) for v in r] for r in rs}
    print(f"{name:5s} {'with' if with_reference else 'without'} reference: recorded {got}   expected {expect}   {'OK' if got == expect else 'DEFECT'}")


M, I, D, N, S = 0, 1, 2, 3, 4
ref = "ACGTTGCAAGCTTGACCGTAGGCTAACGTTAGCCATGGATCCGATTACGGCTAGCTAGGATCCAGTCAAGT"   # 70 bp
# F12: FR pair (mate 1 forward, mate 2 reverse), an SNV on each mate, both ALT
m1 = ref[5:10] + "T" + ref[11:30]; m2 = ref[40:50] + "G" + ref[51:65]
run("F12", ref, [(10, ref[10], "T"), (50, ref[50], "G")],
    [("p", 5, [(M, 25)], m1, 1 | 2 | 64 | 32), ("p", 40, [(M, 25)], m2, 1 | 2 | 128 | 16)], True, {"p": [(10, 1), (50, 1)]})
# F13: deletion of CTT after G at 9 (REF GCTT); read carries REF
run("F13", ref, [(9, ref[9:13], ref[9])], [("r", 2, [(M, 30)], ref[2:32], 0)], False, {"r": [(9, 0)]})
# F14: insertion of A after position 20 (read carries it), an N skip starts 3 bp further on; the reference inside the
# skipped region happens to continue with ACGT, so the *untruncated* REF padding explains the truncated query better
ref14 = ref[:21] + "CGTACGTTTTTTTTTT" + ref[37:]
rd_ = ref14[5:21] + "A" + ref14[21:24] + ref14[40:46]
run("F14", ref14, [(20, ref14[20], ref14[20] + "A")], [("r", 5, [(M, 16), (I, 1), (M, 3), (N, 16), (M, 6)], rd_, 0)], True, {"r": [(20, 1)]})
# F15: insertion anchored at 19; the read starts at 20 (its first bases, soft-clipped, are the inserted ones)
run("F15", ref, [(19, ref[19], ref[19] + "TTT")], [("r", 20, [(S, 3), (M, 25)], "TTT" + ref[20:45], 0)], False, {})
# F16: the haplotype carries two insertions, after 20 (5 bases, not in the VCF) and after 23 (CC, in the VCF)
rd_ = ref[5:21] + "ACACA" + ref[21:24] + "CC" + ref[24:45]
run("F16", ref, [(23, ref[23], ref[23] + "CC")], [("r", 5, [(M, 16), (I, 5), (M, 3), (I, 2), (M, 21)], rd_, 0)], False, {"r": [(23, 1)]})

"""Command lines of `whatshap phase` for the C07 pipeline stream: every option of the argument parser that can plausibly
influence which reads reach the solver, in random combinations and spellings.

Two sources are combined:

* `DOC`: the documented command-line interface of `whatshap phase` (docs + `add_arguments` of the unchanged code, incl. the
  hidden `help=SUPPRESS` options and what the documentation says they do: nothing).  This table and `expect()` below are
  the REFERENCE (independent of the working tree): which command lines are rejected, and for an accepted one the cap, the
  mapping-quality threshold, the samples / chromosomes / families that are processed.
* `real_options()`: the options the working tree's parser actually accepts (`whatshap.cli.phase.add_arguments` on a fresh
  parser).  Spellings are drawn from it (all option strings, unique prefixes, `--opt=value`, attached short values), and an
  option that is NOT in `DOC` (a new alias, a new hidden switch) is exercised too: by the documentation it does not exist, so
  it must not change which reads are selected (rejecting it is fine as well).

A case is JSON-able and self-contained:
    {"opts": {"seed": …, "layout": …, "kinds": […], "depth": [lo, hi], "n_contigs": n, "n_variants": [lo, hi],
              "pre": ["--debug"], "items": [[dest, value-or-None, spelling, style], …], "order": "before"|"after"|"split"}}
`items` in command-line order; paths are placeholders (`@FA`, `@PED`, `@GENMAP`, `@D/<name>`), resolved by `render`.
"""
import argparse
import re

LAYOUTS = {"single": ["S1"], "multi2": ["S1", "S2"], "multi3": ["S1", "S2", "S3"], "trio": ["S1", "S2", "S3"]}

# dest -> (option strings of the unchanged code, kind).  kinds: int, float, flag, choice:<a,b>, sample, chrom, out (a file
# that is written), fasta, ped, genmap, str
DOC = {
    "reference": (["--reference", "-r"], "fasta"),
    "no_reference": (["--no-reference"], "flag"),
    "tag": (["--tag"], "choice:PS,HP"),
    "read_list_filename": (["--output-read-list"], "out"),
    "max_coverage_was_used": (["--max-coverage", "-H"], "int"),          # hidden, "no longer supported": no effect
    "row_limit": (["--row-limit", "-L"], "int"),                         # only for --algorithm heuristic
    "max_coverage": (["--internal-downsampling"], "int"),                # THE cap; > 23 rejected
    "mapping_quality": (["--mapping-quality", "--mapq"], "int"),
    "indels_used": (["--indels"], "flag"),                               # hidden, ignored (indels are phased by default)
    "only_snvs": (["--only-snvs"], "flag"),
    "ignore_read_groups": (["--ignore-read-groups"], "flag"),
    "samples": (["--sample"], "sample"),
    "chromosomes": (["--chromosome"], "chrom"),
    "read_merging_error_rate": (["--error-rate"], "float"),              # the four: only active with --merge-reads
    "read_merging_max_error_rate": (["--maximum-error-rate"], "float"),
    "read_merging_positive_threshold": (["--threshold"], "int"),
    "read_merging_negative_threshold": (["--negative-threshold"], "int"),
    "full_genotyping": (["--full-genotyping"], "flag"),                  # hidden, removed: rejected
    "distrust_genotypes": (["--distrust-genotypes"], "flag"),
    "include_homozygous": (["--include-homozygous"], "flag"),
    "default_gq": (["--default-gq"], "int"),
    "gl_regularizer": (["--gl-regularizer"], "float"),
    "gtchange_list_filename": (["--changed-genotype-list"], "out"),
    "ped": (["--ped"], "ped"),
    "recombination_list_filename": (["--recombination-list"], "out"),
    "recombrate": (["--recombrate"], "float"),
    "genmap": (["--genmap"], "genmap"),
    "genetic_haplotyping": (["--no-genetic-haplotyping"], "flag"),
    "use_ped_samples": (["--use-ped-samples"], "flag"),
    "use_supplementary": (["--use-supplementary"], "flag"),
    "supplementary_distance_threshold": (["--supplementary-distance"], "str"),
}
# never passed by this stream (outside the C07 statement) / positional / always passed
NOT_EXERCISED = {"help", "variant_file", "phase_input_files", "output", "read_merging", "algorithm"}
MAPQ_PALETTE = [0, 5, 19, 20, 21, 29, 30, 40]


def real_options():
    """the options of the working tree's `whatshap phase` parser: [{dest, strings, kind, hidden, documented}]"""
    from whatshap.cli import phase
    p = argparse.ArgumentParser(add_help=True)
    phase.add_arguments(p)
    out = []
    for a in p._actions:
        if not a.option_strings:
            continue
        if a.nargs == 0:
            kind = "flag"
        elif a.choices:
            kind = "choice:" + ",".join(str(c) for c in a.choices)
        elif a.type is int:
            kind = "int"
        elif a.type is float:
            kind = "float"
        else:
            kind = "str"
        out.append({"dest": a.dest, "strings": list(a.option_strings), "kind": kind, "hidden": a.help == argparse.SUPPRESS,
                    "documented": a.dest in DOC or a.dest in NOT_EXERCISED, "append": type(a).__name__ == "_AppendAction"})
    return out


def doc_options():
    """the same list from the documentation table only (used when the working tree's parser is not importable)"""
    return [{"dest": d, "strings": list(s), "kind": k, "hidden": d in ("max_coverage_was_used", "indels_used", "full_genotyping"),
             "documented": True, "append": d in ("samples", "chromosomes")} for d, (s, k) in DOC.items()]


def _spellings(opt, all_long):
    """every way to write the option: its strings, and unique prefixes of the long ones (argparse allow_abbrev)"""
    out = []
    for s in opt["strings"]:
        out.append(s)
        if s.startswith("--"):
            for n in range(len(s) - 1, 3, -1):
                pre = s[:n]
                if pre.endswith("-"):
                    continue
                if sum(1 for t in all_long if t.startswith(pre)) == 1:
                    out.append(pre)
                else:
                    break
    return out


def _item(rng, opt, value, all_long):
    sp = _spellings(opt, all_long)
    full = [s for s in sp if s in opt["strings"]]
    s = rng.choice(full) if rng.random() < 0.7 else rng.choice(sp)
    if value is None:
        style = "flag"
    elif s.startswith("--"):
        style = "eq" if rng.random() < 0.3 else "sep"
    else:
        style = "attached" if (rng.random() < 0.3 and re.fullmatch(r"\d+", str(value))) else "sep"
    return [opt["dest"], None if value is None else str(value), s, style]


def gen_case(rng, options):
    """one command line + scenario parameters"""
    by = {o["dest"]: o for o in options}
    all_long = [s for o in options for s in o["strings"] if s.startswith("--")] + ["--help"]
    layout = rng.choice(["single", "single", "single", "multi2", "multi3", "trio", "trio"])
    samples = LAYOUTS[layout]
    n_contigs = rng.choice([1, 2, 2])
    contigs = [f"chr{i + 1}" for i in range(n_contigs)]
    items = []

    def add(dest, value=None):
        if dest in by:
            items.append(_item(rng, by[dest], value, all_long))

    # ---- the cap: --internal-downsampling 0..3 times (argparse keeps the last one) ---------------------------------------
    n_k = rng.choice([0, 1, 1, 1, 1, 1, 2, 2, 3])
    small = [1, 2, 2, 3, 3, 4, 4, 5, 6] if layout != "trio" else [3, 3, 4, 5, 6, 7, 9]
    ks = []
    for i in range(n_k):
        last = i == n_k - 1
        r = rng.random()
        if last:
            ks.append(rng.choice(small) if r < 0.86 else rng.choice([23, 24, 30, 0, -3]))
        else:
            ks.append(rng.choice(small + [15, 23, 24, 40, 0]))
        add("max_coverage", ks[-1])
    k = ks[-1] if ks else 15
    # ---- hidden legacy cap option -H / --max-coverage: documented to have no effect ------------------------------------
    if rng.random() < 0.45:
        for _ in range(rng.choice([1, 1, 2])):
            add("max_coverage_was_used", rng.choice([k + 1, k + 2, 2 * max(k, 1), 8, 12, 20, 23, 24, 40, 1, 0]))
    # ---- options of the read filter ------------------------------------------------------------------------------------
    if rng.random() < 0.4:
        for _ in range(rng.choice([1, 1, 2])):
            add("mapping_quality", rng.choice([0, 1, 10, 19, 20, 21, 30, 59, 60, 61]))
    if rng.random() < 0.15:
        add("ignore_read_groups")
    if rng.random() < 0.3 or (any(i[0] == "ignore_read_groups" for i in items) and rng.random() < 0.7):
        sel = rng.sample(samples, rng.randrange(1, len(samples) + 1))
        if rng.random() < 0.05:
            sel.append("SX")
        for s in sel:
            add("samples", s)
    if rng.random() < 0.3:
        sel = rng.sample(contigs, rng.randrange(1, len(contigs) + 1))
        if rng.random() < 0.2:
            sel.append(rng.choice(sel))
        if rng.random() < 0.1:
            sel.append("chrZ")
        for c in sel:
            add("chromosomes", c)
    if rng.random() < 0.2:
        add("only_snvs")
    if rng.random() < 0.25:
        add("indels_used")
    if rng.random() < 0.03:
        add("full_genotyping")
    # ---- reference -----------------------------------------------------------------------------------------------------
    r = rng.random()
    if r < 0.80:
        add("reference", "@FA")
    elif r < 0.92:
        add("no_reference")
    elif r < 0.96:
        add("reference", "@FA"); add("no_reference")
    # ---- pedigree ------------------------------------------------------------------------------------------------------
    # (a PED file naming S1, S2, S3 with a VCF that lacks S3: the relationship is ignored, every sample is its own family)
    ped = (layout == "trio" and rng.random() < 0.85) or (layout in ("single", "multi2") and rng.random() < 0.08)
    if ped:
        add("ped", "@PED")
    if rng.random() < (0.15 if ped else 0.03):
        add("use_ped_samples")
    if rng.random() < 0.06:
        add("genmap", "@GENMAP")
    if rng.random() < 0.15:
        add("distrust_genotypes")
        if rng.random() < 0.4:
            add("include_homozygous")
    elif rng.random() < 0.03:
        add("include_homozygous")
    # ---- options that by the documentation have nothing to do with the selection ---------------------------------------
    neutral = {"tag": lambda: rng.choice(["PS", "HP"]), "row_limit": lambda: rng.choice([1, 256, 65535, 70000]),
               "default_gq": lambda: rng.choice([0, 10, 30, 50]), "gl_regularizer": lambda: rng.choice([0.0, 1.5, 10]),
               "recombrate": lambda: rng.choice([0.5, 1.26, 10]), "genetic_haplotyping": lambda: None,
               "use_supplementary": lambda: None, "supplementary_distance_threshold": lambda: rng.choice([10, 100000]),
               "read_merging_error_rate": lambda: rng.choice([0.05, 0.15]),
               "read_merging_max_error_rate": lambda: rng.choice([0.2, 0.25]),
               "read_merging_positive_threshold": lambda: rng.choice([10, 1000000]),
               "read_merging_negative_threshold": lambda: rng.choice([10, 1000]),
               "read_list_filename": lambda: "@D/reads.tsv", "gtchange_list_filename": lambda: "@D/gtchanges.tsv",
               "recombination_list_filename": lambda: "@D/recomb.tsv"}
    for dest, val in neutral.items():
        if rng.random() < 0.08:
            add(dest, val())
    # ---- options of the working tree that the documentation does not know ------------------------------------------------
    for o in options:
        if o["documented"] or rng.random() >= 0.3:
            continue
        kd = o["kind"]
        v = (None if kd == "flag" else rng.choice([k + 3, 20, 40, 1]) if kd == "int" else rng.choice([0.5, 2.0]) if kd == "float"
             else rng.choice(kd[7:].split(",")) if kd.startswith("choice:") else None)
        if kd == "str":
            continue
        add(o["dest"], v)
    # ---- a malformed value now and then ----------------------------------------------------------------------------------
    if rng.random() < 0.04:
        dest = rng.choice(["max_coverage", "mapping_quality", "tag", "max_coverage_was_used"])
        add(dest, "XX" if dest == "tag" else rng.choice(["x", "3.5", "1e1"]))
    # order: the relative order of the occurrences of one option is kept (the last one counts)
    idx = list(range(len(items)))
    rng.shuffle(idx)
    seen = {}
    shuffled = [items[i] for i in idx]
    per_dest = {}
    for it in items:
        per_dest.setdefault(it[0], []).append(it)
    out = []
    for it in shuffled:
        n = seen.get(it[0], 0)
        out.append(per_dest[it[0]][n])
        seen[it[0]] = n + 1
    # scenario: coverage well above the cap that the documentation promises
    exp = expect(out, samples, contigs)
    kk = min(max(exp["k"] if exp["k"] is not None else 3, 1), 15)
    lo = kk + 2
    return {"opts": {"seed": rng.randrange(1 << 30), "layout": layout, "n_contigs": n_contigs,
                     "kinds": rng.choice([["snv"], ["snv"], ["snv", "snv", "ins", "del"]]),
                     "depth": [lo, max(lo + 1, min(3 * kk + 6, 18))], "n_variants": [4, 12 if kk < 10 else 8],
                     "pre": ["--debug"] if rng.random() < 0.1 else [],
                     "order": rng.choice(["before", "before", "before", "after", "split"]), "items": out}}


def render(oc, paths):
    """argv of the case (after `python -m whatshap`); paths: {"FA", "PED", "GENMAP", "D", "VCF", "BAM", "OUT"}"""
    def res(v):
        if v is None:
            return None
        if v.startswith("@D/"):
            return paths["D"] + "/" + v[3:]
        return paths.get(v[1:], v) if v.startswith("@") else v
    toks = []
    for dest, value, spelling, style in oc["items"]:
        v = res(value)
        if style == "flag":
            toks.append([spelling])
        elif style == "eq":
            toks.append([spelling + "=" + v])
        elif style == "attached":
            toks.append([spelling + v])
        else:
            toks.append([spelling, v])
    pos = [paths["VCF"], paths["BAM"]]
    out_opt = ["-o", paths["OUT"]]
    if oc["order"] == "before":
        groups = [out_opt] + toks + [pos]
    elif oc["order"] == "after":
        groups = [pos, out_opt] + toks
    else:
        h = len(toks) // 2
        groups = toks[:h] + [out_opt, pos] + toks[h:]
    return list(oc.get("pre", [])) + ["phase"] + [t for g in groups for t in g]


INT_RE = re.compile(r"[+-]?\d+")
FLOAT_RE = re.compile(r"[+-]?(\d+\.?\d*|\.\d+)([eE][+-]?\d+)?")


def expect(items, vcf_samples, contigs):
    """the REFERENCE: what the documented interface says about this command line.
    Returns dict(status, reason, k, mapq, samples, chromosomes, families, ignore_rg, only_snvs, validate_input)
    status: 2 = usage error (argparse / validate), 1 = clean command-line error of the run, 0 = runs."""
    last, flags, lists, malformed, unknown = {}, set(), {"samples": [], "chromosomes": []}, None, []
    occ = {"max_coverage": [], "max_coverage_was_used": []}
    for dest, value, *_ in items:
        if dest not in DOC:
            unknown.append(dest)
            continue
        kind = DOC[dest][1]
        if kind == "flag":
            flags.add(dest)
        elif kind == "int":
            if not INT_RE.fullmatch(value):
                malformed = malformed or f"{dest}={value!r} is not an integer"
                continue
            last[dest] = int(value)
            if dest in occ:
                occ[dest].append(int(value))
        elif kind == "float":
            if not FLOAT_RE.fullmatch(value):
                malformed = malformed or f"{dest}={value!r} is not a number"
                continue
            last[dest] = float(value)
        elif kind.startswith("choice:"):
            if value not in kind[7:].split(","):
                malformed = malformed or f"{dest}={value!r} is not one of {kind[7:]}"
                continue
            last[dest] = value
        elif dest in lists:
            lists[dest].append(value)
        else:
            last[dest] = value
    ped = "ped" in last
    k = last.get("max_coverage", 15)
    res = {"k": k, "mapq": last.get("mapping_quality", 20), "ignore_rg": "ignore_read_groups" in flags,
           "only_snvs": "only_snvs" in flags, "unknown_options": unknown, "ped": ped, "families": None,
           "chromosomes": None, "samples": None, "status": 0, "reason": None,
           "distrust": "distrust_genotypes" in flags,
           "validate_input": {
               "internal_downsampling": occ["max_coverage"], "legacy_max_coverage": occ["max_coverage_was_used"],
               "reference": "reference" in last, "no_reference": "no_reference" in flags,
               "ignore_read_groups": "ignore_read_groups" in flags, "ped": ped, "genmap": "genmap" in last,
               "n_chromosomes": len(lists["chromosomes"]), "n_samples": len(lists["samples"]),
               "include_homozygous": "include_homozygous" in flags, "distrust_genotypes": "distrust_genotypes" in flags,
               "use_ped_samples": "use_ped_samples" in flags, "n_phase_inputs": 1, "full_genotyping": "full_genotyping" in flags,
               "indels": "indels_used" in flags, "heuristic": False,
               **({"row_limit": last["row_limit"]} if "row_limit" in last else {})}}

    def rej(status, reason):
        res["status"], res["reason"] = status, reason
        return res

    if malformed:
        res["validate_input"] = None
        return rej(2, "malformed: " + malformed)
    # validate(), in the order of the documentation's error list
    if "reference" in last and "no_reference" in flags:
        return rej(2, "reference-and-no-reference")
    if "ignore_read_groups" in flags and ped:
        return rej(2, "ignore-read-groups-with-ped")
    if "genmap" in last and not ped:
        return rej(2, "genmap-without-ped")
    if "genmap" in last and len(lists["chromosomes"]) != 1:
        return rej(2, "genmap-needs-one-chromosome")
    if "include_homozygous" in flags and "distrust_genotypes" not in flags:
        return rej(2, "include-homozygous-without-distrust")
    if "use_ped_samples" in flags and not ped:
        return rej(2, "use-ped-samples-without-ped")
    if "use_ped_samples" in flags and lists["samples"]:
        return rej(2, "use-ped-samples-with-samples")
    if k > 23:
        return rej(2, "cap-above-23")
    if "full_genotyping" in flags:
        return rej(2, "full-genotyping-removed")
    # the run itself
    if "reference" not in last and "no_reference" not in flags:
        return rej(1, "neither --reference nor --no-reference")
    if "ignore_read_groups" in flags and not lists["samples"] and len(vcf_samples) > 1:
        return rej(1, "--ignore-read-groups on a multi-sample VCF needs --sample")
    sel = list(lists["samples"]) or list(vcf_samples)
    if ped and "use_ped_samples" in flags:
        sel = ["S3", "S1", "S2"]          # the PED file of this stream is always `F1 S3 S1 S2 0 1`
    if any(s not in vcf_samples for s in sel):
        return rej(1, "sample not in VCF")
    if "ignore_read_groups" in flags and len(sel) > 1:
        # F103 (unchanged code): every read gets sample id 0, the second sample's pedigree has no individual 0:
        # `RuntimeError: Individual with ID 0 not present in pedigree` (fixes/F103.patch: a clean command-line error)
        return rej(1, "F103: --ignore-read-groups with several samples")
    res["samples"] = sel
    res["chromosomes"] = [c for c in contigs if not lists["chromosomes"] or c in lists["chromosomes"]]
    if ped and {"S1", "S2", "S3"} <= set(sel):
        res["families"] = [sorted(sel)]
    else:
        res["families"] = [[s] for s in sel]
    return res

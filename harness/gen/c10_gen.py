"""Generator for C10 (and the tagged-read part of C17): phased VCFs (several phase sets, samples, ploidy 2-4,
PS or HP encoding) and BAMs (paired, supplementary, secondary, duplicate, unmapped, several read groups, BX
barcodes, stale HP/PS/PC tags, soft clips) with ground truth: for every alignment the alleles it carries.

A case is a plain JSON-serialisable dict; `materialize` writes the files.  Every random choice from `rng`.
"""
import os

import pysam

from . import sim

PS_FMT = '##FORMAT=<ID=PS,Number=1,Type=Integer,Description="Phase set">'
HP_FMT = '##FORMAT=<ID=HP,Number=.,Type=String,Description="Phasing haplotype identifier">'

FLAG_PAIRED, FLAG_PROPER, FLAG_UNMAP, FLAG_MUNMAP, FLAG_REV, FLAG_MREV, FLAG_R1, FLAG_R2 = 1, 2, 4, 8, 16, 32, 64, 128
FLAG_SEC, FLAG_QCFAIL, FLAG_DUP, FLAG_SUPP = 256, 512, 1024, 2048


def adjust_interval(variants, start, end):
    """move the ends of [start,end) so that no variant's REF span is within 2 bases of an end:
    every variant the read touches is then fully covered with flanks (unambiguous allele detection)"""
    changed = True
    while changed:
        changed = False
        for v in variants:
            a, b = v["pos"], v["pos"] + len(v["ref"])
            if a - 3 < start < b + 3:
                start = b + 3; changed = True
            if a - 3 < end < b + 3:
                end = a - 3; changed = True
    return start, end


def make_alignment(refseq, variants, alleles, start, end):
    """error-free copy of the allele vector over [start,end): (start, cigar, seq, truth [[variant idx, allele]])"""
    start, end = adjust_interval(variants, start, end)
    if end - start < 12:
        return None
    vs = [sim.Variant("", v["pos"], v["ref"], v["alt"], "") for v in variants]
    hr = sim.hap_read(refseq, vs, alleles, start, end)
    if hr is None:
        return None
    st, cigar, seq, covered = hr
    return st, [list(c) for c in cigar], seq, [[i, alleles[i]] for i in covered]


def ref_end(start, cigar):
    return start + sum(n for op, n in cigar if op in (0, 2, 3, 7, 8))


def gen_haplotypes(rng, n, ploidy, het_prob=0.8):
    haps = [[] for _ in range(ploidy)]
    for _ in range(n):
        if rng.random() < het_prob:
            while True:
                col = [rng.randrange(2) for _ in range(ploidy)]
                if len(set(col)) > 1:
                    break
        else:
            col = [rng.randrange(2)] * ploidy
        for h in range(ploidy):
            haps[h].append(col[h])
    return haps


def gen_phase_sets(rng, variants, haps, style, hom_phased=False):
    """per variant: phase set id or None.  Only heterozygous variants are phased."""
    ploidy = len(haps)
    out = [None] * len(variants)
    blocks = []      # block ids in order of creation
    cur = None
    for i, v in enumerate(variants):
        col = [haps[h][i] for h in range(ploidy)]
        if len(set(col)) == 1:
            if hom_phased and cur is not None and rng.random() < 0.5:
                out[i] = cur              # HP encoding only: a homozygous call that carries an HP entry
            continue
        if rng.random() < 0.1:
            continue                      # heterozygous but left unphased
        r = rng.random()
        if cur is None or r < 0.22:
            cur = (v["pos"] + 1) if style == "pos" else rng.choice([x for x in range(1, 60) if x not in blocks])
            blocks.append(cur)
        elif r < 0.34 and len(blocks) >= 2:
            out[i] = blocks[-2]           # interleaved phase sets
            continue
        out[i] = cur
    return out


def gen_case(rng, size=1.0, force=None):
    """force: dict of option overrides"""
    force = force or {}
    ploidy = force.get("ploidy", rng.choice([2, 2, 2, 3, 4]))
    n_contigs = rng.choice([1, 2, 2, 3])
    with_indels = rng.random() < 0.3
    no_reference = (not with_indels) and rng.random() < 0.15
    if force.get("no_reference"):
        # (the draws above are made all the same) base qualities only count without a reference: seed C10-h
        with_indels, no_reference = False, True
    linked = rng.random() < 0.3
    vcf_samples = ["S1", "S2", "S3"][:rng.choice([1, 1, 2, 3])]
    encoding = "HP" if rng.random() < 0.2 else "PS"
    ps_style = "pos" if rng.random() < 0.7 else "small"
    contigs, variants, phasing = {}, {}, {s: {} for s in vcf_samples}
    for ci in range(n_contigs):
        name = f"chr{ci + 1}"
        L = int(rng.randrange(500, 1300) * min(size, 3))
        seq = sim.random_seq(rng, L)
        contigs[name] = seq
        kinds = ("snv", "snv", "snv", "ins", "del") if with_indels else ("snv",)
        vs = sim.make_variants(rng, name, seq, rng.randrange(0 if rng.random() < 0.08 else 3, 14), kinds=kinds, min_gap=25)
        variants[name] = [{"pos": v.pos, "ref": v.ref, "alt": v.alt} for v in vs]
        for s in vcf_samples:
            haps = gen_haplotypes(rng, len(vs), ploidy)
            ps = gen_phase_sets(rng, variants[name], haps, ps_style, hom_phased=(encoding == "HP"))
            phasing[s][name] = {"haps": haps, "ps": ps}
    # a contig of the BAM header without reads (may be missing from the VCF header: allowed)
    extra_contig = rng.random() < 0.2
    if extra_contig:
        contigs["chrE"] = sim.random_seq(rng, 300)
        variants["chrE"] = []

    # read groups
    bam_samples = list(vcf_samples)
    if rng.random() < 0.4:
        bam_samples.append("OTHER")          # in the BAM, not in the VCF
    ignore_read_groups = rng.random() < 0.25
    read_groups = []
    for s in bam_samples:
        for k in range(rng.choice([1, 1, 2])):
            read_groups.append([f"rg_{s}_{k}", s])
    if rng.random() < 0.15:
        read_groups.append(["rg_nosm", None])
    no_rg_header = ignore_read_groups and rng.random() < 0.4
    barcodes = [f"BC{i}" for i in range(rng.choice([2, 3, 5]))]
    cutoff = rng.choice([60, 150, 400, 50000, 50000, 0])
    # barcodes are normally per sample; now and then the samples share the barcode whitelist (finding F71)
    shared_barcodes = linked and len(bam_samples) > 1 and not ignore_read_groups and rng.random() < 0.5

    alns = []
    rid = 0
    qual_choices = [30, 30, 30, 20, 40, 11] + ([0] if no_reference else [])
    for rg_id, s in read_groups:
        for name, seq in contigs.items():
            if name == "chrE":
                continue
            vs = variants[name]
            L = len(seq)
            if s in phasing:
                haps = phasing[s][name]["haps"]
            else:
                haps = gen_haplotypes(rng, len(vs), ploidy)
            depth = rng.uniform(1.5, 5.0) * min(size, 2)
            n_reads = max(1, int(depth * L / 220))
            for _ in range(n_reads):
                rid += 1
                qname = f"r{rid}_{s or 'nosm'}"
                h = rng.randrange(ploidy)
                alleles = list(haps[h])
                mosaic = rng.random() < 0.3
                if mosaic and vs:
                    h2 = rng.randrange(ploidy)
                    cut = rng.randrange(len(vs) + 1)
                    alleles = alleles[:cut] + list(haps[h2][cut:])
                    for i in range(len(alleles)):
                        if rng.random() < 0.08:
                            alleles[i] = 1 - alleles[i]
                rl = rng.randrange(60, 420)
                st = rng.randrange(0, max(1, L - rl))
                q = rng.choice(qual_choices)
                base = {"name": qname, "rg": None if no_rg_header else rg_id, "qual": q, "sample": s}
                tags = []
                if linked and rng.random() < 0.6:
                    tags.append(["BX", rng.choice(barcodes) if shared_barcodes else f"{s or 'nosm'}_{rng.choice(barcodes)}"])

                def mk(st, rl, alleles, flag, mapq=60, extra_tags=(), clip=True):
                    m = make_alignment(seq, vs, alleles, st, min(L, st + rl))
                    if m is None:
                        return None
                    start, cigar, rseq, truth = m
                    if clip and rng.random() < 0.2:
                        k = rng.randrange(1, 9)
                        cigar = [[4, k]] + cigar; rseq = sim.random_seq(rng, k) + rseq
                    if clip and rng.random() < 0.2:
                        k = rng.randrange(1, 9)
                        cigar = cigar + [[4, k]]; rseq = rseq + sim.random_seq(rng, k)
                    a = dict(base, chrom=name, start=start, cigar=cigar, seq=rseq, flag=flag, mapq=mapq, truth=truth,
                             tags=[list(t) for t in tags] + [list(t) for t in extra_tags])
                    return a

                flag = 0
                if rng.random() < 0.1:
                    flag |= FLAG_DUP
                if rng.random() < 0.05:
                    flag |= FLAG_QCFAIL
                mapq = 60
                r = rng.random()
                if r < 0.1:
                    mapq = rng.randrange(0, 20)
                elif r < 0.16:
                    mapq = 20
                other = []
                if rng.random() < 0.3:
                    other.append(["NM", rng.randrange(0, 5)])
                if rng.random() < 0.2:
                    other.append(["XA", "chrZ,+1,10M,0;"])
                if rng.random() < 0.15:
                    other.append(["XF", 1.5])
                if rng.random() < 0.15:
                    other.append(["XB", [1, 2, 300]])
                if rng.random() < 0.15:
                    other += [["HP", rng.randrange(1, 3)], ["PS", rng.randrange(1, 500)], ["PC", rng.randrange(1, 200)]]
                paired = rng.random() < 0.25
                if paired:
                    rev_first = rng.random() < 0.5
                    same_strand = rng.random() < 0.3
                    f1 = flag | FLAG_PAIRED | FLAG_PROPER | FLAG_R1 | (FLAG_REV if rev_first else 0)
                    rev2 = rev_first if same_strand else (not rev_first)
                    f1 |= FLAG_MREV if rev2 else 0
                    f2 = flag | FLAG_PAIRED | FLAG_PROPER | FLAG_R2 | (FLAG_REV if rev2 else 0) | (FLAG_MREV if rev_first else 0)
                    a1 = mk(st, rl, alleles, f1, mapq, other)
                    st2 = max(0, min(L - 30, st + (rng.randrange(-40, 60) if same_strand else rng.randrange(-40, rl + 150))))
                    alleles2 = alleles
                    if rng.random() < (0.6 if same_strand else 0.25) and vs:      # the mates disagree somewhere
                        alleles2 = [1 - a if rng.random() < 0.3 else a for a in alleles]
                    mapq2 = mapq if rng.random() < 0.8 else rng.randrange(0, 20)
                    a2 = mk(st2, rng.randrange(60, 300), alleles2, f2, mapq2, other[:1])
                    if a1 and a2:
                        a1["mate"] = {"chrom": name, "start": a2["start"]}
                        a2["mate"] = {"chrom": name, "start": a1["start"]}
                        alns += [a1, a2]
                    elif a1:
                        a1["flag"] = flag; alns.append(a1)
                    elif a2:
                        a2["flag"] = flag; alns.append(a2)
                    if a1 and a2 and rng.random() < 0.1:
                        # a third primary record with the same name: the group is skipped by whatshap
                        a3 = mk(st, rl, alleles, flag, 60, ())
                        if a3:
                            alns.append(a3)
                else:
                    strand = FLAG_REV if rng.random() < 0.5 else 0
                    a1 = mk(st, rl, alleles, flag | strand, mapq, other)
                    if a1 is None:
                        continue
                    alns.append(a1)
                    if rng.random() < 0.18:
                        # supplementary alignment of the same read, possibly on another contig
                        cname = rng.choice([c for c in contigs if c != "chrE"])
                        if cname == name:
                            sst = rng.randrange(0, max(1, L - 80))
                            sflag = FLAG_SUPP | (strand if rng.random() < 0.7 else (FLAG_REV ^ strand))
                            a = mk(sst, rng.randrange(40, 200), alleles if rng.random() < 0.7 else [1 - x for x in alleles],
                                   sflag, 60, [["SA", f"{name},{a1['start'] + 1},+,50M,60,0;"]])
                            if a:
                                alns.append(a)
                        else:
                            cseq, cvs = contigs[cname], variants[cname]
                            chaps = phasing[s][cname]["haps"] if s in phasing else gen_haplotypes(rng, len(cvs), ploidy)
                            sst = rng.randrange(0, max(1, len(cseq) - 80))
                            m = make_alignment(cseq, cvs, list(chaps[rng.randrange(ploidy)]), sst, min(len(cseq), sst + 120))
                            if m:
                                alns.append(dict(base, chrom=cname, start=m[0], cigar=m[1], seq=m[2], flag=FLAG_SUPP | strand,
                                                 mapq=60, truth=m[3], tags=[list(t) for t in tags]))
                    if rng.random() < 0.12:
                        sst = rng.randrange(0, max(1, L - 80))
                        a = mk(sst, rng.randrange(40, 200), [rng.randrange(2) for _ in alleles], FLAG_SEC | strand, rng.choice([0, 60]),
                               [["HP", 1], ["PS", 7]] if rng.random() < 0.3 else ())
                        if a:
                            alns.append(a)
    # unmapped reads: placed (with the mate) and unplaced
    some_rg = None if no_rg_header else read_groups[0][0]
    for k in range(rng.randrange(0, 3)):
        cname = rng.choice([c for c in contigs if c != "chrE"])
        alns.append({"name": f"unmapped_placed{k}", "chrom": cname, "start": rng.randrange(0, len(contigs[cname]) - 1), "cigar": None,
                     "seq": sim.random_seq(rng, 30), "flag": FLAG_UNMAP | FLAG_PAIRED | FLAG_R2, "mapq": 0, "rg": some_rg, "qual": 20,
                     "truth": [], "tags": [["HP", 2], ["PS", 5]] if rng.random() < 0.5 else [], "sample": None})
    for k in range(rng.randrange(0, 4)):
        alns.append({"name": f"unmapped{k}", "chrom": None, "seq": sim.random_seq(rng, 25), "flag": FLAG_UNMAP, "rg": some_rg, "qual": 15,
                     "truth": [], "tags": [["HP", 1], ["PS", 9], ["PC", 3]] if rng.random() < 0.4 else [["XX", "u"]], "sample": None})

    # options
    opts = {"tag_supplementary": rng.random() < 0.4, "ignore_read_groups": ignore_read_groups, "output_threads": rng.choice([1, 1, 2, 3]),
            "no_reference": no_reference, "ignore_linked_read": linked and rng.random() < 0.3,
            "linked_read_distance_cutoff": cutoff if linked else None, "sample": None, "regions": None}
    if ignore_read_groups and len(vcf_samples) > 1:
        opts["sample"] = [rng.choice(vcf_samples)]
    elif len(vcf_samples) > 1 and rng.random() < 0.3:
        opts["sample"] = sorted(rng.sample(vcf_samples, rng.randrange(1, len(vcf_samples))))
    r = rng.random()
    real = [c for c in contigs if c != "chrE"]
    if r < 0.2:
        # one region per contig, contigs in BAM order
        regs = []
        for c in real:
            if rng.random() < 0.7:
                regs.append(gen_region(rng, c, len(contigs[c]), variants[c]))
        opts["regions"] = regs or [real[0]]
    elif r < 0.42:
        # several regions per contig and/or contigs out of order: overlapping, touching, disjoint, unsorted, NESTED
        regs = []
        for c in rng.sample(real, len(real)):
            for _ in range(rng.randrange(1, 4)):
                regs.append(gen_region(rng, c, len(contigs[c]), variants[c]))
            if rng.random() < 0.6:
                # a region strictly inside another one of the same contig (given before or after it)
                L = len(contigs[c])
                a = rng.randrange(1, max(2, L // 3)); b = rng.randrange(2 * L // 3, L + 1)
                x = rng.randrange(a + 1, max(a + 2, (a + b) // 2)); y = rng.randrange(x + 1, max(x + 2, b - 1))
                pair = [f"{c}:{a}-{b}" if rng.random() < 0.7 else c, f"{c}:{x}-{y}"]
                if rng.random() < 0.5:
                    pair.reverse()
                regs += pair
        opts["regions"] = regs
    if ignore_read_groups and len(vcf_samples) > 1 and rng.random() < 0.25:
        # every selected sample then works on ALL reads: the later sample overwrites the earlier one's decisions
        opts["sample"] = sorted(rng.sample(vcf_samples, 2))
    # read names occurring in two samples (different read groups): finding F71
    collisions = 0
    if not ignore_read_groups and len(read_groups) > 1 and len({sm for _, sm in read_groups}) > 1 and rng.random() < 0.2:
        prim = [a for a in alns if a.get("chrom") in contigs and a.get("cigar") and not a["flag"] & (FLAG_SEC | FLAG_SUPP | FLAG_UNMAP | FLAG_PAIRED)
                and a.get("mapq", 60) >= 20 and len(a["truth"]) >= 1]
        for a in rng.sample(prim, min(len(prim), rng.randrange(1, 4))):
            others = [(rid_, sm) for rid_, sm in read_groups if sm != a["sample"]]
            if not others:
                continue
            rg2, s2 = rng.choice(others)
            cvs = variants[a["chrom"]]
            alle = [rng.randrange(2) for _ in cvs]
            m = make_alignment(contigs[a["chrom"]], cvs, alle, max(0, a["start"] + rng.randrange(-30, 30)), min(len(contigs[a["chrom"]]), a["start"] + rng.randrange(80, 300)))
            if m is None:
                continue
            alns.append({"name": a["name"], "rg": None if no_rg_header else rg2, "qual": 30, "sample": s2, "chrom": a["chrom"], "start": m[0], "cigar": m[1],
                         "seq": m[2], "flag": 0, "mapq": 60, "truth": m[3], "tags": [list(t) for t in a["tags"] if t[0] == "BX" and rng.random() < 0.5]})
            collisions += 1
    # error exits of the sample selection and of the region normalisation
    r = rng.random()
    expect_error = None
    if r < 0.02:
        opts["sample"] = ["NOSUCH"] + ([vcf_samples[0]] if rng.random() < 0.5 else []); expect_error = "sampleNotInVcf"
    elif r < 0.04 and ignore_read_groups and len(vcf_samples) > 1:
        opts["sample"] = None; expect_error = "needSampleOption"
    elif r < 0.06 and opts["regions"]:
        opts["regions"] = opts["regions"] + ["chrNOSUCH:5-50"]; expect_error = "regionContig"
    elif r < 0.08 and not ignore_read_groups:
        for g in read_groups:                       # no read group belongs to a sample of the VCF
            g[1] = "X_" + (g[1] or "")
        expect_error = "noSharedSamples"
    opts.update(force.get("opts", {}))
    vcf_contigs = [c for c in contigs if c != "chrE" or rng.random() < 0.5]
    if extra_contig and "chrE" not in vcf_contigs and rng.random() < 0.6 and (opts["regions"] is None or rng.random() < 0.5):
        # reads on a contig the VCF does not know: haplotag refuses unless --skip-missing-contigs, which drops the
        # contig's reads by design (outside the quantifier of C10; exercised as an observation)
        for k in range(2):
            m = make_alignment(contigs["chrE"], [], [], 20 + 60 * k, 150 + 60 * k)
            alns.append({"name": f"onE{k}", "chrom": "chrE", "start": m[0], "cigar": m[1], "seq": m[2], "flag": 0, "mapq": 60,
                         "rg": some_rg, "qual": 30, "truth": [], "tags": [["HP", 1], ["PS", 4], ["PC", 7]] if k == 0 else [], "sample": None})
        opts["skip_missing_contigs"] = rng.random() < 0.7
        if opts["regions"] is not None and rng.random() < 0.7:
            opts["regions"] = opts["regions"] + [rng.choice(["chrE", "chrE:1-100", "chrE:50"])]
    # records the VCF reader skips or that carry no phase: multi-ALT, no ALT, a second record at a used position, missing genotype
    extras = {}
    for name in contigs:
        if name == "chrE" or rng.random() < 0.6:
            continue
        seq = contigs[name]
        used_pos = {v["pos"] + d for v in variants[name] for d in range(-1, len(v["ref"]) + 1)}
        ex = []
        for _ in range(rng.randrange(1, 4)):
            kind = rng.choice(["multi", "noalt", "dup", "missing", "unphased_het"])
            gt_phased = "|".join(str(rng.randrange(2)) for _ in range(ploidy))
            if kind == "dup" and variants[name]:
                v = rng.choice(variants[name])
                alt = rng.choice([b for b in "ACGT" if b not in (v["ref"][0], v["alt"][0])])
                ex.append({"pos": v["pos"], "ref": v["ref"], "alts": [alt + v["ref"][1:]], "gt": gt_phased, "ps": 990 + len(ex), "after": True})
                continue
            free = [p for p in range(5, len(seq) - 5) if p not in used_pos]
            if not free:
                continue
            pos = rng.choice(free)
            used_pos.update((pos - 1, pos, pos + 1))
            ref = seq[pos]
            alts = [b for b in "ACGT" if b != ref]
            if kind == "multi":
                ex.append({"pos": pos, "ref": ref, "alts": alts[:2], "gt": "|".join(str(rng.randrange(3)) for _ in range(ploidy)), "ps": 980})
            elif kind == "noalt":
                ex.append({"pos": pos, "ref": ref, "alts": [], "gt": "/".join("0" for _ in range(ploidy)), "ps": None})
            elif kind == "missing":
                ex.append({"pos": pos, "ref": ref, "alts": alts[:1], "gt": "/".join("." for _ in range(ploidy)), "ps": None})
            else:
                ex.append({"pos": pos, "ref": ref, "alts": alts[:1], "gt": "/".join(["0"] * (ploidy - 1) + ["1"]), "ps": None})
        if ex:
            extras[name] = ex
    case = {"kind": "haplotag", "ploidy": ploidy, "contigs": contigs, "variants": variants, "vcf_samples": vcf_samples,
            "phasing": phasing, "encoding": encoding, "read_groups": None if no_rg_header else read_groups, "alns": alns, "opts": opts,
            "vcf_contigs": vcf_contigs, "extras": extras, "collisions": collisions, "shared_barcodes": shared_barcodes}
    if expect_error:
        case["expect_error"] = expect_error
    # the exchange for the symmetry run: prefer a large phase set of a sample that is used
    cands = [(s, c, p, phasing[s][c]["ps"].count(p)) for s in vcf_samples for c in real
             for p in sorted(set(x for x in phasing[s][c]["ps"] if x is not None))]
    pref = [x for x in cands if (not opts["sample"] or x[0] in opts["sample"])] or cands
    if pref:
        pref.sort(key=lambda x: -x[3])
        s, c, p, _ = rng.choice(pref[:3])
        i, j = sorted(rng.sample(range(ploidy), 2))
        case["swap"] = {"sample": s, "chrom": c, "ps": p, "i": i, "j": j}
    if not force.get("no_boundary"):
        add_boundary_reads(case)
    if not force.get("no_overlap"):
        add_overlapping_mates(case)
    number_reads_per_sample(case, force.get("name_scheme"))
    return case


# ------------------------------------------------------------------------------------------------
# read names that are only unique within a sample (BAM merged from several runs / lanes)
# ------------------------------------------------------------------------------------------------

def number_reads_per_sample(case, scheme=None):
    """In half of the cases with reads of several samples (read groups with different SM, read groups not ignored) the reads are
    numbered per SAMPLE — r1, r2, … in every sample, as in a BAM merged from the BAMs of several sequencing runs, whose read
    names are only unique within a run — so that nearly every read name occurs in every sample, on the same chromosomes.  The
    records of one read (mates, supplementary, secondary records) keep a common name; names stay unique WITHIN a sample (also
    across its read groups); the truth of every record is untouched: what a read must be tagged with depends on its alleles
    and on the phasing of its sample only, never on its name.  'run-prefixed': the same numbers behind a run id that is shared
    by some samples only (two samples sequenced on one flow cell).  The choice is drawn from a generator seeded by the case
    content, so the stream of the main generator is unchanged."""
    import random, zlib
    rgs = case.get("read_groups")
    if case["opts"].get("ignore_read_groups") or not rgs or len({sm for _, sm in rgs}) < 2:
        return
    rng = random.Random(zlib.crc32(repr((len(case["alns"]), sorted(case["contigs"]), case["ploidy"], [list(g) for g in rgs])).encode()) ^ 0x5EED)
    if scheme is None:
        scheme = rng.choice(["unique"] * 3 + ["per-sample"] * 2 + ["run-prefixed"])
    if scheme == "unique":
        return
    sm_of = {rid: sm for rid, sm in rgs}
    samples = []
    for _, sm in rgs:
        if sm not in samples:
            samples.append(sm)
    if scheme == "per-sample":
        prefix = {sm: "r" for sm in samples}
    else:
        runs = ["runA:", "runB:"]
        prefix = {sm: rng.choice(runs) for sm in samples}
        if len(set(prefix.values())) == len(samples):          # make at least two samples share a run
            prefix[samples[1]] = prefix[samples[0]]
    # a sample's numbers in file order or in random order
    new = {}
    per = {}
    for a in case["alns"]:
        if a.get("chrom") is None or a.get("cigar") is None or a["name"].startswith(("unmapped", "onE")) or a.get("rg") not in sm_of:
            continue
        per.setdefault(sm_of[a["rg"]], [])
        if a["name"] not in per[sm_of[a["rg"]]]:
            per[sm_of[a["rg"]]].append(a["name"])
    for sm, names in per.items():
        nums = list(range(1, len(names) + 1))
        if rng.random() < 0.5:
            rng.shuffle(nums)
        for old, k in zip(names, nums):
            new[(sm, old)] = f"{prefix[sm]}{k}"
    for a in case["alns"]:
        key = (sm_of.get(a.get("rg")), a["name"])
        if a.get("chrom") is not None and a.get("cigar") is not None and key in new:
            a["name"] = new[key]
    case["name_scheme"] = scheme + (" numbering" if scheme == "per-sample" else "")


# ------------------------------------------------------------------------------------------------
# boundary reads: alignments whose FIRST and/or LAST aligned base is exactly a phased heterozygous SNV
# ------------------------------------------------------------------------------------------------

def is_snv(v):
    return len(v["ref"]) == 1 and len(v["alt"]) == 1


def make_boundary_alignment(refseq, variants, alleles, start, end, pin_start, pin_end):
    """error-free copy of the allele vector over exactly [start,end) where a pinned end is the position of an SNV (the SNV is
    the first / last aligned base: the read covers it fully) and a free end keeps the 3-base flank of make_alignment.
    Returns (start, cigar, seq, truth) with the boundary SNVs IN the truth, or None"""
    pinned = ({start} if pin_start else set()) | ({end - 1} if pin_end else set())
    s2, e2 = adjust_interval([v for v in variants if v["pos"] not in pinned], start, end)
    if (pin_start and s2 != start) or (pin_end and e2 != end):
        return None
    start, end = s2, e2
    if end - start < 2:
        return None
    vs = [sim.Variant("", v["pos"], v["ref"], v["alt"], "") for v in variants]
    hr = sim.hap_read(refseq, vs, alleles, start, end)
    if hr is None or hr[0] != start:
        return None
    st, cigar, seq, covered = hr
    if ref_end(st, cigar) != end:
        return None
    covered = list(covered)
    for i, v in enumerate(variants):
        if i in covered:
            continue
        if is_snv(v) and (v["pos"] == start or v["pos"] == end - 1):
            covered.append(i)
        elif pin_start and v["pos"] == start:
            # the read begins on the anchor base of an indel / the first base of a longer variant: covered when the whole REF
            # span and a flank behind it are aligned
            if v["pos"] + len(v["ref"]) + 3 > end:
                return None
            covered.append(i)
    covered.sort()
    return st, [list(c) for c in cigar], seq, [[i, alleles[i]] for i in covered]


def add_boundary_reads(case):
    """For every read group of a VCF sample and every contig: a few alignments whose first and/or last aligned base is exactly
    a phased heterozygous SNV of that sample (also behind a leading soft/hard clip, as the second mate, as a supplementary
    record), built so that the boundary variant DECIDES the tag: it is the only variant of the read ('only'), it makes the scores
    tie ('tie'), it is the deciding vote of a 2:1 majority ('majority'), or it only adds to PC ('support').  The alleles go into
    `truth` like every other fully covered variant.  The random choices come from a generator seeded by the case content, so the
    stream of the main generator (and with it every older case) is unchanged."""
    import random, zlib
    rng = random.Random(zlib.crc32(repr((sorted(case["contigs"].items()), len(case["alns"]), case["ploidy"])).encode()))
    ploidy = case["ploidy"]
    o = case["opts"]
    no_rg = case["read_groups"] is None
    n = 0
    for rg_id, s in (case["read_groups"] or [[None, sm] for sm in case["vcf_samples"][:1]]):
        if s not in case["phasing"]:
            continue
        for chrom, refseq in case["contigs"].items():
            vs = case["variants"].get(chrom) or []
            if chrom == "chrE" or chrom not in case["phasing"][s]:
                continue
            ph = case["phasing"][s][chrom]
            haps = ph["haps"]
            L = len(refseq)
            phased = [i for i, v in enumerate(vs) if ph["ps"][i] is not None and len({haps[h][i] for h in range(ploidy)}) > 1]
            cand = [i for i in phased if is_snv(vs[i])]
            if not cand:
                continue
            # a read may also BEGIN on the anchor base of a phased indel (it then covers the whole REF span); with --no-reference the
            # variants are re-normalised (anchor stripped), so there only SNVs are pinned
            cand_start = phased if not o.get("no_reference") else cand
            for _ in range(rng.randrange(2, 6)):
                side = rng.choice(["start", "start", "start", "end", "end", "both"])
                b = rng.choice(cand_start if side != "end" else cand)
                kind = rng.choice(["only", "only", "tie", "majority", "majority", "support"])
                n_other = {"only": 0, "tie": 1, "majority": 2, "support": rng.randrange(1, 4)}[kind]
                h = rng.randrange(ploidy)
                h2 = rng.choice([x for x in range(ploidy) if x != h])
                alleles = list(haps[h])
                k = phased.index(b)
                right = side != "end"
                others = phased[k + 1:k + 1 + n_other] if right else phased[max(0, k - n_other):k]
                if kind == "tie":
                    for i in others:
                        alleles[i] = haps[h2][i]
                elif kind == "majority" and others:
                    j = rng.choice(others)           # one of the two others votes for h2, the other one and the boundary variant for h
                    alleles[j] = haps[h2][j]
                # the interval: pinned end(s) on SNVs, the free end in the gap behind the last wanted variant
                if side == "both":
                    later = [i for i in cand if i > b][:3]
                    if not later:
                        side = "start"
                if side == "both":
                    e_i = rng.choice(later)
                    start, end = vs[b]["pos"], vs[e_i]["pos"] + 1
                    if kind == "tie":
                        alleles[e_i] = haps[h2][e_i]
                elif side == "start":
                    start = vs[b]["pos"]
                    last = others[-1] if others else b
                    nxt = vs[last + 1]["pos"] if last + 1 < len(vs) else None
                    lo = vs[last]["pos"] + len(vs[last]["ref"]) + 3
                    hi = (nxt - 3) if nxt is not None else min(L, lo + 60)
                    end = rng.randrange(lo, max(lo + 1, hi + 1))
                    end = max(end, start + 12) if kind != "only" else end
                else:
                    end = vs[b]["pos"] + 1
                    first = others[0] if others else b
                    prv = (vs[first - 1]["pos"] + len(vs[first - 1]["ref"])) if first > 0 else None
                    hi = vs[first]["pos"] - 3
                    lo = (prv + 3) if prv is not None else max(0, hi - 60)
                    start = rng.randrange(lo, max(lo + 1, hi + 1))
                m = make_boundary_alignment(refseq, vs, alleles, start, min(end, L), side != "end", side != "start")
                if m is None:
                    continue
                st, cigar, seq, truth = m
                # clips: the variant stays the first / last ALIGNED base
                clip = ""
                if side != "end" and rng.random() < 0.4:
                    c = rng.randrange(1, 9)
                    if rng.random() < 0.6:
                        cigar = [[4, c]] + cigar; seq = sim.random_seq(rng, c) + seq; clip += "S"
                    else:
                        cigar = [[5, c]] + cigar; clip += "H"
                if side != "start" and rng.random() < 0.4:
                    c = rng.randrange(1, 9)
                    if rng.random() < 0.6:
                        cigar = cigar + [[4, c]]; seq = seq + sim.random_seq(rng, c); clip += "s"
                    else:
                        cigar = cigar + [[5, c]]; clip += "h"
                n += 1
                qname = f"bnd{n}_{s}"
                role = rng.choice(["single", "single", "single", "mate2", "mate2", "mate1", "supp"])
                qual = rng.choice([30, 30, 20, 40] + ([0, 11] if o.get("no_reference") else []))
                base = {"name": qname, "rg": None if no_rg else rg_id, "qual": qual, "sample": s, "chrom": chrom}
                strand = FLAG_REV if rng.random() < 0.5 else 0
                rec = dict(base, start=st, cigar=cigar, seq=seq, flag=strand, mapq=rng.choice([60, 60, 20]), truth=truth, tags=[])
                partner = None
                if role != "single":
                    # the partner record: an ordinary alignment (3-base flanks) of the same haplotype copy somewhere near
                    pl = rng.randrange(40, 160)
                    pst = max(0, min(L - pl, st + rng.choice([-1, 1]) * rng.randrange(60, 300)))
                    pm = make_alignment(refseq, vs, alleles, pst, min(L, pst + pl))
                    if pm is not None:
                        partner = dict(base, start=pm[0], cigar=pm[1], seq=pm[2], flag=0, mapq=60, truth=pm[3], tags=[])
                    else:
                        role = "single"
                if role in ("mate1", "mate2"):
                    first, second = (rec, partner) if role == "mate1" else (partner, rec)
                    rev1 = bool(rec["flag"] & FLAG_REV) if role == "mate1" else not (rec["flag"] & FLAG_REV)
                    first["flag"] = FLAG_PAIRED | FLAG_PROPER | FLAG_R1 | (FLAG_REV if rev1 else 0) | (0 if rev1 else FLAG_MREV)
                    second["flag"] = FLAG_PAIRED | FLAG_PROPER | FLAG_R2 | (0 if rev1 else FLAG_REV) | (FLAG_MREV if rev1 else 0)
                    first["mate"] = {"chrom": chrom, "start": second["start"]}
                    second["mate"] = {"chrom": chrom, "start": first["start"]}
                elif role == "supp":
                    # the boundary record is the supplementary one (same strand as its primary: used by create_read_from_group)
                    partner["flag"] = strand
                    rec["flag"] = strand | FLAG_SUPP
                    rec["tags"] = [["SA", f"{chrom},{partner['start'] + 1},+,50M,60,0;"]]
                rec["bnd"] = {"side": side, "kind": kind, "clip": clip or "-", "role": role, "snv": all(is_snv(vs[i]) for i in ([b] if side != "end" else [])),
                              "pos": [vs[i]["pos"] for i, _ in truth if vs[i]["pos"] in (st, ref_end(st, rec["cigar"]) - 1)]}
                case["alns"].append(rec)
                if partner is not None:
                    case["alns"].append(partner)
    case["boundary_reads"] = n


def query_index(start, cigar, p):
    """index into the query of the base aligned to reference position p (p inside an M/=/X block), else None"""
    rp, qp = start, 0
    for op, n in cigar:
        if op in (0, 7, 8):
            if rp <= p < rp + n:
                return qp + (p - rp)
            rp += n; qp += n
        elif op in (1, 4):
            qp += n
        elif op in (2, 3):
            rp += n
    return None


def add_overlapping_mates(case):
    """Round-10 seed C10-h.  For every read group of a VCF sample and every contig: 2-4 read PAIRS whose two mates OVERLAP each
    other on >= 1 phased heterozygous SNV of that sample (and pairs primary + supplementary record overlapping there), with
    per-base qualities chosen independently per mate at the variant bases (0, small, equal, very different).  Kinds:
    'agree-only' (the doubly covered SNV X is the read's only variant), 'agree-minority' (X votes for haplotype h, one further SNV
    covered by one mate votes for another haplotype), 'agree-support' (all for h), 'conflict' (the mates show DIFFERENT alleles at
    X: the genuine conflict, dropped by create_read_from_group), 'supp' (primary + supplementary overlap: haplotag's reader never
    uses the supplementary record).  Only SNVs are covered, so that an allele quality is exactly one base quality without a
    reference.  `vq` = [[variant index, base quality]] of the record.  Own content-seeded rng: the main stream is unchanged."""
    import random, zlib
    rng = random.Random(zlib.crc32(repr(("ovl", sorted(case["contigs"].items()), len(case["alns"]), case["ploidy"])).encode()))
    ploidy = case["ploidy"]
    o = case["opts"]
    no_rg = case["read_groups"] is None
    n = 0
    for rg_id, s in (case["read_groups"] or [[None, sm] for sm in case["vcf_samples"][:1]]):
        if s not in case["phasing"]:
            continue
        for chrom, refseq in case["contigs"].items():
            vs = case["variants"].get(chrom) or []
            if chrom == "chrE" or chrom not in case["phasing"][s]:
                continue
            ph = case["phasing"][s][chrom]
            haps = ph["haps"]
            L = len(refseq)
            phased = [i for i, v in enumerate(vs) if ph["ps"][i] is not None and len({haps[h][i] for h in range(ploidy)}) > 1]
            cand = [i for i in phased if is_snv(vs[i])]
            if not cand:
                continue
            for _ in range(rng.randrange(2, 5)):
                kind = rng.choice(["agree-only", "agree-minority", "agree-minority", "agree-minority", "agree-support", "conflict", "supp"])
                b = rng.choice(cand)
                x = vs[b]["pos"]
                h = rng.randrange(ploidy)
                h2 = rng.choice([j for j in range(ploidy) if j != h])
                alleles = list(haps[h])
                # a second SNV of the same phase set right of X, covered by the second record only
                later = [i for i in cand if i > b and ph["ps"][i] == ph["ps"][b]]
                y = later[0] if (later and kind in ("agree-minority", "agree-support", "conflict")) else None
                if y is not None and kind == "agree-minority":
                    alleles[y] = haps[h2][y]
                s1 = max(0, x - rng.randrange(20, 70))
                e1 = min(L, x + rng.randrange(8, 30))
                s2 = max(0, x - rng.randrange(5, 18))
                e2 = min(L, (vs[y]["pos"] + rng.randrange(8, 30)) if y is not None else x + rng.randrange(30, 80))
                if s2 < s1:
                    s1, s2 = s2, s1
                alleles2 = list(alleles)
                if kind in ("conflict", "supp") and rng.random() < (1.0 if kind == "conflict" else 0.5):
                    alleles2[b] = 1 - alleles2[b]
                m1 = make_alignment(refseq, vs, alleles, s1, e1)
                m2 = make_alignment(refseq, vs, alleles2, s2, e2)
                if m1 is None or m2 is None:
                    continue
                if not all(is_snv(vs[i]) for i, _ in m1[3] + m2[3]):
                    continue
                if b not in [i for i, _ in m1[3]] or b not in [i for i, _ in m2[3]]:
                    continue
                n += 1
                qname = f"ovl{n}_{s}"
                qmode = rng.choice(["different", "different", "different", "equal", "first-zero", "second-zero", "second-higher"])
                recs = []
                for k, m in enumerate((m1, m2)):
                    st, cigar, seq, truth = m
                    base_q = rng.choice([20, 30, 40])
                    quals = [base_q] * len(seq)
                    vq = []
                    for i, _ in truth:
                        qi = query_index(st, cigar, vs[i]["pos"])
                        q = rng.choice([3, 11, 20, 25, 30, 35, 40, 60])
                        if i == b:
                            q = {"different": (40, 35)[k] if rng.random() < 0.5 else rng.choice([7, 12, 22, 33, 41]) + 17 * k,
                                 "equal": 30, "first-zero": (0, 40)[k], "second-zero": (40, 0)[k], "second-higher": (10, 60)[k]}[qmode]
                        if qi is not None:
                            quals[qi] = q
                            vq.append([i, q])
                    recs.append({"name": qname, "rg": None if no_rg else rg_id, "qual": quals, "sample": s, "chrom": chrom, "start": st, "cigar": cigar,
                                 "seq": seq, "mapq": 60, "truth": truth, "vq": vq, "tags": []})
                r1, r2 = recs
                if kind == "supp":
                    strand = FLAG_REV if rng.random() < 0.5 else 0
                    r1["flag"] = strand
                    r2["flag"] = strand | FLAG_SUPP
                    r2["tags"] = [["SA", f"{chrom},{r1['start'] + 1},+,50M,60,0;"]]
                else:
                    rev1 = rng.random() < 0.3
                    r1["flag"] = FLAG_PAIRED | FLAG_PROPER | FLAG_R1 | (FLAG_REV if rev1 else 0) | (0 if rev1 else FLAG_MREV)
                    r2["flag"] = FLAG_PAIRED | FLAG_PROPER | FLAG_R2 | (0 if rev1 else FLAG_REV) | (FLAG_MREV if rev1 else 0)
                    r1["mate"] = {"chrom": chrom, "start": r2["start"]}
                    r2["mate"] = {"chrom": chrom, "start": r1["start"]}
                for r in recs:
                    r["ovl"] = {"pair": n, "kind": kind, "qmode": qmode, "x": x}
                case["alns"] += recs
    case["overlapping_pairs"] = n


def gen_region(rng, chrom, L, variants):
    def safe(x):
        for _ in range(50):
            if all(not (v["pos"] - 3 <= x <= v["pos"] + len(v["ref"]) + 3) for v in variants):
                return x
            x += 1
        return x
    r = rng.random()
    if r < 0.25:
        return chrom
    a = safe(rng.randrange(1, max(2, L - 50)))
    if r < 0.45:
        return f"{chrom}:{a}"
    b = safe(min(L, a + rng.randrange(30, max(31, L // 2))))
    if b <= a:
        b = a + 1
    return f"{chrom}:{a}-{b}"


def parse_region(spec):
    """1-based closed user region -> (chrom, start0, end0 or None) as whatshap.utils.Region.parse (re-implemented)"""
    if ":" not in spec:
        return spec, 0, None
    c, rest = spec.split(":", 1)
    if not rest:
        return c, 0, None
    if "-" in rest:
        a, b = rest.split("-", 1)
        return c, int(a) - 1, (int(b) if b else None)
    return c, int(rest) - 1, None


# ------------------------------------------------------------------------------------------------
# files
# ------------------------------------------------------------------------------------------------

def call_string(case, sample, chrom, i, swap=None):
    """FORMAT values of one call; swap = (sample, chrom, ps, i, j) exchanges two haplotypes of a phase set"""
    ph = case["phasing"][sample][chrom]
    col = [ph["haps"][h][i] for h in range(case["ploidy"])]
    ps = ph["ps"][i]
    if ps is not None and swap and swap["sample"] == sample and swap["chrom"] == chrom and swap["ps"] == ps:
        col[swap["i"]], col[swap["j"]] = col[swap["j"]], col[swap["i"]]
    if case["encoding"] == "PS":
        if ps is None:
            return {"GT": "/".join(str(a) for a in sorted(col)), "PS": "."}
        return {"GT": "|".join(str(a) for a in col), "PS": str(ps)}
    # HP encoding: GT unphased (sorted), HP entry k names the haplotype that carries GT allele k
    if ps is None:
        return {"GT": "/".join(str(a) for a in sorted(col)), "HP": "."}
    order = sorted(range(len(col)), key=lambda h: (col[h], h))     # haplotype indices sorted by allele
    return {"GT": "/".join(str(col[h]) for h in order), "HP": ",".join(f"{ps}-{h + 1}" for h in order)}


def write_case_vcf(case, path, swap=None):
    recs = []
    for chrom in case["contigs"]:
        for i, v in enumerate(case["variants"][chrom]):
            calls = [call_string(case, s, chrom, i, swap) for s in case["vcf_samples"]]
            recs.append({"chrom": chrom, "pos": v["pos"], "ref": v["ref"], "alts": [v["alt"]], "calls": calls,
                         "format": ["GT", case["encoding"]]})
        for e in (case.get("extras") or {}).get(chrom, []):
            # extra records carry the same call for every sample; phase only in the PS encoding (HP needs an unphased GT)
            if case["encoding"] == "PS":
                call = {"GT": e["gt"], "PS": "." if e["ps"] is None else str(e["ps"])}
            else:
                call = {"GT": e["gt"].replace("|", "/"), "HP": "."}
            recs.append({"chrom": chrom, "pos": e["pos"], "ref": e["ref"], "alts": e["alts"], "calls": [dict(call) for _ in case["vcf_samples"]],
                         "format": ["GT", case["encoding"]], "after": bool(e.get("after"))})
    # position order per contig; a second record of a position comes after the first (the reader keeps the first)
    order = {c: k for k, c in enumerate(case["contigs"])}
    recs = [r for _, r in sorted(enumerate(recs), key=lambda t: (order[t[1]["chrom"]], t[1]["pos"], 1 if t[1].get("after") else 0, t[0]))]
    for r in recs:
        r.pop("after", None)
    contigs = {c: case["contigs"][c] for c in case["vcf_contigs"]}
    sim.write_vcf(path, contigs, case["vcf_samples"], recs, fmt_defs={"PS": PS_FMT, "HP": HP_FMT})
    pysam.tabix_compress(path, path + ".gz", force=True)
    pysam.tabix_index(path + ".gz", preset="vcf", force=True)
    return path + ".gz"


def materialize(case, d):
    os.makedirs(d, exist_ok=True)
    fa = os.path.join(d, "ref.fasta")
    sim.write_fasta(fa, case["contigs"])
    vcf = write_case_vcf(case, os.path.join(d, "in.vcf"))
    bam = os.path.join(d, "in.bam")
    reads = []
    for a in case["alns"]:
        r = {k: a[k] for k in ("name", "chrom", "seq", "flag") if k in a}
        r["rg"] = a.get("rg")
        r["qual"] = a.get("qual", 30)
        r["tags"] = [tuple(t) for t in a.get("tags", [])]
        if a.get("chrom") is not None:
            r["start"] = a["start"]; r["mapq"] = a.get("mapq", 60)
            r["cigar"] = [tuple(c) for c in a["cigar"]] if a.get("cigar") else None
        if "mate" in a:
            r["mate"] = a["mate"]
        reads.append(r)
    rgs = [tuple(x) for x in case["read_groups"]] if case["read_groups"] else None
    sim.write_bam(bam, case["contigs"], reads, rgs)
    return fa, vcf, bam


def haplotag_args(case, fa, vcf, bam, out, listfile=None):
    o = case["opts"]
    args = ["haplotag", "-o", out]
    args += ["--no-reference"] if o.get("no_reference") else ["--reference", fa]
    if case["ploidy"] != 2 or o.get("explicit_ploidy"):
        args += ["--ploidy", case["ploidy"]]
    for r in o.get("regions") or []:
        args += ["--regions", r]
    if o.get("tag_supplementary"):
        args.append("--tag-supplementary")
    if o.get("ignore_read_groups"):
        args.append("--ignore-read-groups")
    if o.get("ignore_linked_read"):
        args.append("--ignore-linked-read")
    if o.get("linked_read_distance_cutoff") is not None:
        args += ["--linked-read-distance-cutoff", o["linked_read_distance_cutoff"]]
    for s in o.get("sample") or []:
        args += ["--sample", s]
    if o.get("output_threads", 1) != 1:
        args += ["--output-threads", o["output_threads"]]
    if o.get("skip_missing_contigs"):
        args.append("--skip-missing-contigs")
    if listfile:
        args += ["--output-haplotag-list", listfile]
    return args + [vcf, bam]

"""Generators shared by C03 and C05: a chromosome with variants, samples with true diploid haplotypes
(unrelated, or a trio / two-child quartet built by transmission with recombinations), per-variant
genotype overrides (Mendelian conflicts, missing genotypes), single / paired (gapped) / noisy reads.

A case is a plain dict (JSON-serialisable) holding everything needed to write the input files, so that a
replay never depends on the PRNG:

  {"contig": str, "variants": [{"pos","ref","alt"}], "samples": [names],
   "haps": {sample: [h0 list, h1 list]},          true haplotypes (alleles per variant)
   "gt": {sample: [GT string per variant]},        what goes into the input VCF (may be ./. or a conflict)
   "reads": [{"name","start","cigar","seq","sample","flag","mapq"}],
   "ped": [[family, individual, father, mother, sex, phenotype], ...] or None,
   "trios": [[father, mother, child], ...],
   "genmap": [[pos, rate, cM], ...] or None}
"""
import os
import random

from . import sim

CONSISTENT = [(gf, gm, gc) for gf in range(3) for gm in range(3) for gc in range(3)
              if any(((a + b) == gc) for a in ({0: [0], 1: [0, 1], 2: [1]}[gf]) for b in ({0: [0], 1: [0, 1], 2: [1]}[gm]))]
CONFLICT = [(gf, gm, gc) for gf in range(3) for gm in range(3) for gc in range(3) if (gf, gm, gc) not in CONSISTENT]
GT_OF = {0: "0/0", 1: "0/1", 2: "1/1"}


def _haps_for_genotype(rng, g):
    if g == 0:
        return 0, 0
    if g == 2:
        return 1, 1
    return rng.choice([(0, 1), (1, 0)])


def _transmission_path(rng, n, n_recomb):
    """piecewise constant 0/1 path of length n with n_recomb switches"""
    cur = rng.randrange(2)
    switches = set(rng.sample(range(1, n), min(n_recomb, max(0, n - 1)))) if n > 1 else set()
    out = []
    for i in range(n):
        if i in switches:
            cur = 1 - cur
        out.append(cur)
    return out


def make_family_case(rng, n_children=1, n_variants=(6, 14), contig_len=(1500, 3000), min_gap=40,
                     parent_gt_weights=(1, 2, 1), n_recomb=(0, 2), conflict_prob=0.15, missing_prob=0.1,
                     unrelated=False, kinds=("snv",), names=None, all_triples=False):
    """true haplotypes by transmission; then per-variant overrides producing conflicts / missing genotypes.
    all_triples=True: the (father, mother, child) genotype triple of every variant is drawn uniformly from all
    27 (so all consistent and all conflicting combinations occur), for each child independently given the parents
    where possible."""
    L = rng.randrange(*contig_len)
    seq = sim.random_seq(rng, L)
    nv = rng.randrange(n_variants[0], n_variants[1] + 1)
    variants = sim.make_variants(rng, "chr1", seq, nv, kinds=kinds, min_gap=min_gap)
    n = len(variants)
    if names is None:
        # children's names are not always in alphabetical order in the PED file (PED line order = trio order)
        kids = [f"child{i + 1}" for i in range(n_children)]
        if n_children > 1 and rng.random() < 0.5:
            kids = ["zoe"] + kids[1:]
        names = ["father", "mother"] + kids
    father, mother, children = names[0], names[1], names[2:2 + n_children]
    samples = [father, mother] + children
    haps = {s: [[], []] for s in samples}
    gt = {s: [] for s in samples}
    tpaths = {c: (_transmission_path(rng, n, rng.randrange(n_recomb[0], n_recomb[1] + 1)),
                  _transmission_path(rng, n, rng.randrange(n_recomb[0], n_recomb[1] + 1))) for c in children}
    kinds_hit = []
    for i in range(n):
        if all_triples:
            # every one of the 27 triples can occur; conflicts with probability conflict_prob
            gf, gm, gc0 = rng.choice(CONFLICT) if rng.random() < conflict_prob else rng.choice(CONSISTENT)
        else:
            gf = rng.choices([0, 1, 2], parent_gt_weights)[0]
            gm = rng.choices([0, 1, 2], parent_gt_weights)[0]
            gc0 = None
        f = _haps_for_genotype(rng, gf)
        m = _haps_for_genotype(rng, gm)
        haps[father][0].append(f[0]); haps[father][1].append(f[1])
        haps[mother][0].append(m[0]); haps[mother][1].append(m[1])
        gt[father].append(GT_OF[gf]); gt[mother].append(GT_OF[gm])
        status = "ok"
        for ci, c in enumerate(children):
            tf, tm = tpaths[c][0][i], tpaths[c][1][i]
            a, b = f[tf], m[tm]
            want = None
            if all_triples and ci == 0:
                want = gc0
            elif rng.random() < conflict_prob:
                opts = [g for g in range(3) if (gf, gm, g) in CONFLICT]
                if opts:
                    want = rng.choice(opts)
            if want is not None and want != a + b:
                # is the wanted child genotype reachable by another transmission? then it is consistent; use it
                reach = [(x, y) for x in set(f) for y in set(m) if x + y == want]
                if reach:
                    a, b = rng.choice(reach)
                else:
                    a, b = _haps_for_genotype(rng, want)
                    status = "conflict"
            haps[c][0].append(a); haps[c][1].append(b)
            gt[c].append(GT_OF[a + b])
        # missing genotype in one member
        if rng.random() < missing_prob:
            who = rng.choice(samples)
            gt[who][i] = rng.choice(["./.", "./.", "."])
            status = "missing" if status == "ok" else status + "+missing"
        kinds_hit.append(status)
    trios = [[father, mother, c] for c in children]
    ped = [["FAM", c, father, mother, str(rng.choice([0, 1, 2])), "0"] for c in children]
    if rng.random() < 0.5:
        ped = [["FAM", father, "0", "0", "1", "0"], ["FAM", mother, "0", "0", "2", "0"]] + ped
    if unrelated:
        u = "other"
        samples.append(u)
        haps[u] = [[], []]
        gt[u] = []
        for i in range(n):
            x = _haps_for_genotype(rng, rng.choices([0, 1, 2], (1, 3, 1))[0])
            haps[u][0].append(x[0]); haps[u][1].append(x[1]); gt[u].append(GT_OF[x[0] + x[1]])
            if rng.random() < 0.25:
                gt[u][i] = rng.choice(["./.", "."])     # missing OUTSIDE the family: no business of the family's phasing
    return {"contig": "chr1", "seq": seq, "variants": [{"pos": v.pos, "ref": v.ref, "alt": v.alt, "kind": v.kind} for v in variants],
            "samples": samples, "haps": haps, "gt": gt, "reads": [], "ped": ped, "trios": trios, "genmap": None,
            "truth_status": kinds_hit, "tpaths": {c: [list(p[0]), list(p[1])] for c, p in tpaths.items()}}


def make_single_case(rng, samples=("S1",), n_variants=(8, 20), contig_len=(2000, 4000), min_gap=40, het_prob=0.9,
                     kinds=("snv",)):
    L = rng.randrange(*contig_len)
    seq = sim.random_seq(rng, L)
    nv = rng.randrange(n_variants[0], n_variants[1] + 1)
    variants = sim.make_variants(rng, "chr1", seq, nv, kinds=kinds, min_gap=min_gap)
    haps, gt = {}, {}
    for s in samples:
        h0, h1, g = [], [], []
        for _ in variants:
            if rng.random() < het_prob:
                a = rng.randrange(2); b = 1 - a
            else:
                a = b = rng.randrange(2)
            h0.append(a); h1.append(b); g.append(GT_OF[a + b])
        haps[s] = [h0, h1]; gt[s] = g
    return {"contig": "chr1", "seq": seq, "variants": [{"pos": v.pos, "ref": v.ref, "alt": v.alt, "kind": v.kind} for v in variants],
            "samples": list(samples), "haps": haps, "gt": gt, "reads": [], "ped": None, "trios": [], "genmap": None}


def _variants(case):
    return [sim.Variant(case["contig"], v["pos"], v["ref"], v["alt"], v.get("kind", "snv")) for v in case["variants"]]


def add_reads(rng, case, sample, depth, read_len=(80, 300), paired_frac=0.0, insert=(100, 600), noise=0.0, tag=""):
    """error-free reads of `sample` (each copies one haplotype); a fraction are pairs (two alignments with the same
    name, i.e. one gapped read for whatshap); with `noise` > 0 a read's alleles are re-drawn at random at that rate
    (the read then copies a haplotype that differs from the truth)."""
    seq = case["seq"]
    L = len(seq)
    vs = _variants(case)
    mean = (read_len[0] + read_len[1]) / 2
    n_reads = int(depth * L / mean)
    k = sum(1 for r in case["reads"] if r["sample"] == sample)
    for _ in range(n_reads):
        h = rng.randrange(2)
        alleles = list(case["haps"][sample][h])
        if noise > 0:
            alleles = [(rng.randrange(2) if rng.random() < noise else a) for a in alleles]
        k += 1
        name = f"{tag}{sample}_r{k}_h{h}"
        if rng.random() < paired_frac:
            l1 = rng.randrange(read_len[0], read_len[1] + 1)
            l2 = rng.randrange(read_len[0], read_len[1] + 1)
            gap = rng.randrange(*insert)
            st = rng.randrange(0, max(1, L - l1 - l2 - gap))
            a = sim.hap_read(seq, vs, alleles, st, min(L, st + l1))
            b = sim.hap_read(seq, vs, alleles, min(L - 2, st + l1 + gap), min(L, st + l1 + gap + l2))
            if a is None or b is None:
                continue
            # same-strand pairs, or proper FR pairs (before fix 8290694 whatshap dropped the opposite-strand mate)
            fr = rng.random() < 0.5
            for x, fl in ((a, 0x1 | 0x40 | (0x20 if fr else 0)), (b, 0x1 | 0x80 | (0x10 if fr else 0))):
                case["reads"].append({"name": name, "start": x[0], "cigar": [list(c) for c in x[1]], "seq": x[2],
                                      "sample": sample, "flag": fl, "mapq": 60})
        else:
            rl = rng.randrange(read_len[0], read_len[1] + 1)
            st = rng.randrange(0, max(1, L - rl))
            x = sim.hap_read(seq, vs, alleles, st, min(L, st + rl))
            if x is None:
                continue
            case["reads"].append({"name": name, "start": x[0], "cigar": [list(c) for c in x[1]], "seq": x[2],
                                  "sample": sample, "flag": 0, "mapq": 60})


def make_genmap(rng, case):
    """a genetic map in the format of tests/data/trio.map: header line, then `position rate(cM/Mb) cumulative cM`"""
    L = len(case["seq"])
    pts = sorted(set([rng.randrange(1, L) for _ in range(rng.randrange(2, 6))]))
    cm, rows = 0.0, []
    prev = None
    for p in pts:
        rate = rng.choice([0.0, 0.5, 1.2, 3.0, 50.0, 2000.0])
        if prev is not None:
            cm += (p - prev) * 1e-6 * rate
        rows.append([p, rate, cm])
        prev = p
    case["genmap"] = rows


def add_decoy_read(case):
    """whatshap refuses a BAM without any read; a read over the variant-free first 25 bases (variants start at >= 30)
    of the first sample keeps 'no reads at all' cases runnable without adding any phase information"""
    if not case["reads"]:
        case["reads"].append({"name": "decoy", "start": 2, "cigar": [[0, 23]], "seq": case["seq"][2:25],
                              "sample": case["samples"][0], "flag": 0, "mapq": 60})


# ------------------------------------------------------------------------------------------------
# cross-contig layouts of a `--ped` run (round 10, seed C05-i; after gen/c09_layout.py)
# ------------------------------------------------------------------------------------------------
# The writer / reader are driven once per chromosome; anything they remember from the chromosome before (the position of
# the record that received phasing last, ...) only shows when positions of DIFFERENT contigs coincide.  A case is one
# family data set on `chr1`; a layout adds contigs `chr2`, `chr3` AFTER it that carry the same family data
#   base   identical    every record of chr1
#          subset       a random part of chr1's records (own first / last sites, own components)
#   chain  None         same coordinates as chr1 (no shift)
#          ends         shifted so that the contig's FIRST record stands at the position of the LAST record of the contig before
#          phased       ... its first record that will be phased stands at the position of the last phased record of the contig before
#          second       ... its SECOND phased record stands there (coincidence in the middle of a phase set)
#   skip_middle         three contigs, the middle one is not selected by --chromosome (it must not reset anything either)
# Shifts are realised by padding the contig's sequence in front, so reads and reference stay consistent.

def _pad(shift):
    return sim.random_seq(random.Random(shift * 7919 + 1), shift) if shift else ""


def contig_specs(case):
    """contigs in file order: [(name, shift, set of dropped variant indices)]"""
    if case.get("contigs"):
        return [(c["name"], c.get("shift", 0), set(c.get("drop", []))) for c in case["contigs"]]
    names = ([case["twin"]] if case.get("twin") else []) + [case["contig"]]
    return [(n, 0, set()) for n in names]


def selected_contigs(case, args):
    """names of the contigs the run phases (all, or those given by --chromosome), in file order"""
    chosen = [args[i + 1] for i, a in enumerate(args) if a == "--chromosome"]
    return [n for n, _, _ in contig_specs(case) if not chosen or n in chosen]


def _consistent(gf, gm, gc):
    return any(sorted((a, b)) == sorted(gc) for a in gf for b in gm)


def likely_phased_indices(case, genetic=True):
    """variant indices that a trusted `--ped` run will most probably phase in some member: no missing genotype and no
    Mendelian conflict in the family, some member heterozygous, and (genetic haplotyping) some member homozygous or
    (otherwise) reads present.  Only used to place coincidences; the check measures from the OUTPUT where they really are"""
    fam = sorted({x for t in case["trios"] for x in t})
    out = []
    for i in range(len(case["variants"])):
        g = {s: [int(x) for x in case["gt"][s][i].replace("|", "/").split("/") if x.isdigit()] for s in fam}
        if any(len(v) != 2 for v in g.values()):
            continue
        if any(not _consistent(g[f], g[m], g[c]) for f, m, c in case["trios"]):
            continue
        het = [s for s in fam if len(set(g[s])) == 2]
        hom = [s for s in fam if len(set(g[s])) == 1]
        if het and ((genetic and hom) or len(case["reads"]) > 1):
            out.append(i)
    return out


def add_layout(rng, case, genetic=True, force=None):
    """adds `contigs` (and returns the --chromosome arguments, [] = all contigs) to a family case"""
    lay = dict(force) if force else {"base": rng.choice(["identical", "identical", "subset", "subset", "subset"]),
                                     "chain": rng.choice(["phased", "phased", "phased", "phased", "ends", "second", None]),
                                     "n": rng.choice([2, 2, 3]), "skip_middle": False}
    if lay["n"] == 3 and not force:
        lay["skip_middle"] = rng.random() < 0.6
    n = len(case["variants"])
    pos = [v["pos"] for v in case["variants"]]
    anchors = likely_phased_indices(case, genetic)
    specs = [{"name": case["contig"], "shift": 0, "drop": []}]
    for k in range(1, lay["n"]):
        drop = []
        if lay["base"] == "subset":
            cut = rng.randrange(0, max(1, n // 3))
            drop = sorted(set(list(range(cut)) + [i for i in range(cut, n) if rng.random() < 0.2]))
            if len(drop) >= n - 1:
                drop = []
        specs.append({"name": f"chr{k + 1}", "shift": 0, "drop": drop})
    # chain: the contig BEFORE contig k in the run (the middle one does not count when it is deselected)
    for k in range(1, lay["n"]):
        if lay["skip_middle"] and lay["n"] == 3 and k == 1:
            specs[1]["shift"] = rng.choice([0, specs[0]["shift"]])
            continue
        prev = specs[0] if (lay["skip_middle"] and k == 2) else specs[k - 1]
        cur = specs[k]
        keep_prev = [i for i in range(n) if i not in prev["drop"]]
        keep_cur = [i for i in range(n) if i not in cur["drop"]]
        a_prev = [i for i in anchors if i not in prev["drop"]]
        a_cur = [i for i in anchors if i not in cur["drop"]]
        off = 0
        if lay["chain"] == "ends" and keep_prev and keep_cur:
            off = pos[keep_prev[-1]] - pos[keep_cur[0]]
        elif lay["chain"] in ("phased", "second") and a_prev and a_cur:
            first = a_cur[1] if (lay["chain"] == "second" and len(a_cur) > 1) else a_cur[0]
            off = pos[a_prev[-1]] - pos[first]
        cur["shift"] = max(0, prev["shift"] + off)
    case["contigs"] = specs
    case["layout"] = lay
    case.pop("twin", None)
    if lay["skip_middle"] and lay["n"] == 3:
        return ["--chromosome", specs[0]["name"], "--chromosome", specs[2]["name"]]
    return []


PHASE_FMT_DEFS = {"PS": '##FORMAT=<ID=PS,Number=1,Type=Integer,Description="Phase set identifier">',
                  "HP": '##FORMAT=<ID=HP,Number=.,Type=String,Description="Phasing haplotype identifier">'}


def force_missing_by_column(rng, case, positions=("first", "middle", "last")):
    """A missing genotype at every wanted position of the VCF column order: for `first` / `middle` / `last` a variant is
    chosen (distinct ones) at which the FAMILY MEMBER that comes first / in the middle / last among the family's columns
    gets `./.` (or the haploid `.`).  Call after the sample order is final.  Returns {variant index: column position}."""
    fam = [s for s in case["samples"] if any(s in t for t in case["trios"])]
    n = len(case["variants"])
    free = [i for i in range(n) if all(case["gt"][s][i] not in ("./.", ".", ".|.") for s in fam)]
    rng.shuffle(free)
    out = {}
    for where in positions:
        if not free or len(fam) < 2:
            break
        k = {"first": 0, "last": len(fam) - 1}.get(where)
        if k is None:
            if len(fam) < 3:
                continue
            k = rng.randrange(1, len(fam) - 1)
        i = free.pop()
        case["gt"][fam[k]][i] = rng.choice(["./.", "./.", "./.", "."])
        out[i] = where
    return out


def add_input_phase(rng, case, who="all", enc="PS", frac=0.9):
    """The input VCF ALREADY carries phase information (e.g. the output of an earlier phasing run, of another tool, or a
    merge of such files): case["inphase"] = {"enc": .., "calls": {sample: [None | {"GT": text, "PS": int, "HP": text}]}}.
    who: "all" members / "some" (a random non-empty proper subset of the samples) / a list of sample names.
    enc: "PS" (phased GT + PS), "HP" (unphased sorted GT + HP), "GT" (phased GT, no PS column at all),
         "mixed" (per sample one of PS / HP: FORMAT GT:PS:HP).
    Every record kind gets phase: heterozygous calls (either orientation, true or not, in 1-3 phase sets per sample with
    ids that need not be a position of the set), homozygous calls (`1|1` with a PS), calls of records with a Mendelian
    conflict or with a missing genotype in ANOTHER member, and the missing call itself (`.|.`, or `./.` with a left-over
    PS value).  The GT text in case["gt"] stays the unphased truth the oracle is computed from."""
    samples = list(case["samples"])
    if who == "all":
        chosen = samples
    elif who == "some":
        chosen = rng.sample(samples, rng.randrange(1, len(samples))) if len(samples) > 1 else samples
    else:
        chosen = list(who)
    n = len(case["variants"])
    calls = {s: [None] * n for s in samples}
    encs = {}
    for s in chosen:
        e = rng.choice(["PS", "HP"]) if enc == "mixed" else enc
        encs[s] = e
        cuts = sorted(rng.sample(range(1, n), min(rng.randrange(0, 3), max(0, n - 1)))) if n > 1 else []
        block_of, b = [], 0
        for i in range(n):
            if b < len(cuts) and i == cuts[b]:
                b += 1
            block_of.append(b)
        ids = {}
        for i in range(n):
            if block_of[i] not in ids:
                ids[block_of[i]] = rng.choice([case["variants"][i]["pos"] + 1, case["variants"][i]["pos"] + 1, rng.randrange(1, 100000)])
        for i in range(n):
            g = case["gt"][s][i]
            ps = ids[block_of[i]]
            if rng.random() > frac:
                continue
            if g in ("./.", "."):
                if e == "HP":
                    continue
                # the missing call itself: phased-missing `.|.` and / or a PS value left on it
                c = {"GT": ".|." if (g == "./." and rng.random() < 0.4) else g}
                if e == "PS" and rng.random() < 0.5:
                    c["PS"] = ps
                calls[s][i] = c
                continue
            a, b2 = (int(x) for x in g.replace("|", "/").split("/"))
            if a == b2:
                if e != "HP" and rng.random() < 0.5:
                    calls[s][i] = {"GT": f"{a}|{b2}"}
                    if e == "PS":
                        calls[s][i]["PS"] = ps
                continue
            if rng.random() < 0.5:
                a, b2 = b2, a
            if e == "HP":
                lo, hi = sorted((a, b2))
                # HP: `<set>-<k>` per allele of the (sorted) GT: allele j lies on haplotype k
                calls[s][i] = {"GT": f"{lo}/{hi}", "HP": f"{ps}-1,{ps}-2" if (a, b2) == (lo, hi) else f"{ps}-2,{ps}-1"}
            else:
                calls[s][i] = {"GT": f"{a}|{b2}"}
                if e == "PS":
                    calls[s][i]["PS"] = ps
    case["inphase"] = {"enc": enc, "who": sorted(chosen), "encs": encs, "calls": calls}
    return case["inphase"]


def phase_format_keys(case):
    ip = case.get("inphase")
    if not ip:
        return []
    used = {k for cs in ip["calls"].values() for c in cs if c for k in c if k != "GT"}
    return [k for k in ("PS", "HP") if k in used]


def phased_call(case, s, i, base=None):
    """the call dict of sample s at variant i for the input VCF: base fields, GT text (pre-phased if the case says so)"""
    c = dict(base or {})
    c["GT"] = case["gt"][s][i]
    ip = case.get("inphase")
    if ip and ip["calls"].get(s) and ip["calls"][s][i]:
        c.update(ip["calls"][s][i])
    return c


def write_case(case, d, prefix="in", phased_input=None):
    """writes FASTA, BAM, VCF (+ PED, + genetic map); returns dict of paths"""
    os.makedirs(d, exist_ok=True)
    add_decoy_read(case)
    # several chromosomes in one run: `twin` (the same data once more on a chromosome that comes FIRST in all files) or a
    # cross-contig layout `contigs` (add_layout): copies of the data, shifted / thinned out, in file order
    specs = contig_specs(case)
    contigs = {n: _pad(shift) + case["seq"] for n, shift, _ in specs}
    fa, bam, vcf = (os.path.join(d, prefix + e) for e in (".fasta", ".bam", ".vcf"))
    sim.write_fasta(fa, contigs)
    reads = [{"name": r["name"] + ("" if n == case["contig"] else "_" + n), "chrom": n, "start": r["start"] + shift,
              "cigar": [tuple(c) for c in r["cigar"]],
              "seq": r["seq"], "rg": "rg_" + r["sample"], "flag": r.get("flag", 0), "mapq": r.get("mapq", 60)}
             for n, shift, _ in specs for r in case["reads"]]
    sim.write_bam(bam, contigs, reads, [("rg_" + s, s) for s in case["samples"]])
    recs = []
    pkeys = phase_format_keys(case)
    for n, shift, drop in specs:
        for i, v in enumerate(case["variants"]):
            if i in drop:
                continue
            calls = [phased_call(case, s, i) for s in case["samples"]]
            recs.append({"chrom": n, "pos": v["pos"] + shift, "ref": v["ref"], "alts": [v["alt"]], "calls": calls, "format": ["GT"] + pkeys})
    sim.write_vcf(vcf, contigs, case["samples"], recs, fmt_defs={k: PHASE_FMT_DEFS[k] for k in pkeys})
    out = {"fasta": fa, "bam": bam, "vcf": vcf}
    if case.get("ped"):
        ped = os.path.join(d, prefix + ".ped")
        with open(ped, "w") as f:
            for row in case["ped"]:
                f.write("\t".join(row) + "\n")
        out["ped"] = ped
    if case.get("genmap"):
        gm = os.path.join(d, prefix + ".map")
        with open(gm, "w") as f:
            f.write("position COMBINED_rate(cM/Mb) Genetic_Map(cM)\n")
            for p, r, c in case["genmap"]:
                f.write(f"{p} {r} {c!r}\n")
        out["genmap"] = gm
    return out


def decode_calls(records, sample_index):
    """phase information of one sample from `sim.read_vcf` records, PS or HP encoded:
    {pos: (phase_set, (allele on haplotype 1, allele on haplotype 2))}; missing / partial / haploid genotypes are
    never 'phased' (pysam reports the haploid missing call `.` as phased)."""
    out = {}
    for r in records:
        c = r["calls"][sample_index]
        gt = c.get("GT")
        if gt is None or gt[0] is None:
            continue
        alleles, phased = gt
        if len(alleles) < 2 or any(a is None for a in alleles):
            continue
        hp = c.get("HP")
        if hp is not None and not isinstance(hp, str) and all(x is not None and "-" in str(x) for x in hp):
            parts = [str(x).split("-") for x in hp]
            ps = int(parts[0][0])
            order = [int(p[1]) - 1 for p in parts]
            al = [None] * len(alleles)
            for a, o in zip(alleles, order):
                al[o] = a
            out[r["pos"]] = (ps, tuple(al))
            continue
        if phased:
            out[r["pos"]] = (c.get("PS"), tuple(alleles))
    return out


def add_structured_reads(rng, case, sample, blocks, noise=0.0, tag="s"):
    """reads realising a chosen incidence structure: every block is a list of one or two inclusive variant-index
    ranges [(i0, i1)] or [(i0, i1), (j0, j1)] (second range to the right of the first: a pair = one gapped read)."""
    seq = case["seq"]
    L = len(seq)
    vs = _variants(case)
    k = sum(1 for r in case["reads"] if r["sample"] == sample)
    for blk in blocks:
        h = rng.randrange(2)
        alleles = list(case["haps"][sample][h])
        if noise > 0:
            alleles = [(rng.randrange(2) if rng.random() < noise else a) for a in alleles]
        k += 1
        name = f"{tag}{sample}_r{k}_h{h}"
        recs = []
        for (i0, i1) in blk:
            lo = max(0, vs[i0].pos - rng.randrange(8, 20))
            hi = min(L, vs[i1].pos + len(vs[i1].ref) + rng.randrange(8, 20))
            if i0 > 0:
                lo = max(lo, vs[i0 - 1].pos + len(vs[i0 - 1].ref) + 1)
            if i1 + 1 < len(vs):
                hi = min(hi, vs[i1 + 1].pos - 1)
            x = sim.hap_read(seq, vs, alleles, lo, hi)
            if x is None:
                recs = None
                break
            recs.append(x)
        if not recs:
            continue
        if len(recs) == 2 and recs[1][0] <= recs[0][0]:
            continue
        flags = [0] if len(recs) == 1 else [0x1 | 0x40, 0x1 | 0x80]
        for x, fl in zip(recs, flags):
            case["reads"].append({"name": name, "start": x[0], "cigar": [list(c) for c in x[1]], "seq": x[2],
                                  "sample": sample, "flag": fl, "mapq": 60})


def structure_blocks(rng, n, style):
    """variant-index blocks for `add_structured_reads`"""
    blocks = []
    if n < 4:
        return [[(0, n - 1)]] if n >= 2 else []
    if style == "interleaved":
        # two (or three) chains over alternating variants: i, i+2, i+4 ... linked by pairs whose mates cover one variant each
        step = rng.choice([2, 2, 3])
        for start in range(step):
            idx = list(range(start, n, step))
            for a, b in zip(idx, idx[1:]):
                if rng.random() < 0.85:
                    blocks.append([(a, a), (b, b)])
    elif style == "nested":
        # outer pairs jump over an inner region that is linked only within itself
        i = 0
        while i + 3 < n:
            w = rng.randrange(2, min(6, n - i - 1))
            blocks.append([(i, i), (i + w + 1, i + w + 1)] if i + w + 1 < n else [(i, i + 1)])
            for a in range(i + 1, i + w):
                blocks.append([(a, a + 1)])
            i += w + 1
    elif style == "chain-gaps":
        for a in range(n - 1):
            if rng.random() < 0.7:
                blocks.append([(a, a + 1)])
        for _ in range(rng.randrange(0, 4)):
            a = rng.randrange(n - 3); b = rng.randrange(a + 2, n)
            blocks.append([(a, a), (b, b)])
    elif style == "clusters":
        # deep clusters of long reads, thin bridges of two-variant reads between them
        bounds = sorted(rng.sample(range(3, n - 2), min(rng.randrange(1, 3), max(0, n - 5)))) if n > 6 else []
        starts = [0] + bounds
        ends = [b - 1 for b in bounds] + [n - 1]
        for s, e in zip(starts, ends):
            for _ in range(rng.randrange(6, 14)):
                a = rng.randrange(s, max(s + 1, e - 1)); b = min(e, a + rng.randrange(2, 6))
                if b > a:
                    blocks.append([(a, b)])
        for b in bounds:
            for _ in range(rng.randrange(1, 3)):
                blocks.append([(b - 1, b)])
    rng.shuffle(blocks)
    return blocks


def assert_overlay_in_use(overlay):
    """guard against a silent fall-back to the installed package: the CLI started the way `sim.whatshap` starts it
    must import whatshap from the overlay, and the overlay's Python sources must equal the working tree's"""
    import subprocess, hashlib, glob
    from harness import common, wsbuild
    env = dict(os.environ, PYTHONPATH=overlay)
    r = subprocess.run([sim.PY, "-c", "import whatshap, whatshap.core; print(whatshap.__file__); print(whatshap.core.__file__)"],
                       env=env, capture_output=True, text=True)
    lines = r.stdout.split()
    if r.returncode != 0 or len(lines) != 2 or not all(os.path.realpath(x).startswith(os.path.realpath(overlay) + os.sep) for x in lines):
        raise common.Infra(f"whatshap is not imported from the overlay {overlay}: {r.stdout} {r.stderr[-300:]}")
    for p in glob.glob(os.path.join(wsbuild.REPO, "whatshap/**/*.py"), recursive=True):
        rel = os.path.relpath(p, wsbuild.REPO)
        q = os.path.join(overlay, rel)
        if not os.path.exists(q) or open(p, "rb").read() != open(q, "rb").read():
            raise common.Infra(f"overlay {overlay} is stale: {rel} differs from the working tree {wsbuild.REPO}")


def read_vcf_tolerant(path):
    """Plain-text reader of an OUTPUT VCF for the fields C03/C05 look at (GT, PS, HP), same record shape as
    `sim.read_vcf`.  Unlike htslib it survives the NUL bytes that `--tag HP` runs can contain (a FORMAT/HP column in
    which every sample is missing; reported to C04/C09) — such values are read as missing.
    Returns (samples, records, n_nul_bytes)."""
    raw = open(path, "rb").read()
    n_nul = raw.count(b"\x00")
    samples, out = [], []
    for line in raw.decode("latin-1").split("\n"):
        if line.startswith("##") or not line:
            continue
        cols = line.split("\t")
        if line.startswith("#CHROM"):
            samples = cols[9:]
            continue
        keys = cols[8].split(":") if len(cols) > 8 else []
        calls = []
        for val in cols[9:]:
            parts = val.split(":")
            d = {}
            for k, v in zip(keys, parts):
                v = v.replace("\x00", "")
                if k == "GT":
                    phased = "|" in v
                    al = tuple(None if a in (".", "") else int(a) for a in v.replace("|", "/").split("/"))
                    d["GT"] = (al, phased)
                elif k == "PS":
                    d["PS"] = None if v in (".", "") else int(v)
                elif k == "HP":
                    d["HP"] = None if v in (".", "") else tuple(v.split(","))
                else:
                    d[k] = v
            for k in keys[len(parts):]:
                d[k] = None
            calls.append(d)
        out.append({"chrom": cols[0], "pos": int(cols[1]) - 1, "ref": cols[3], "alts": cols[4].split(","), "format": keys, "calls": calls})
    return samples, out, n_nul

"""Inputs for C16 with EXACT TIES at the places where a subcommand takes a maximum / the first of several equal elements
(round 10): `split --only-largest-block` (the phase set with most tagged reads per chromosome), `stats` (largest block, N50,
block list), `compare` (longest intersection block).  Without ties such a choice is the same under every enumeration order of
the candidates, so a run that enumerates a set of names can only be told from one that keeps file order on inputs like these.
"""
import random

# phase set names are what `haplotag` writes: the decimal position of the first variant of the block (strings of different
# lengths: their order in a str set has nothing to do with their numeric or lexicographic order)
PS_NAMES = ["10001", "250077", "4100321", "77000123", "523", "9000001", "31337", "860"]


def tied_haplotag_list(src, dst, seed, duplicate_rows=False):
    """rewrites the phase set column of a 4-column haplotag list so that on every chromosome k >= 2 phase sets have EXACTLY the
    same, largest, number of tagged rows (and one smaller phase set takes what is left).  The first occurrences of the tied
    phase sets come in a shuffled order.  Returns (rows, ties): rows = [(read, haplotype, phaseset, chromosome)] as written,
    ties = {chromosome: [tied phase set names in order of first occurrence]}"""
    rng = random.Random(seed)
    header, rows = None, []
    with open(src) as f:
        for line in f:
            if line.startswith("#"):
                header = line
                continue
            c = line.rstrip("\n").split("\t")
            if len(c) >= 4:
                rows.append(c[:4])
    by_chrom = {}
    for i, (read, hap, ps, chrom) in enumerate(rows):
        if hap != "none":
            by_chrom.setdefault(chrom, []).append(i)
    ties = {}
    for ci, (chrom, idx) in enumerate(by_chrom.items()):
        n = len(idx)
        if n < 2:
            continue
        k = min(rng.choice([2, 3, 4, 4]), n // 2 if n >= 4 else 2, n)
        m = max(1, (n - rng.choice([0, 1, 2])) // k) if n > k else 1
        if n >= 2 * k and m * k == n and rng.random() < 0.5:
            m -= 1                                    # leave something for the smaller phase set
        names = rng.sample(PS_NAMES, k + 1)
        names = [str(int(x) + 7 * ci) for x in names]          # other names on every chromosome
        tied, small = names[:k], names[k]
        slots = [t for t in tied for _ in range(m)]
        rng.shuffle(slots)
        slots += [small] * (n - len(slots))
        # the smaller phase set does not always come last
        if n - m * k > 0 and rng.random() < 0.5:
            j = rng.randrange(0, m * k)
            slots.insert(j, slots.pop())
        for i, s in zip(idx, slots):
            rows[i][2] = s
        counts = {}
        for s in slots:
            counts[s] = counts.get(s, 0) + 1
        top = max(counts.values())
        order = []
        for s in slots:
            if counts[s] == top and s not in order:
                order.append(s)
        if len(order) >= 2:
            ties[chrom] = order
    out_rows = [tuple(r) for r in rows]
    with open(dst, "w") as f:
        if header:
            f.write(header)
        for r in out_rows:
            f.write("\t".join(r) + "\n")
    return out_rows, ties


def largest_block_oracle(rows):
    """what `split --only-largest-block` keeps, computed from the LIST alone, without any dict / set / Counter: per chromosome
    the phase set with most tagged rows, among equals the one whose first row comes first in the file.
    Returns ({chromosome: (phase set, rows)}, {chromosome: set of admissible phase sets (all maximal ones)})"""
    chroms = []
    for _, hap, _, chrom in rows:
        if hap != "none" and chrom not in chroms:
            chroms.append(chrom)
    chosen, admissible = {}, {}
    for chrom in chroms:
        seq = [ps for _, hap, ps, c in rows if hap != "none" and c == chrom]
        best, best_n = None, -1
        for i, ps in enumerate(seq):
            if ps in seq[:i]:
                continue
            n = sum(1 for x in seq if x == ps)
            if n > best_n:
                best, best_n = ps, n
        chosen[chrom] = (best, best_n)
        admissible[chrom] = {ps for ps in seq if sum(1 for x in seq if x == ps) == best_n}
    return chosen, admissible


def tied_block_vcfs(contigs, path_a, path_b, seed, sample="tie"):
    """two single-sample phased VCFs over the given contigs ({name: sequence}) in which every contig carries 3 phase sets of
    EXACTLY the same number of variants (3) and the same span; in B the blocks of a contig differ from A in a different
    way each (identical / one switch / one flip, in an order that changes from contig to contig): the blocks tie for
    "largest" / "longest" while what is reported about the chosen one differs.  Returns the number of contigs written."""
    rng = random.Random(seed)
    errs = ["same", "switch", "flip"]
    la, lb = [], []
    n = 0
    for ci, (name, seq) in enumerate(contigs.items()):
        L = len(seq)
        g = max(2, (L - 10) // 12)
        if L < 40:
            continue
        n += 1
        order = errs[ci % 3:] + errs[:ci % 3]
        for b in range(3):
            start = 5 + b * 4 * g
            pos = [start, start + g, start + 2 * g]
            ha = [rng.randrange(2) for _ in pos]
            hb = list(ha)
            if order[b] == "switch":
                hb[1], hb[2] = 1 - hb[1], 1 - hb[2]
            elif order[b] == "flip":
                hb[1] = 1 - hb[1]
            for p, a, b_ in zip(pos, ha, hb):
                ref = seq[p - 1].upper() if seq[p - 1].upper() in "ACGT" else "A"
                alt = "C" if ref != "C" else "G"
                la.append(f"{name}\t{p}\t.\t{ref}\t{alt}\t.\tPASS\t.\tGT:PS\t{a}|{1 - a}:{pos[0]}")
                lb.append(f"{name}\t{p}\t.\t{ref}\t{alt}\t.\tPASS\t.\tGT:PS\t{b_}|{1 - b_}:{pos[0]}")
    head = ["##fileformat=VCFv4.2", '##FILTER=<ID=PASS,Description="All filters passed">']
    head += [f"##contig=<ID={name},length={len(seq)}>" for name, seq in contigs.items()]
    head += ['##FORMAT=<ID=GT,Number=1,Type=String,Description="Genotype">',
             '##FORMAT=<ID=PS,Number=1,Type=Integer,Description="Phase set">',
             f"#CHROM\tPOS\tID\tREF\tALT\tQUAL\tFILTER\tINFO\tFORMAT\t{sample}"]
    for path, lines in ((path_a, la), (path_b, lb)):
        with open(path, "w") as f:
            f.write("\n".join(head + lines) + "\n")
    return n

"""Generator for C12 (`whatshap stats`): VCFs of one consistent ploidy with any mix of phased / unphased / homozygous /
missing / partially missing calls, interleaved and nested phase sets, several chromosomes, PS or HP phasing.

A case is JSON-serialisable (replay never needs the PRNG):
  {"contigs": {name: length}, "samples": [...], "ploidy": p, "kind": "PS"|"HP",
   "records": [{"chrom", "pos" (1-based), "ref", "alts": [..], "format": [keys], "calls": [[values]]}],
   "only_snvs": bool, "chromosomes": [args of --chromosome] , "sample": name|None,
   "indexed": bool (the file is bgzipped + tabix-indexed before the run: `parse_variant_tables` then fetches the given
   chromosomes in the given order), "storage": "plain" | "bgzip" (compressed, no index: the file is iterated) | "tbi" | "csi"
   (absent in older cases: "tbi" if indexed else "plain"), "chr_lengths": None | [[name, length], ...] (lines of the --chr-lengths file),
   "kinds": {chrom: "PS"|"HP"} (phasing encoding per chromosome; "kind" = the file-level summary)}
A contig length of None is a `##contig` line without length.
"""
BASES = "ACGT"

HEADER_FORMATS = [
    '##FORMAT=<ID=GT,Number=1,Type=String,Description="Genotype">',
    '##FORMAT=<ID=DP,Number=1,Type=Integer,Description="Read depth">',
    '##FORMAT=<ID=PS,Number=1,Type=Integer,Description="Phase set identifier">',
    '##FORMAT=<ID=PQ,Number=1,Type=Integer,Description="Phasing quality">',
    '##FORMAT=<ID=HP,Number=.,Type=String,Description="Phasing haplotype identifier">',
]


def vcf_text(case):
    out = ["##fileformat=VCFv4.2", '##FILTER=<ID=PASS,Description="All filters passed">']
    for n, ln in case["contigs"].items():
        out.append(f"##contig=<ID={n},length={ln}>" if ln is not None else f"##contig=<ID={n}>")
    out += HEADER_FORMATS
    out.append("\t".join(["#CHROM", "POS", "ID", "REF", "ALT", "QUAL", "FILTER", "INFO", "FORMAT"] + case["samples"]))
    for r in case["records"]:
        cols = [r["chrom"], str(r["pos"]), ".", r["ref"], ",".join(r["alts"]) if r["alts"] else ".", ".", "PASS", ".",
                ":".join(r["format"])] + [":".join(c) for c in r["calls"]]
        out.append("\t".join(cols))
    return "\n".join(out) + "\n"


def gen_alleles(rng, exotic=False):
    kind = rng.choice(["snv"] * 7 + ["ins", "del", "mnp", "multi", "noalt"] + (["star", "sym", "same"] if exotic else []))
    ref = rng.choice(BASES)
    other = [b for b in BASES if b != ref]
    if kind == "star":        # spanning deletion: one character, the reader and is_snv() take it for a base
        return ref, ["*"]
    if kind == "sym":
        return ref, ["<DEL>"]
    if kind == "same":        # ALT = REF (not a variant; kept by --only-snvs, not an SNV for is_snv())
        return ref, [ref]
    if kind == "snv":
        return ref, [rng.choice(other)]
    if kind == "ins":
        return ref, [ref + "".join(rng.choice(BASES) for _ in range(rng.randrange(1, 4)))]
    if kind == "del":
        return ref + "".join(rng.choice(BASES) for _ in range(rng.randrange(1, 4))), [ref]
    if kind == "mnp":
        return ref + "A", [rng.choice(other) + "C"]
    if kind == "noalt":
        return ref, []
    rng.shuffle(other)
    return ref, other[:2]


def gen_call(rng, case_kind, ploidy, n_alt, sets, has_ps_key, exotic, pos, dense=False):
    """returns the values for FORMAT = GT[:PS|:HP]"""
    x = rng.random() * (0.66 if dense else 1.0)
    n_alt = max(n_alt, 1)
    if x < 0.60:      # heterozygous
        alleles = [rng.randrange(0, n_alt + 1) for _ in range(ploidy)]
        if len(set(alleles)) == 1:
            alleles[rng.randrange(ploidy)] = (alleles[0] + 1) % (n_alt + 1)
    elif x < 0.80:    # homozygous
        alleles = [rng.randrange(0, n_alt + 1)] * ploidy
    elif x < 0.90 and exotic:    # missing
        alleles = [None] * ploidy
    elif exotic:                 # partially missing
        alleles = [rng.randrange(0, n_alt + 1) for _ in range(ploidy)]
        alleles[rng.randrange(ploidy)] = None
    else:
        alleles = [0] + [1] * (ploidy - 1)
    phased = bool(sets) and rng.random() < (0.95 if dense else 0.78)
    ps = rng.choice(sets) if phased else None
    strs = ["." if a is None else str(a) for a in alleles]
    if case_kind == "HP":
        gt = "/".join(strs)
        if phased:
            order = list(range(1, ploidy + 1)); rng.shuffle(order)
            return [gt, ",".join(f"{ps}-{h}" for h in order)]
        return [gt, "."]
    gt = ("|" if phased else "/").join(strs)
    if not has_ps_key:
        return [gt]
    if phased and exotic and rng.random() < 0.06:
        return [gt, "."]                      # phased, PS value missing
    return [gt, str(ps) if phased else "."]


def boundary_positions(rng, ln):
    """a non-empty selection of the positions at the edges of a contig of declared length `ln`: its first two bases, its last
    two, and the first position past the declared end (htslib reads, compresses, indexes and fetches such a record without
    complaint; a contig's declared length is not enforced)"""
    edge = [1, 2, ln - 1, ln, ln + 1]
    pick = {p for p in edge if p >= 1 and rng.random() < 0.5}
    if rng.random() < 0.6:
        pick.add(1)                      # the very first base: 0-based start 0
    if not pick:
        pick.add(rng.choice([1, ln]))
    return sorted(pick)


def twin_records(rng, src, chrom, mode):
    """the records of an earlier chromosome, copied to `chrom`: exactly; with every record dropped with probability 1/4; shifted
    by one base; or with the first and last two records kept and the interior changed (records dropped, SNV alleles re-drawn,
    calls of biallelic records made homozygous) so that phase sets keep their extent but not their content"""
    out = []
    for k, r in enumerate(src):
        r = dict(r, chrom=chrom, calls=[list(c) for c in r["calls"]])
        inner = 2 <= k < len(src) - 2
        if mode == "partial" and rng.random() < 0.25:
            continue
        if mode == "shift":
            r["pos"] += 1
        if mode == "interior" and inner:
            x = rng.random()
            if x < 0.3:
                continue
            if x < 0.6 and len(r["alts"]) == 1 and len(r["ref"]) == 1 and len(r["alts"][0]) == 1:
                r["ref"], r["alts"] = r["alts"][0], [r["ref"]]
            elif x < 0.8:
                i = rng.randrange(len(r["calls"]))
                gt = r["calls"][i][0]
                sep = "|" if "|" in gt else "/"
                r["calls"][i][0] = sep.join(["0"] * len(gt.replace("|", "/").split("/")))
        out.append(r)
    return out


def gen_case(rng, scale=1, exotic=True, boundary=False, twin=True):
    """`boundary`: every chromosome is likely to have records at the edges of the contig (see boundary_positions), short contigs
    (1-6 bases, where every position is an edge) occur, and the file is more often compressed / indexed and queried with
    --chromosome; without it the same things happen at a lower rate"""
    n_contigs = rng.choice([1, 2, 2, 3, 3, 4])
    contigs = {f"chr{i + 1}": (rng.randrange(1, 7) if rng.random() < (0.2 if boundary else 0.04) else rng.randrange(3000, 20000))
               for i in range(n_contigs)}
    samples = [f"S{i + 1}" for i in range(rng.choice([1, 1, 2, 3]))]
    ploidy = rng.choice([2, 2, 2, 3, 4] + ([1, 5, 6] if exotic else []))
    kind = rng.choice(["PS", "PS", "HP"])
    # the reader's `phase_detected` is per chromosome: a file may use PS on one chromosome and HP on another
    kinds = {c: kind for c in contigs}
    if exotic and n_contigs > 1 and rng.random() < 0.2:
        kinds = {c: rng.choice(["PS", "HP"]) for c in contigs}
        if len(set(kinds.values())) > 1:
            kind = "mixed"
    records = []
    unsorted_file = rng.random() < 0.03
    twins = {}
    for chrom, ln in contigs.items():
        # twin chromosomes (duplicated / alt contigs, coordinate-identical synthetic contigs): a later chromosome repeats the
        # records of an earlier one, so that phase sets (and their non-overlapping pieces) with identical start and end
        # coordinates occur on different chromosomes of one file
        earlier = [c for c in contigs if c != chrom and any(r["chrom"] == c for r in records)]
        if twin and earlier and rng.random() < 0.45:
            src = rng.choice(earlier)
            mode = rng.choice(["exact", "exact", "partial", "shift", "interior", "interior"])
            twins[chrom] = [src, mode]
            records += twin_records(rng, [r for r in records if r["chrom"] == src], chrom, mode)
            kinds[chrom] = kinds[src]
            contigs[chrom] = contigs[src] + (1 if mode == "shift" else 0)
            continue
        dense = rng.random() < 0.35          # many heterozygous phased calls in few interleaved sets: lots of splitting
        n = (rng.choice([10, 16, 24]) if dense else rng.choice([0, 1, 3, 6, 10, 16, 24])) * scale
        positions = [rng.randrange(1, ln + 1) for _ in range(n)]
        if rng.random() < (0.75 if boundary else 0.15):
            # records at the edges of the contig (in place of random ones, so that the number of records stays as drawn; a
            # chromosome drawn empty gets them all the same)
            edge = boundary_positions(rng, ln)
            positions = edge + positions[len(edge):]
        positions.sort()
        n = len(positions)
        if n >= 3 and rng.random() < 0.3:      # duplicated position
            i = rng.randrange(1, n); positions[i] = positions[i - 1]
        if unsorted_file and n >= 3:
            i = rng.randrange(1, n); positions[i - 1], positions[i] = positions[i] + 5, positions[i - 1]
        # phase sets of this chromosome (per sample), ids are arbitrary positive numbers; few sets => interleaving/nesting
        sets = {s: [rng.randrange(1, ln + 1) for _ in range(rng.choice([2, 3, 4] if dense else [0, 1, 2, 3, 4]))] for s in samples}
        if not dense and rng.random() < 0.25:                # contiguous (non-interleaved) sets for one stretch
            contiguous = True
        else:
            contiguous = False
        ckind = kinds[chrom]
        for idx, pos in enumerate(positions):
            ref, alts = gen_alleles(rng, exotic)
            has_ps_key = ckind == "PS" and not (exotic and rng.random() < 0.08)
            fmt = ["GT"] + (["HP"] if ckind == "HP" else (["PS"] if has_ps_key else []))
            calls = []
            for s in samples:
                ss = sets[s]
                if contiguous and ss:
                    ss = [ss[min(len(ss) - 1, idx * len(ss) // max(1, len(positions)))]]
                calls.append(gen_call(rng, ckind, ploidy, len(alts), ss, has_ps_key, exotic, pos, dense))
            if rng.random() < 0.3:
                fmt = fmt + ["DP"]
                calls = [c + [str(rng.randrange(1, 60))] for c in calls]
            records.append({"chrom": chrom, "pos": pos, "ref": ref, "alts": alts, "format": fmt, "calls": calls})
    chroms = []
    if rng.random() < (0.6 if boundary else 0.4):
        names = list(contigs)
        k = rng.randrange(1, len(names) + 1)
        pick = rng.sample(names, k)
        if len(names) >= 3 and rng.random() < 0.35:     # skip the first chromosome(s): seen ≠ processed when the exit test runs
            pick = names[rng.randrange(1, len(names) - 1):]
            if rng.random() < 0.5:
                pick.reverse()
        if exotic:
            if rng.random() < 0.3:       # a name given twice (in front: it is fetched again before the early exit can fire)
                pick.insert(0 if rng.random() < 0.6 else rng.randrange(len(pick) + 1), rng.choice(pick))
            if rng.random() < 0.15:
                pick.insert(rng.randrange(len(pick) + 1), "chrX")                # not in the file
            if rng.random() < 0.15:
                pick.insert(rng.randrange(len(pick) + 1), "")                    # empty entry
        chroms = [",".join(pick)] if rng.random() < 0.4 else pick
    # header without (some) contig lengths; --chr-lengths file (a subset, other values, other names, a name twice)
    if exotic and rng.random() < 0.25:
        for c in contigs:
            if rng.random() < 0.5:
                contigs[c] = None
    chr_lengths = None
    if rng.random() < 0.3:
        chr_lengths = [[c, rng.choice([1, 50, 500, 3000, 20000, 10 ** 6])] for c in contigs if rng.random() < 0.85]
        if exotic and rng.random() < 0.3:
            chr_lengths.append(["chrOther", 12345])
        if exotic and chr_lengths and rng.random() < 0.3:
            chr_lengths.append([chr_lengths[0][0], rng.choice([1, 700, 40000])])
        rng.shuffle(chr_lengths)
    # how the file is given: plain text, bgzip-compressed without an index (iterated, like plain text), or compressed with a
    # tabix (.tbi) or CSI (.csi) index (with --chromosome the requested chromosomes are then fetched through the index)
    indexed = (not unsorted_file) and rng.random() < ((0.65 if boundary else 0.55) if chroms else 0.3)
    if indexed:
        storage = rng.choice(["tbi", "tbi", "csi"])
    else:
        storage = "bgzip" if rng.random() < 0.25 else "plain"
    return {"contigs": contigs, "samples": samples, "ploidy": ploidy, "kind": kind, "kinds": kinds, "records": records,
            "only_snvs": rng.random() < 0.3, "chromosomes": chroms,
            "sample": rng.choice(samples) if rng.random() < 0.3 else None, "exotic": exotic, "boundary": boundary,
            "indexed": indexed, "storage": storage, "chr_lengths": chr_lengths, "twins": twins}

"""C11: inputs for the glue of `whatshap compare` (run_compare) and an independent reading of what has to be compared.

A scenario is k VCFs with 1-3 samples each over a catalogue of variants of several kinds (SNVs, multi-ALT SNVs,
insertions/deletions, MNVs, records without ALT, records with 16 ALT alleles, two records at one position, the same
position with different alleles in different files), calls that are phased / unphased / homozygous / (partly) missing /
of the wrong ploidy, PS values that are present, `.` or not in the FORMAT, chromosomes missing from some files, and the
options --sample / --ignore-sample-name / --only-snvs.

Nothing here imports whatshap or talks to the Lean model.  `expected(...)` is the independent reading used by the property
oracle: which sample of each file is compared, which variants of a file count (the documented rules of the reader),
which are common to two files (same position, REF and ALT alleles), and the calls of the compared sample in the format of
`c11_gen.pair_definitions`.
"""
import copy

PS_DEF = {"PS": '##FORMAT=<ID=PS,Number=1,Type=Integer,Description="Phase set">'}
MANY_ALTS = ["C", "G", "T", "AA", "AC", "AG", "AT", "CA", "CC", "CG", "CT", "GA", "GC", "GG", "GT", "TA"]   # 16


class GlueScenario:
    """files[f] = dict(samples=[names], records=[dict(chrom,pos,ref,alts,fmt_ps(bool),calls=[dict(gt,phased,ps)])])
    gt: list of int|None (never empty; [None] = '.'), ps: int | None ('.')"""

    def __init__(self, rng, ploidy, n_files, multi_gt=False):
        self.ploidy, self.n_files = ploidy, n_files
        p = ploidy
        pool = ["chr1", "chr10", "chr2", "chrX"]
        self.chroms = sorted(rng.sample(pool, rng.choice([1, 1, 2, 3])))
        self.contigs = {c: "A" * 3000 for c in pool}
        # ---- samples and options
        style = rng.random()
        names = ["S1", "S2", "NA12", "x"]
        if style < 0.55 or multi_gt:
            sams = [["S1"] for _ in range(n_files)]
        elif style < 0.72:
            sams = [[rng.choice(names)] for _ in range(n_files)]          # single-sample files, names may differ
        else:
            sams = [rng.sample(names, rng.choice([1, 2, 2, 3])) for _ in range(n_files)]
        sample = None
        if rng.random() < 0.2 and not multi_gt:
            sample = rng.choice(sams[0] * 4 + ["S1", "nobody"])
        single = all(len(s) == 1 for s in sams)
        differ = any(s != sams[0] for s in sams)
        ignore = rng.random() < ((0.7 if differ else 0.15) if single else 0.08)
        self.opts = dict(sample=sample, ignore=ignore, only_snvs=rng.random() < 0.4)
        # ---- variant catalogue per chromosome
        self.files = [dict(samples=list(s), records=[]) for s in sams]
        bad_ploidy = rng.random() < 0.06
        for c in self.chroms:
            n = rng.randrange(2, 13)
            positions = sorted(rng.sample(range(10, 2500), n))
            cat = []
            for pos in positions:
                kind = rng.random()
                if kind < 0.55:
                    v = ("A", ["C"])
                elif kind < 0.68:
                    v = ("A", ["C", "G"])
                elif kind < 0.74:
                    v = ("A", ["C", "G", "T"])
                elif kind < 0.82:
                    v = ("A", ["AT"])
                elif kind < 0.88:
                    v = ("AT", ["A"])
                elif kind < 0.92:
                    v = ("AC", ["GT"])
                elif kind < 0.95:
                    v = ("A", ["C", "AT"])
                elif kind < 0.97:
                    v = ("A", [])
                else:
                    v = ("A", list(MANY_ALTS))
                cat.append((pos, v))
                if rng.random() < 0.1:          # a second record at the same position (another kind)
                    cat.append((pos, rng.choice([("A", ["G"]), ("A", ["AGG"]), ("AT", ["A"])])))
            truth = {}
            for f in range(n_files):
                if rng.random() < 0.06:
                    continue                    # chromosome absent from this file
                cut = rng.choice([0.0, 0.15, 0.3])
                cur = None
                for pos, (ref, alts) in cat:
                    if rng.random() < 0.07:
                        continue                # variant absent from this file
                    if alts and len(alts) < 16 and rng.random() < 0.06:
                        alts = [rng.choice(["G", "T", "AGG"])] + list(alts[1:])      # same position, another allele
                    if cur is None or rng.random() < cut:
                        cur = pos + 1
                    calls = []
                    for si, sname in enumerate(self.files[f]["samples"]):
                        key = (sname, pos)
                        if key not in truth:
                            col = [0] * p
                            while len(set(col)) < 2:
                                col = [rng.randrange(2) for _ in range(p)]
                            if multi_gt and len(alts) >= 2 and rng.random() < 0.5:
                                m = {0: rng.choice([0, 1, 2]), 1: None}
                                m[1] = rng.choice([a for a in (0, 1, 2) if a != m[0]])
                                col = [m[a] for a in col]
                            truth[key] = col
                        col = list(truth[key])
                        nalt = max(len(alts), 1)
                        col = [min(a, nalt) for a in col]
                        x = rng.random()
                        if x < 0.25:
                            i, j = rng.sample(range(p), 2)
                            col[i], col[j] = col[j], col[i]
                        phased, ps = True, cur
                        y = rng.random()
                        if y < 0.07:
                            phased = False
                        elif y < 0.12:
                            col = [col[0]] * p
                            phased = rng.random() < 0.5
                        elif y < 0.16:
                            col = [None] * rng.choice([1, p])
                            phased = len(col) == 1 or rng.random() < 0.5
                        elif y < 0.19:
                            col[rng.randrange(p)] = None
                        elif y < 0.22:
                            ps = None
                        if bad_ploidy and rng.random() < 0.05:
                            col = col + [0] if rng.random() < 0.5 else col[:-1] or [0]
                        if len(col) == 1:
                            phased = True       # what pysam reports for a single allele
                        calls.append(dict(gt=col, phased=phased, ps=ps))
                    self.files[f]["records"].append(dict(chrom=c, pos=pos, ref=ref, alts=list(alts),
                                                         fmt_ps=rng.random() > 0.04, calls=calls))

    # ---- (de)serialisation -------------------------------------------------------------------
    def as_case(self):
        return {"ploidy": self.ploidy, "opts": dict(self.opts), "files": copy.deepcopy(self.files)}

    @staticmethod
    def from_case(case):
        s = GlueScenario.__new__(GlueScenario)
        s.ploidy = case["ploidy"]
        s.opts = dict(case["opts"])
        s.files = copy.deepcopy(case["files"])
        s.n_files = len(s.files)
        s.chroms = sorted({r["chrom"] for f in s.files for r in f["records"]})
        s.contigs = {c: "A" * 3000 for c in set(s.chroms) | {"chr1"}}
        return s

    def vcf_records(self, f):
        recs = []
        for r in self.files[f]["records"]:
            calls = []
            for c in r["calls"]:
                gt = ("|" if c["phased"] else "/").join("." if a is None else str(a) for a in c["gt"])
                d = {"GT": gt}
                if r["fmt_ps"]:
                    d["PS"] = "." if (c["ps"] is None or not c["phased"]) else str(c["ps"])
                calls.append(d)
            recs.append({"chrom": r["chrom"], "pos": r["pos"], "ref": r["ref"], "alts": r["alts"],
                         "format": ["GT", "PS"] if r["fmt_ps"] else ["GT"], "calls": calls})
        return recs

    def ps_seen(self, r, c):
        """`call.get("PS", 0)` as the reader sees it"""
        if not r["fmt_ps"]:
            return 0
        return None if (c["ps"] is None or not c["phased"]) else c["ps"]

    def model_request(self):
        files = []
        for f in self.files:
            recs = [[r["chrom"], r["pos"], r["ref"], r["alts"], [[c["gt"], c["phased"], self.ps_seen(r, c)] for c in r["calls"]]]
                    for r in f["records"]]
            files.append({"samples": f["samples"], "records": recs})
        req = {"op": "c11.run", "ploidy": self.ploidy, "ignore": self.opts["ignore"], "only_snvs": self.opts["only_snvs"],
               "files": files}
        if self.opts["sample"]:
            req["sample"] = self.opts["sample"]
        return req

    def relabelled(self, rng):
        """same phasings: the haplotypes of every phase set of every sample listed in a random other order"""
        s = copy.copy(self)
        s.files = copy.deepcopy(self.files)
        for f in s.files:
            sig = {}
            for r in f["records"]:
                for si, c in enumerate(r["calls"]):
                    if not c["phased"] or len(c["gt"]) != self.ploidy:
                        continue
                    k = (r["chrom"], si, self.ps_seen(r, c))
                    if k not in sig:
                        perm = list(range(self.ploidy))
                        rng.shuffle(perm)
                        sig[k] = perm
                    c["gt"] = [c["gt"][x] for x in sig[k]]
        return s

    # ---- the independent reading -------------------------------------------------------------
    def expected_samples(self):
        """per file the compared sample, or None when the command has to refuse"""
        o = self.opts
        sams = [f["samples"] for f in self.files]
        if o["ignore"] and any(len(s) > 1 for s in sams):
            return None
        common = [x for x in sams[0] if all(x in s for s in sams)]
        if o["sample"]:
            return [o["sample"]] * len(sams) if o["sample"] in common else None
        if o["ignore"]:
            return [s[0] for s in sams]
        return [common[0]] * len(sams) if len(set(common)) == 1 else None

    def variants_of(self, f, chrom):
        """the variants of file f on chrom that take part: [(key, record)] in file order; None = the file is refused
        (a genotype or phase of another ploidy)"""
        out, prev = [], None
        for r in self.files[f]["records"]:
            if r["chrom"] != chrom:
                continue
            if not r["alts"] or len(r["alts"]) >= 16:
                continue
            if self.opts["only_snvs"] and not (len(r["ref"]) == 1 and all(len(a) == 1 for a in r["alts"])):
                continue
            if prev == r["pos"]:
                continue
            prev = r["pos"]
            out.append(((r["pos"], r["ref"], tuple(r["alts"])), r))
        return out

    def pair_tables(self, chrom, i, j, names):
        """calls of the compared samples restricted to the variants both files have, as c11_gen call dicts"""
        vi, vj = self.variants_of(i, chrom), self.variants_of(j, chrom)
        ki, kj = {k for k, _ in vi}, {k for k, _ in vj}

        def conv(f, vs, other, name):
            si = self.files[f]["samples"].index(name)
            t = []
            for k, r in vs:
                if k not in other:
                    continue
                c = r["calls"][si]
                if any(a is None for a in c["gt"]):
                    t.append(dict(pos=r["pos"], gt=[0, 1], phased=False, ps=0))     # counts as heterozygous, no phase
                else:
                    ps = self.ps_seen(r, c)
                    t.append(dict(pos=r["pos"], gt=list(c["gt"]), phased=c["phased"], ps=-1 if ps is None else ps))
            return t
        return conv(i, vi, kj, names[i]), conv(j, vj, ki, names[j])

    def het0(self, chrom, names):
        si = self.files[0]["samples"].index(names[0])
        n = 0
        for k, r in self.variants_of(0, chrom):
            g = r["calls"][si]["gt"]
            if any(a is None for a in g) or len(set(g)) > 1:
                n += 1
        return n

    def has_multi_gt(self):
        return any(a is not None and a > 1 for f in self.files for r in f["records"] for c in r["calls"] for a in c["gt"])

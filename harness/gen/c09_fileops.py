"""In-process drivers of the real code for the file-level C09 stream (reader on whole multi-sample files,
PhasedInputReader with phase-input VCFs, PhasedVcfWriter.write with both values of remove_existing_phasing) and the
matching requests for the Lean model (`c09.readfile`, `c09.phaseinput`, `c09.writefile`, `c09.writex`)."""
import os
import traceback

from . import c04_records as R


# ------------------------------------------------------------------------------------------------
# reader
# ------------------------------------------------------------------------------------------------

def _err_kind(e):
    from whatshap.vcf import MixedPhasingError, VcfNotSortedError, PloidyError
    if isinstance(e, MixedPhasingError):
        return "mixed"
    if isinstance(e, VcfNotSortedError):
        return "notSorted"
    if isinstance(e, PloidyError):
        return "ploidy"
    tb = traceback.extract_tb(e.__traceback__)
    if any(f.name == "_extract_HP_phase" for f in tb):
        return "hpFormat"
    return "other:" + type(e).__name__ + ":" + (tb[-1].name if tb else "?")


def real_read_file(path, only_snvs, ploidy=None):
    """{"ploidy": p, "tables": [(chrom, samples, [(pos, ref, alt, [(gcode, phase|None, quality)])])]} or {"error": kind}"""
    from whatshap.vcf import VcfReader
    tables = []
    try:
        reader = VcfReader(path, only_snvs=only_snvs, phases=True, ploidy=ploidy)
        try:
            for t in reader:
                rows = []
                for i, v in enumerate(t.variants):
                    calls = []
                    for s in t.samples:
                        g = t.genotypes_of(s)[i]
                        p = t.phases_of(s)[i]
                        calls.append((sorted(g.as_vector()),
                                      None if p is None else (p.block_id, [a for a in p.phase]),
                                      None if p is None else p.quality))
                    rows.append((v.position, v.reference_allele, v.alternative_allele, calls))
                tables.append((t.chromosome, list(t.samples), rows))
            return {"ploidy": reader.ploidy, "tables": tables}
        finally:
            reader.close()
    except Exception as e:  # noqa: BLE001 - the exception type is the observable
        return {"error": _err_kind(e)}


def groups_of(recs, samples):
    """[{"chrom": c, "records": [model records]}] in file order (one group per run of a chromosome: itertools.groupby)"""
    return [{"chrom": c, "records": [R.model_record(recs[i], samples) for i in idxs]} for c, idxs in R.chrom_blocks(recs)]


def readfile_request(recs, samples, only_snvs, ploidy=None):
    return {"op": "c09.readfile", "onlySnvs": only_snvs, "ploidy": ploidy, "groups": groups_of(recs, samples)}


def canon_real_tables(res):
    return [{"chrom": c, "rows": [{"pos": pos, "ref": ref, "alt": alt,
                                   "calls": [[g, None if p is None else {"block": p[0], "alleles": p[1]}] for g, p, _ in calls]}
                                  for pos, ref, alt, calls in rows]} for c, _, rows in res["tables"]]


def canon_lean_tables(ans):
    return [{"chrom": t["chrom"], "rows": [{"pos": r["pos"], "ref": r["ref"], "alt": r["alt"],
                                            "calls": [[list(c[0]), c[1]] for c in r["calls"]]} for r in t["rows"]]}
            for t in ans["tables"]]


# ------------------------------------------------------------------------------------------------
# PhasedInputReader
# ------------------------------------------------------------------------------------------------

def accepted_indices(recs, only_snvs):
    """per chromosome run: indices of the records the reader keeps (harness-side statement of the skipping rules)"""
    out = []
    for chrom, idxs in R.chrom_blocks(recs):
        keep, prev = [], None
        for i in idxs:
            r = recs[i]
            if not r["alts"] or len(r["alts"]) > 1:
                continue
            if only_snvs and not (len(r["ref"]) == 1 and len(r["alts"][0]) == 1):
                continue
            if prev == r["pos"]:
                continue
            prev = r["pos"]
            keep.append(i)
        out.append((chrom, keep))
    return out


def ptables(lean_ans, recs, samples, only_snvs):
    """the PTables of one phase file for `c09.phaseinput`: rows as the Lean reader produced them + the PQ values of
    the accepted records (as the integer `Read.add_variant` receives: Cython truncates a float towards zero)"""
    out = []
    for t, (chrom, keep) in zip(lean_ans["tables"], accepted_indices(recs, only_snvs)):
        assert t["chrom"] == chrom and len(keep) == len(t["rows"]), (chrom, len(keep), len(t["rows"]))
        quals = []
        for i in keep:
            qs = []
            for c in recs[i]["calls"]:
                v = c.get("PQ")
                if isinstance(v, tuple):
                    v = v[0] if v else None
                qs.append(None if v is None else int(v))
            quals.append(qs)
        out.append({"chrom": chrom, "samples": samples, "rows": t["rows"], "quals": quals})
    return out


def real_phase_input(paths, only_snvs, queries):
    """queries: [(chrom, [whatshap variants], sample)] -> [(reads, source ids)] or {"error": kind}.
    reads: sorted [(name, source_id, sample_id, [(pos, allele, quality)])]"""
    from whatshap.cli import PhasedInputReader
    from whatshap.core import NumericSampleIds
    ids = NumericSampleIds()
    try:
        pir = PhasedInputReader(paths, None, ids, False, only_snvs=only_snvs, mapq_threshold=20)
        pir.read_vcfs()
    except Exception as e:  # noqa: BLE001
        return {"error": _err_kind(e)}, None
    out = []
    for chrom, variants, sample in queries:
        sid = ids[sample]
        try:
            readset, src = pir.read(chrom, variants, sample)
        except Exception as e:  # noqa: BLE001 - a crash of the real code on legal arguments is a finding, not a harness error
            out.append({"crash": type(e).__name__ + ": " + str(e)[:200], "sample_id": sid})
            continue
        firsts = [r[0].position for r in readset if len(r)]
        reads = sorted((r.name, r.source_id, r.sample_id, [[v.position, v.allele, v.quality] for v in r]) for r in readset)
        out.append({"reads": [list(x) for x in reads], "source_ids": sorted(src), "sample_id": sid,
                    "sorted": firsts == sorted(firsts)})
    return out, ids


# ------------------------------------------------------------------------------------------------
# writer
# ------------------------------------------------------------------------------------------------

def real_write(in_path, out_path, tag, only_snvs, rm, plan):
    """plan: [(chrom, [target dicts as for the model])] in the order of the chromosome runs of the file.
    Returns None or the exception kind"""
    from whatshap.vcf import PhasedVcfWriter, VcfError
    from whatshap.core import Read, ReadSet
    kwargs = {} if rm is None else {"remove_existing_phasing": rm}
    try:
        w = PhasedVcfWriter(in_path=in_path, command_line=None, out_file=out_path, tag=tag, only_snvs=only_snvs, **kwargs)
    except VcfError as e:            # the clean refusal of an input file (undefined FORMAT, PS of a wrong type): a command-line error
        return "refused:" + str(e)[:200]
    err = None
    try:
        for chrom, targets in plan:
            srs, comps = {}, {}
            for k, t in enumerate(targets):
                rs = ReadSet()
                for i, key in enumerate(("sr0", "sr1")):
                    rd = Read(f"superread_{i}_{k}", 0, 0, k)
                    for p, a in t[key]:
                        rd.add_variant(p, a, 30)
                    rs.add(rd)
                srs[t["name"]] = rs
                comps[t["name"]] = {p: c for p, c in t["comps"]}
            try:
                w.write(chrom, srs, comps)
            except KeyError as e:
                err = "KeyError:" + str(e)
                break
            except Exception as e:  # noqa: BLE001
                err = "crash:" + type(e).__name__ + ": " + str(e)[:200]
                break
    finally:
        w.close()
    return err


def record_diff(impl, model):
    if impl["format"] != model["format"]:
        return ({"format": impl["format"]}, {"format": model["format"]})
    for ci, cm in zip(impl["calls"], model["calls"]):
        fi = {k: v for k, v in ci["fields"] if v is not None}
        fm = {k: v for k, v in cm["fields"] if v is not None}
        if ci["gt"] != cm["gt"] or ci["phased"] != cm["phased"] or fi != fm:
            return ({"sample": ci["name"], "gt": ci["gt"], "phased": ci["phased"], "fields": fi},
                    {"sample": cm["name"], "gt": cm["gt"], "phased": cm["phased"], "fields": fm})
    return None


def gen_plan(rng, recs, samples, targets, chroms_on, dense=False):
    """random super-reads / components per chromosome run and target sample (not solver output: any alleles, homozygous
    phases, positions outside the file, components without phase and vice versa).  dense: (nearly) every position gets a
    heterozygous phase and a component - the first and the last record of a chromosome are then phased as a rule"""
    plan = []
    p_pos, p_het, p_comp = (1.0, 0.48, 0.98) if dense else (0.8, 0.42, 0.88)
    for chrom, idxs in R.chrom_blocks(recs):
        ts = []
        if chrom in chroms_on:
            positions = sorted({recs[i]["pos"] for i in idxs})
            for s in targets:
                chosen = [p for p in positions if rng.random() < p_pos]
                if rng.random() < 0.15:
                    chosen.append(max(positions) + 7)            # not a record of the file
                sr0, sr1, comps = [], [], []
                first = None
                for p in chosen:
                    r = rng.random()
                    a, b = (0, 1) if r < p_het else (1, 0) if r < 2 * p_het else rng.choice([(0, 0), (1, 1), (2, 1), (1, 2), (0, 1)])
                    sr0.append([p, a]); sr1.append([p, b])
                    if first is None or rng.random() < 0.25:
                        first = p
                    if rng.random() < p_comp:
                        comps.append([p, first])
                if rng.random() < 0.1 and positions:
                    p = rng.choice(positions)
                    if all(c[0] != p for c in comps):
                        comps.append([p, p])                      # component for a position without phase
                ts.append({"name": s, "sr0": sr0, "sr1": sr1, "comps": comps})
        plan.append((chrom, ts))
    return plan

"""Bridging code between VCF files / the trace and the Lean record model (Model/C04.lean), shared by
C04, C09 and C20.  Everything here reads files independently of whatshap (pysam + raw text)."""
import re

from . import sim

def run_whatshap(ctx, args, trace=None):
    """sim.whatshap from the check's overlay; if the overlay directory disappears under us (the shared cache is
    pruned by concurrent checks) the run would silently use another whatshap: that is an infrastructure error"""
    import os
    from harness import common
    marker = os.path.join(ctx.overlay, ".complete")
    if not os.path.exists(marker):
        raise common.Infra("overlay " + ctx.overlay + " vanished (pruned by a concurrent check?)")
    out = sim.whatshap(args, ctx.overlay, trace=trace)
    if not os.path.exists(marker):
        raise common.Infra("overlay " + ctx.overlay + " vanished during a run (pruned by a concurrent check?)")
    return out


MISSING = (None, (None,), (".",), ".", "", ("",))


def parse_hp(v):
    """HP value ('72-1','72-2') -> [[72,1],[72,2]]; None if it is not of that form"""
    if isinstance(v, str):
        v = tuple(v.split(","))
    out = []
    try:
        for s in v:
            m = re.fullmatch(r"(\d+)-(\d+)", s)
            if not m:
                return None
            out.append([int(m.group(1)), int(m.group(2))])
    except TypeError:
        return None
    return out or None


def canon_val(key, v):
    """pysam value -> JSON value of the model's `Val` (null / int / [[b,h]..] / string)"""
    if v in MISSING or (isinstance(v, tuple) and all(x in (None, ".", "") for x in v)):
        return None
    if key == "HP":
        hp = parse_hp(v)
        if hp is not None:
            return hp
    if isinstance(v, tuple) and len(v) == 1:
        v = v[0]            # Number=1 vs Number=. declarations of the same field parse as scalar vs 1-tuple
    if isinstance(v, bool):
        return str(v)
    if isinstance(v, int):
        return v
    def num(x):
        # an Integer field re-declared as Float (or vice versa) parses as 5 vs 5.0: same value
        if isinstance(x, float):
            return str(int(x)) if x == int(x) else repr(x)
        return str(x)
    if isinstance(v, tuple):
        return ",".join("." if x is None else num(x) for x in v)
    if isinstance(v, float):
        return int(v) if v == int(v) else repr(v)
    return str(v)


def load_vcf(path):
    """(header_lines, samples, records): records carry both the pysam view and the raw text columns"""
    hdr, samples, recs = sim.read_vcf(path)
    thdr, trecs = sim.read_vcf_text(path)
    assert len(recs) == len(trecs), (len(recs), len(trecs))
    for r, (fixed, fmt, cols) in zip(recs, trecs):
        r["site"] = "\t".join(fixed)
        r["fmt_text"] = fmt
        r["sample_text"] = cols
    return thdr, samples, recs


def model_record(rec, samples):
    calls = []
    for s, c in zip(samples, rec["calls"]):
        gt = c.get("GT")
        fields = [[k, canon_val(k, v)] for k, v in c.items() if k != "GT"]
        calls.append({"name": s, "gt": None if gt is None else (None if gt[0] is None else list(gt[0])),
                      # pysam reports a one-allele GT as phased (vacuously): only a GT with >= 2 alleles can be phased
                      "phased": bool(gt[1]) and gt[0] is not None and len(gt[0]) > 1 if gt is not None else False,
                      "fields": fields})
    return {"site": rec["site"], "pos": rec["pos"], "ref": rec["ref"], "alts": list(rec["alts"]),
            "format": list(rec["format"]), "calls": calls}


def call_get(call, key):
    for k, v in call["fields"]:
        if k == key:
            return v
    return None


def targets_from_trace(trace_recs):
    """`sample_superreads` / `sample_components` of one chromosome in dict order, from its trace records"""
    out = []
    for t in trace_recs:
        for s in t["family"]:
            sr = t["superreads"][s]
            out.append({"name": s,
                        "sr0": [[v[0], v[1]] for v in sr[0]["variants"]],
                        "sr1": [[v[0], v[1]] for v in sr[1]["variants"]],
                        "comps": [list(x) for x in t["overall_components"]]})
    return out


def chrom_blocks(records):
    """consecutive runs of records with the same chromosome: [(chrom, [record indices])]"""
    out = []
    for i, r in enumerate(records):
        if out and out[-1][0] == r["chrom"]:
            out[-1][1].append(i)
        else:
            out.append((r["chrom"], [i]))
    return out


def gt_code(gt):
    """sorted allele list of a fully called genotype, [] otherwise (whatshap's genotype_code)"""
    if gt is None or gt[0] is None or any(a is None for a in gt[0]):
        return []
    return sorted(gt[0])


def gt_repr(code):
    return "/".join(str(a) for a in code) if code else "."


def inst_from_trace(t):
    """Model `Inst` of one trace record"""
    inv = {v: k for k, v in t["numeric_sample_ids"].items()}
    reads = [{"name": r["name"], "source_id": r["source_id"], "sample": inv.get(r["sample_id"], "?"),
              "positions": [v[0] for v in r["variants"]]} for r in t["all_reads"]]
    return {"chrom": t["chromosome"], "reads": reads, "partition": list(t["partitioning"] or []),
            "comps": [list(x) for x in t["overall_components"]], "positions": list(t["accessible_positions"]),
            "recomb": [int(x) for x in t["recombination_costs"]], "tv": list(t["transmission_vector"] or []),
            "children": [tr[2] for tr in t["trios"]]}

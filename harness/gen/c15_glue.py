"""Generators for the glue / block-structure part of C15 (see harness/props/c15.py):

  gen_glue    variant-table rows + reads (position -> allele) for the run_polyphase glue, built with the real API
  gen_vcfio   records of one chromosome (duplicates, >= 16 ALTs, mixed SNV/indel ALTs, no ALT, unsorted, wrong ploidy) +
              a phase dictionary and a component dictionary for the real VcfReader / PhasedVcfWriter
  gen_agg     block results for aggregate_results
  gen_threads thread matrices for find_breakpoints
  gen_assign  breakpoints with link likelihoods for get_optimal_assignments (no affiliations)
  extra_records  additional VCF records for a CLI scenario (the F50 shapes)
Everything random derives from the rng passed in.
"""

BASES = "ACGT"


def rand_gt(rng, k, na, het=None):
    """k alleles out of 0..na; het=True forces >= 2 distinct, het=False forces homozygous"""
    while True:
        g = [rng.randrange(na + 1) for _ in range(k)]
        if het is None or (len(set(g)) > 1) == het:
            return g
        if het is False:
            return [g[0]] * k


def gen_glue(rng):
    k = rng.choice([2, 2, 3, 4, 5])
    m = rng.choice([2, 2, 2, 2, 3, 4])
    n = rng.choice([0, 1, 2, 3, 4, 5, 6, 8, 8, 12, 12])
    rows, pos = [], rng.randrange(0, 30)
    for _ in range(n):
        r = rng.random()
        na = rng.choice([1, 1, 1, 2, 3])
        if r < 0.08:
            gt = None
        elif r < 0.22:
            gt = rand_gt(rng, k, na, het=False)
        else:
            gt = rand_gt(rng, k, na, het=True)
            rng.shuffle(gt)
        rows.append([pos, gt])
        pos += rng.choice([1, 1, 2, 5, 30])
    het = [(p, g) for p, g in rows if g is not None and len(set(g)) > 1]
    reads = []
    mode = rng.random()
    if het:
        nreads = rng.choice([0, 1, 2, 3, 4, 6, 8, 12, 16])
        # "orphans": het variants that only single-variant reads (discarded) reach
        orphan = set(rng.sample(range(len(het)), rng.randrange(0, min(3, len(het)) + 1))) if rng.random() < 0.35 else set()
        for _ in range(nreads):
            if mode < 0.08:
                L = rng.choice([0, 1, 1])            # every read too short: nothing remains
            else:
                L = rng.choice([1, 2, 2, 3, 3, 4, 6])
            s = rng.randrange(0, max(1, len(het) - 1))
            idx = [i for i in range(s, min(len(het), s + L + 2)) if rng.random() < 0.85][:L]
            if any(i in orphan for i in idx):
                idx = [i for i in idx if i in orphan][:1]
            if L >= m and rng.random() < 0.15:
                idx = idx[:max(0, m - 1)]             # just below the threshold max(2, min_overlap)
            reads.append([[het[i][0], rng.choice(het[i][1])] for i in idx])
    return {"kind": "glue", "ploidy": k, "min_overlap": m, "rows": rows, "reads": reads}


def gen_vcfio(rng):
    k = rng.choice([2, 2, 3, 4])
    mav = rng.random() < 0.75
    only_snvs = rng.random() < 0.4
    n = rng.randrange(1, 9)
    recs, pos = [], rng.randrange(1, 40)
    special = rng.random()
    for i in range(n):
        ref = rng.choice(BASES)
        others = [b for b in BASES if b != ref]
        rng.shuffle(others)
        r = rng.random()
        if r < 0.45:
            alts = [others[0]]
        elif r < 0.55:
            alts = others[:rng.choice([2, 3])]
        elif r < 0.65:
            alts = [others[0], ref + "A"] if rng.random() < 0.5 else [ref + "AC", others[0]]   # mixed SNV / insertion
        elif r < 0.72:
            alts = [ref + "A" * (j + 1) for j in range(rng.choice([15, 16, 17]))]              # around MAX_ALLELES
        elif r < 0.8:
            alts = [ref + "T"]                                                                 # insertion
        elif r < 0.85:
            alts = []                                                                          # no ALT
        else:
            alts = [others[0]]
        na = len(alts)
        g = rng.random()
        if g < 0.08:
            gt = None
        elif g < 0.25:
            gt = rand_gt(rng, k, min(na, 3), het=False)
        else:
            gt = rand_gt(rng, k, min(na, 3), het=True if na else None)
        phased_in = gt is not None and rng.random() < 0.15
        recs.append({"pos": pos, "ref": ref, "alts": alts, "gt": gt, "phased": phased_in, "ps": pos + 1 if phased_in else None})
        step = rng.random()
        if step < 0.3:
            pass                         # next record at the same position
        else:
            pos += rng.choice([1, 1, 2, 7, 20])
    if special < 0.06 and n >= 3:
        i = rng.randrange(1, n)
        recs[i]["pos"] = max(0, recs[i - 1]["pos"] - rng.choice([1, 5]))       # out of order
    elif special < 0.1:
        i = rng.randrange(0, n)
        if recs[i]["gt"] is not None:
            recs[i]["gt"] = recs[i]["gt"] + [0]                                 # wrong ploidy
    # phases: mostly at record positions; alleles within what every record at the position can carry
    by_pos = {}
    for r in recs:
        by_pos.setdefault(r["pos"], []).append(r)
    phases, comps = [], []
    name = None
    for p in sorted(by_pos):
        lim = min(len(r["alts"]) for r in by_pos[p])
        if lim == 0 and rng.random() < 0.7:
            continue
        if rng.random() < 0.75:
            if name is None or rng.random() < 0.3:
                name = p
            c = rng.random()
            gts = [r["gt"] for r in by_pos[p] if r["gt"] is not None and max(r["gt"]) <= max(lim, 0)]
            if c < 0.7 and gts:
                ph = list(rng.choice(gts)); rng.shuffle(ph)                     # a rearrangement of some record's genotype
            else:
                ph = [rng.randrange(min(lim, 3) + 1) for _ in range(k)]          # anything (may change the genotype)
            if len(ph) == k:
                phases.append([p, ph])
                if rng.random() < 0.93:
                    comps.append([p, name])
    return {"kind": "vcfio", "ploidy": k, "mav": mav, "only_snvs": only_snvs, "recs": recs, "phases": phases,
            "comps": comps, "other": rng.random() < 0.3}


def gen_agg(rng):
    k = rng.choice([2, 3, 4])
    blocks = []
    total = 0
    for _ in range(rng.randrange(1, 6)):
        ncols = rng.choice([1, 1, 2, 3, 5])
        bps, p = [], 0
        for _ in range(rng.randrange(0, 4)):
            p += rng.choice([0, 1, 1, 2])
            if p >= ncols:
                break
            aff = sorted(rng.sample(range(k), rng.randrange(2, k + 1)))
            bps.append([p, aff, rng.choice([0.0, 1.0, rng.random()])])
        # positions strictly increasing inside a block (join of duplicates), position 0 possible (sub-instances)
        seen, uniq = set(), []
        for b in bps:
            if b[0] not in seen:
                seen.add(b[0]); uniq.append(b)
        blocks.append([ncols, uniq])
        total += ncols
    borders = []
    if rng.random() < 0.4:
        borders = sorted(rng.sample(range(total + 1), rng.randrange(0, min(total, 3) + 1)))
    return {"kind": "agg", "ploidy": k, "blocks": blocks, "borders": borders}


def gen_threads(rng):
    k = rng.choice([2, 3, 4, 5])
    n = rng.randrange(0, 9)
    ncl = rng.randrange(1, k + 2)
    rows = []
    cur = [rng.randrange(ncl) for _ in range(k)]
    for _ in range(n):
        rows.append(cur[:])
        if rng.random() < 0.6:
            cur = cur[:]
            for j in rng.sample(range(k), rng.randrange(1, k + 1)):
                if rng.random() < 0.7:
                    cur[j] = rng.randrange(ncl)
    return {"kind": "threads", "threads": rows}


def gen_assign(rng):
    import itertools
    k = rng.choice([2, 3, 3, 4, 4, 5])
    bps = []
    for _ in range(rng.randrange(0, 5)):
        aff = sorted(rng.sample(range(k), rng.randrange(2, k + 1)))
        vals = [-rng.random() * 20 for _ in range(3)]
        llh = []
        for perm in itertools.permutations(aff):
            llh.append([list(perm), rng.choice(vals) if rng.random() < 0.4 else -rng.random() * 20])   # ties happen
        bps.append({"haps": aff, "llh": llh})
    return {"kind": "assign", "ploidy": k, "bps": bps}


def extra_records(rng, variants, k):
    """additional records for one chromosome of a CLI scenario: [(index of the variant whose position is shared,
    before: bool, record)] — a record the reader skips in front of (or behind) a phasable one, second records"""
    out = []
    if len(variants) < 3:
        return out
    for vi in sorted(rng.sample(range(len(variants)), rng.randrange(1, min(3, len(variants)) + 1))):
        v = variants[vi]
        if len(v["ref"]) != 1:
            continue
        ref = v["ref"]
        others = [b for b in BASES if b != ref]
        kind = rng.choice(["many", "many", "mixed", "mixed", "dup", "noalt"])
        if kind == "many":
            alts = [ref + "A" * (j + 1) for j in range(rng.choice([16, 17]))]
        elif kind == "mixed":
            alts = [rng.choice(others), ref + "AC"]
        elif kind == "dup":
            alts = [rng.choice(others)]
        else:
            alts = []
        na = len(alts)
        gt = rand_gt(rng, k, min(na, 7), het=(True if na else None)) if rng.random() < 0.9 else None
        out.append({"at": vi, "before": rng.random() < 0.7, "kind": kind, "ref": ref, "alts": alts,
                    "gt": "/".join(map(str, sorted(gt))) if gt is not None else "/".join(["."] * k)})
    return out

"""Whole-run scenarios for C03 (and the C07 pipeline part): several chromosomes with DIFFERENT data, several families
(trio / quartet / unrelated singles / the members of a trio phased without --ped), designed read incidence
structures per (sample, chromosome), depth above the coverage cap, decorated VCFs (records the code skips: multi-ALT
at the same position in front of a variant, duplicate positions, multi-ALT / no-ALT / symbolic records elsewhere,
missing genotypes, pre-existing PS/HP phase), and the options that touch the path from the selected reads to the
written phase sets (--tag, --internal-downsampling, --ped, --no-genetic-haplotyping, --distrust-genotypes,
--include-homozygous, --only-snvs, --chromosome, --sample, --output-read-list, --ignore-read-groups, --merge-reads,
a phased VCF as second phase input, read names repeated across samples).

A case is `{"kind": "pipe", "gen_seed": …, "params": {…}}` and is rebuilt deterministically from that (never from the
run's PRNG)."""
import os
import random
import re

from . import sim
from . import c05_ped as G

LAYOUTS = ["single", "single", "multi", "multi", "trio", "trio", "trio+single", "quartet", "trio-noped"]
STYLES = ["random", "paired", "interleaved", "nested", "chain-gaps", "clusters", "deep", "none"]
LARGE_STYLES = ["chain-gaps", "chain-gaps", "interleaved", "nested", "paired", "random"]    # many small components side by side


def gen_case(rng, rephase=False, mixed=False, large=False):
    """`large=True`: LARGE COORDINATES (the normal case of real data) x HEADER DECLARATIONS of the phase FORMAT keys, see `_large_params`.
    `mixed=True`: a `--ped` run whose VCF holds a real family PLUS samples that end up in no trio (see `_mixed_contigs`).
    `rephase=True`: the VCF to be phased is the output of an EARLIER phasing run (see `_prephase`); the extra parameters are
    derived from `gen_seed`, never from `rng`, so that the stream of plain cases (also used by C07) does not move"""
    layout = rng.choice(LAYOUTS)
    distrust = rng.random() < 0.2
    p = {
        "layout": layout,
        "n_contigs": rng.choice([1, 2, 2, 3]),
        "n_variants": [6, rng.choice([10, 16, 22])],
        "het_prob": rng.choice([0.6, 0.8, 1.0]),
        "kinds": rng.choice([["snv"], ["snv"], ["snv", "snv", "ins", "del"]]),
        "tag": rng.choice(["PS", "PS", "HP"]),
        "cap": rng.choice([1, 2, 2, 3, 4, 15]),
        "distrust": distrust,
        "include_hom": distrust and rng.random() < 0.4,
        "no_genetic": rng.random() < 0.35,
        "only_snvs": rng.random() < 0.15,
        "chrom_sel": rng.random() < 0.25,
        "sample_sel": rng.random() < 0.2,
        "read_list": rng.random() < 0.6,
        "ignore_rg": rng.random() < 0.08,
        # --merge-reads renames the reads and drops their sample id (`Read("read%d")`): it only works for the sample with
        # numeric id 0 (observation in notes/C03.md); it is outside the modelled path and only exercised for one sample
        # (F85, fixes/F85.patch; C03_MERGE_ALL=1 exercises it for every layout, e.g. against a patched clone)
        "merge_reads": (layout == "single" or bool(os.environ.get("C03_MERGE_ALL"))) and rng.random() < 0.15,
        "phased_vcf_input": rng.random() < 0.12,
        "dup_names": rng.random() < 0.08,
        "no_reference": rng.random() < 0.3,
        "decor": rng.random() < 0.6,
        "pre_phase": rng.choice(["none", "none", "PS", "HP"]),
        "missing_gt": rng.choice([0.0, 0.0, 0.06]),
        "noise": rng.choice([0, 0, 0.04]),
    }
    case = {"kind": "pipe", "gen_seed": rng.randrange(1 << 40), "params": p}
    if rephase:
        r3 = random.Random(case["gen_seed"] ^ 0x7E5EED)
        p["decor"] = True
        p["pre_phase"] = "none"
        p["kinds"] = r3.choice([["snv"], ["snv", "snv", "ins", "del"], ["snv", "ins", "del", "mnp"]])
        p["only_snvs"] = r3.random() < (0.5 if len(p["kinds"]) > 1 else 0.15)
        p["tag"] = r3.choice(["PS", "HP"])
        p["rephase"] = {"enc": r3.choice(["PS", "PS", "HP", "HP", "mixed"]),
                        "ids": r3.choice(["leftmost", "leftmost", "variant", "foreign", "mixed", "mixed"]),
                        "frac": r3.choice([1.0, 0.85, 0.6]),
                        "blocks": r3.choice([1, 1, 2, 3])}
    if mixed:
        r4 = random.Random(case["gen_seed"] ^ 0xFA317)
        p["layout"] = "mixed"
        p["n_contigs"] = r4.choice([2, 2, 3])
        p["cap"] = r4.choice([2, 3, 15, 15])
        p["no_genetic"] = r4.random() < 0.2
        p["distrust"] = p["distrust"] and r4.random() < 0.5
        p["include_hom"] = p["include_hom"] and p["distrust"]
        p["missing_gt"] = 0.0
        p["noise"] = 0
        for k in ("ignore_rg", "merge_reads", "dup_names", "sample_sel"):
            p[k] = False
        p["chrom_sel"] = p["n_contigs"] == 3 and r4.random() < 0.3
        kinds = ["vcf-only", "vcf-only", "founder-line", "half-line", "dropped-trio", "missing-member"]
        extras = [{"kind": r4.choice(kinds), "where": r4.choice(["before", "after"])}]
        while len(extras) < 3 and r4.random() < 0.45:
            e = {"kind": r4.choice(kinds), "where": r4.choice(["before", "after"])}
            if e["kind"] in ("dropped-trio", "missing-member") and any(x["kind"] in ("dropped-trio", "missing-member") for x in extras):
                continue
            extras.append(e)
        p["mixed"] = {"family": r4.choice(["trio", "trio", "quartet"]), "names": r4.randrange(len(FAM_NAMES)), "extras": extras,
                      "segments": r4.choice([2, 2, 3, 4]), "parent_reads": r4.choice(["none", "segments", "segments", "random"]),
                      "list_all_samples": r4.random() < 0.25, "shuffle_columns": r4.random() < 0.6}
    if large:
        _large_params(case)
    return case


# ---- large coordinates x header declarations (round 10, F140) -----------------------------------------------------------------
# offsets of the (small, simulated) variant window inside a contig of realistic length.  The interesting places: where the decimal
# position gets 7, 8, 9, 10 digits (a `%g` rendering keeps 6), right below 2^29 (the limit of the BAI index) and the 32-bit limits
LARGE_BASES = [999_000, 1_999_950, 9_999_000, 20_000_000, 99_999_100, 123_456_000, 249_000_000, 536_700_000]
PS_DECLS = ["standard", "standard", "absent", "float", "float", "float", "number-dot", "string", "float-dot", "integer-2"]
HP_DECLS = ["absent", "absent", "standard", "integer", "number-1"]
PQ_DECLS = ["absent", "absent", "standard", "integer", "string"]
DECL_LINES = {
    ("PS", "standard"): '##FORMAT=<ID=PS,Number=1,Type=Integer,Description="Phase set identifier">',
    ("PS", "float"): '##FORMAT=<ID=PS,Number=1,Type=Float,Description="Phase set">',
    ("PS", "number-dot"): '##FORMAT=<ID=PS,Number=.,Type=Integer,Description="Phase set">',
    ("PS", "string"): '##FORMAT=<ID=PS,Number=1,Type=String,Description="Phase set">',
    ("PS", "float-dot"): '##FORMAT=<ID=PS,Number=.,Type=Float,Description="Phase set">',
    ("PS", "integer-2"): '##FORMAT=<ID=PS,Number=2,Type=Integer,Description="Phase set">',
    ("HP", "standard"): '##FORMAT=<ID=HP,Number=.,Type=String,Description="Phasing haplotype identifier">',
    ("HP", "integer"): '##FORMAT=<ID=HP,Number=.,Type=Integer,Description="Haplotype">',
    ("HP", "number-1"): '##FORMAT=<ID=HP,Number=1,Type=String,Description="Haplotype">',
    ("PQ", "standard"): '##FORMAT=<ID=PQ,Number=1,Type=Float,Description="Phasing quality">',
    ("PQ", "integer"): '##FORMAT=<ID=PQ,Number=1,Type=Integer,Description="Phasing quality">',
    ("PQ", "string"): '##FORMAT=<ID=PQ,Number=1,Type=String,Description="Phasing quality">',
}


def _large_params(case):
    """every extra parameter comes from `gen_seed` (the plain stream does not move).  The simulated window of every contig is moved
    to `base + jitter` inside a contig of declared length 2*10^6 ... 2.5*10^8 (one base below 2^29; BAM and VCF only carry the
    declared length, the run uses --no-reference), so that variant positions have 7-9 digits and the leftmost positions of
    neighbouring read components agree in their first 6-7 digits.  The input header declares PS / HP / PQ as absent / standard /
    non-standard (a key used by the records is never left undeclared and never declared with a type its values cannot have)."""
    p = case["params"]
    r5 = random.Random(case["gen_seed"] ^ 0x1A26E)
    p["no_reference"] = True
    p["merge_reads"] = False
    p["phased_vcf_input"] = False
    p["layout"] = r5.choice(["single", "single", "single", "multi", "trio", p["layout"]]) if p["layout"] != "mixed" else "mixed"
    p["tag"] = r5.choice(["PS", "PS", "HP"])
    p["cap"] = r5.choice([2, 3, 15, 15])
    p["n_contigs"] = min(p["n_contigs"], 2) if p["layout"] != "mixed" else p["n_contigs"]
    offs = []
    for _ in range(3):
        base = r5.choice(LARGE_BASES)
        offs.append(base + r5.choice([0, 0, r5.randrange(0, 900), r5.randrange(0, 90000)]))
    p["large"] = {"offsets": offs, "ps": r5.choice(PS_DECLS), "hp": r5.choice(HP_DECLS), "pq": r5.choice(PQ_DECLS),
                  "dense": r5.random() < 0.6}
    if p["large"]["dense"]:
        # many small read components next to each other: their leftmost positions differ in the last 2-3 digits only
        p["n_variants"] = [14, 26]


# names of the samples of a `mixed` case: families are processed in the sorted order of their representative (= smallest member name)
FAM_NAMES = [("F0", "M0", "C0", "D0"), ("Kfa", "Kmo", "Kch", "Kdo"), ("P1", "P2", "Kid", "Kie")]
NAMES_BEFORE = ["A1", "Adam", "0pre", "B_x", "AA", "Bea"]
NAMES_AFTER = ["S1", "Zed", "adam", "zz9", "Tom", "Lee"]


def _mixed_contigs(rng, p):
    """A `--ped` run over >= 2 chromosomes whose VCF holds one real family (trio / quartet) PLUS samples that end up in no trio:
    `vcf-only` (a VCF column the PED file does not mention), `founder-line` (PED line with both parents 0), `half-line` (PED line
    with one parent 0: the relationship is ignored), `dropped-trio` (a second complete trio of which --sample leaves out one
    member), `missing-member` (a PED trio one member of which is no column of the VCF) - with names that sort before / after
    the family's representative.  On every chromosome the first child's reads form `segments` >= 2 components (no read crosses
    a segment border) and every segment contains a variant that is heterozygous in the child and homozygous in one parent, so
    that pedigree mode has to merge the segments into one phase set.
    Returns (samples = VCF columns, trios of the real family, contigs, ped_lines, sel_s)"""
    mx = p["mixed"]
    fa, mo, c1, c2 = FAM_NAMES[mx["names"]]
    children = [c1] + ([c2] if mx["family"] == "quartet" else [])
    family = [fa, mo] + children
    trios = [(fa, mo, c) for c in children]
    ped_lines = [("fam0", c, fa, mo) for c in children]
    pools = {"before": list(NAMES_BEFORE), "after": list(NAMES_AFTER)}
    for v in pools.values():
        rng.shuffle(v)
    singles, absent, leave_out = [], [], []
    for k, e in enumerate(mx["extras"]):
        pool = pools[e["where"]]
        if e["kind"] == "vcf-only":
            singles.append(pool.pop())
        elif e["kind"] == "founder-line":
            s = pool.pop(); singles.append(s); ped_lines.append((f"x{k}", s, "0", "0"))
        elif e["kind"] == "half-line":
            s, par = pool.pop(), pool.pop(); singles += [s, par]
            ped_lines.append((f"x{k}", s, par, "0") if rng.random() < 0.5 else (f"x{k}", s, "0", par))
        else:
            pre = "A" if e["where"] == "before" else "Z"
            t = [pre + "fa", pre + "mo", pre + "ch"]
            ped_lines.append((f"x{k}", t[2], t[0], t[1]))
            gone = rng.choice(t)
            if e["kind"] == "dropped-trio":
                singles += t; leave_out.append(gone)
            else:
                singles += [x for x in t if x != gone]; absent.append(gone)
    rng.shuffle(ped_lines)
    samples = family + singles
    if mx["shuffle_columns"]:
        rng.shuffle(samples)
    sel_s = None
    if leave_out or mx["list_all_samples"]:
        sel_s = [s for s in samples if s not in leave_out]
        rng.shuffle(sel_s)
    contigs = []
    for ci in range(p["n_contigs"]):
        name = f"chr{ci + 1}"
        L = rng.randrange(2200, 3600)
        seq = sim.random_seq(rng, L)
        nseg = mx["segments"]
        nv = rng.randrange(3 * nseg + 1, 3 * nseg + 8)
        vs = sim.make_variants(rng, name, seq, nv, kinds=p["kinds"], min_gap=40)
        nv = len(vs)
        nseg = max(1, min(nseg, nv // 3))
        cuts = sorted(rng.sample(range(1, nv // 3), nseg - 1)) if nseg > 1 else []
        # segment borders at multiples of 3 (+ jitter to the right): every segment has >= 3 variants
        bounds = [0] + [3 * c for c in cuts] + [nv]
        segs = [(bounds[i], bounds[i + 1] - 1) for i in range(nseg)]
        haps = {}
        for s in [fa, mo] + singles:
            h0, h1 = [], []
            for _ in vs:
                if rng.random() < p["het_prob"]:
                    a = rng.randrange(2); b = 1 - a
                else:
                    a = b = rng.randrange(2)
                h0.append(a); h1.append(b)
            haps[s] = [h0, h1]
        trans = {c: (rng.randrange(2), rng.randrange(2)) for c in children}
        kf, km = trans[c1]
        forced = []
        for (a, b) in segs:
            i = rng.randrange(a, b + 1)
            v = rng.randrange(2)
            hom, het, kh = (fa, mo, km) if rng.random() < 0.5 else (mo, fa, kf)
            haps[hom][0][i] = haps[hom][1][i] = v
            haps[het][kh][i] = 1 - v; haps[het][1 - kh][i] = v
            forced.append(i)
        for c in children:
            haps[c] = [list(haps[fa][trans[c][0]]), list(haps[mo][trans[c][1]])]
        gt = {}
        for s in samples:
            g = []
            for i in range(nv):
                a, b = sorted((haps[s][0][i], haps[s][1][i]))
                if p["distrust"] and i not in forced and rng.random() < 0.1:
                    a, b = rng.choice([x for x in ((0, 0), (0, 1), (1, 1)) if x != (a, b)])
                g.append(f"{a}/{b}")
            gt[s] = g
        cc = {"contig": name, "seq": seq, "variants": [{"pos": v.pos, "ref": v.ref, "alt": v.alt, "kind": v.kind} for v in vs],
              "samples": list(samples), "haps": haps, "gt": gt, "reads": [], "segments": segs, "forced": forced}
        def seg_blocks(dense):
            blocks = []
            for (a, b) in segs:
                if b > a:
                    blocks.append([(a, b)])
                    for x in range(a, b):
                        if rng.random() < dense:
                            blocks.append([(x, x + 1)])
                    if b - a >= 2 and rng.random() < 0.5:
                        blocks.append([(a, a), (b, b)])
            rng.shuffle(blocks)
            return blocks
        G.add_structured_reads(rng, cc, c1, seg_blocks(0.6), tag=name)
        for s in family:
            if s == c1:
                continue
            if mx["parent_reads"] == "segments":
                G.add_structured_reads(rng, cc, s, seg_blocks(0.3), tag=name)
            elif mx["parent_reads"] == "random" and rng.random() < 0.6:
                G.add_reads(rng, cc, s, depth=rng.choice([0.5, 1]), read_len=(60, 160), tag=name)
        for s in singles:
            _add_reads(rng, cc, s, rng.choice(["random", "chain-gaps", "clusters", "paired", "none"]), 0)
        contigs.append(cc)
    return samples, trios, contigs, ped_lines, sel_s


def _prephase(rng, recs, contigs, samples, rp, keys, only_snvs):
    """The input already carries the phasing of an earlier run, on EVERY record kind (also the kinds the new run skips:
    multi-ALT, duplicate positions, no ALT, symbolic, non-SNVs under --only-snvs) and in either encoding (phased GT + PS,
    or HP on an unphased GT).  Per (contig, sample) the records form 1-3 contiguous old phase sets whose ids are
    `leftmost`: 1-based position of the block's first biallelic record (SNV under --only-snvs) (what an earlier whatshap run
    writes: equals the id of a NEW phase set whenever the new leftmost variant is the same), `variant`: 1-based position of some variant of the
    contig (earlier or later than the records carrying it), `foreign`: a number that is no variant position."""
    for k in ("PS", "HP"):
        if (rp["enc"] in (k, "mixed")) and k not in keys:
            keys.append(k)          # the list object is the `format` of every record
    for cc in contigs:
        idx = [i for i, r in enumerate(recs) if r["chrom"] == cc["contig"]]
        if not idx:
            continue
        vpos = sorted({v["pos"] + 1 for v in cc["variants"]})
        for si, s in enumerate(samples):
            nb = min(rp["blocks"], len(idx))
            cuts = sorted(rng.sample(range(1, len(idx)), nb - 1)) if nb > 1 else []
            bounds = [0] + cuts + [len(idx)]
            for b in range(len(bounds) - 1):
                members = idx[bounds[b]:bounds[b + 1]]
                mode = rp["ids"] if rp["ids"] != "mixed" else rng.choice(["leftmost", "variant", "foreign"])
                if mode == "leftmost":
                    first = [i for i in members if len(recs[i]["alts"]) == 1 and
                             (not only_snvs or len(recs[i]["ref"]) == len(recs[i]["alts"][0]) == 1)]
                    block = recs[(first or members)[0]]["pos"] + 1
                elif mode == "variant":
                    block = rng.choice(vpos)
                else:
                    block = rng.choice([x for x in (1, 7, vpos[0] + 1, vpos[-1] + 13, 100000 + vpos[0]) if x not in vpos])
                for i in members:
                    r = recs[i]
                    call = r["calls"][si]
                    if rng.random() >= rp["frac"]:
                        continue
                    na = len(r["alts"])
                    g = re.split(r"[/|]", call.get("GT", "./."))
                    if na == 0:
                        al = ["0", "0"]
                    elif na >= 2:
                        al = rng.choice([["1", "2"], ["0", "2"], ["2", "1"], ["0", "1"]])
                    elif "." in g or len(g) != 2:
                        continue
                    elif r.get("_decor"):
                        al = rng.choice([["0", "1"], ["1", "0"], ["0", "1"], ["1", "1"]])
                    else:
                        al = g if g[0] == g[1] or rng.random() < 0.5 else g[::-1]    # a variant of the run: genotype kept
                    enc = rp["enc"] if rp["enc"] != "mixed" else rng.choice(["PS", "HP"])
                    call.pop("PS", None); call.pop("HP", None)
                    if enc == "PS":
                        call["GT"] = "|".join(al); call["PS"] = str(block)
                    else:
                        order = rng.choice([(1, 2), (2, 1)])
                        call["GT"] = "/".join(sorted(al)); call["HP"] = ",".join(f"{block}-{h}" for h in order)
    for r in recs:
        r.pop("_decor", None)


def _layout_samples(layout):
    """(samples, trios as (father, mother, child), use_ped)"""
    if layout == "single":
        return ["S1"], [], False
    if layout == "multi":
        return ["S1", "S2", "S3"], [], False
    if layout == "trio":
        return ["F0", "M0", "C0"], [("F0", "M0", "C0")], True
    if layout == "trio+single":
        return ["S1", "F0", "M0", "C0"], [("F0", "M0", "C0")], True
    if layout == "quartet":
        return ["F0", "M0", "C0", "D0"], [("F0", "M0", "C0"), ("F0", "M0", "D0")], True
    if layout == "trio-noped":
        return ["F0", "M0", "C0"], [("F0", "M0", "C0")], False
    raise ValueError(layout)


def _contig_case(rng, name, samples, trios, p):
    L = rng.randrange(1800, 3600)
    seq = sim.random_seq(rng, L)
    nv = rng.randrange(p["n_variants"][0], p["n_variants"][1] + 1)
    vs = sim.make_variants(rng, name, seq, nv, kinds=p["kinds"], min_gap=40)
    children = {c: (f, m) for f, m, c in trios}
    haps = {}
    for s in samples:
        if s in children:
            continue
        h0, h1 = [], []
        for _ in vs:
            if rng.random() < p["het_prob"]:
                a = rng.randrange(2); b = 1 - a
            else:
                a = b = rng.randrange(2)
            h0.append(a); h1.append(b)
        haps[s] = [h0, h1]
    for c, (f, m) in children.items():
        haps[c] = [list(haps[f][rng.randrange(2)]), list(haps[m][rng.randrange(2)])]
    gt = {}
    for s in samples:
        g = []
        for i in range(len(vs)):
            a, b = sorted((haps[s][0][i], haps[s][1][i]))
            if p["distrust"] and rng.random() < 0.12:
                a, b = rng.choice([x for x in ((0, 0), (0, 1), (1, 1)) if x != (a, b)])
            g.append("./." if rng.random() < p["missing_gt"] else f"{a}/{b}")
        gt[s] = g
    return {"contig": name, "seq": seq, "variants": [{"pos": v.pos, "ref": v.ref, "alt": v.alt, "kind": v.kind} for v in vs],
            "samples": list(samples), "haps": haps, "gt": gt, "reads": []}


def _add_reads(rng, cc, s, style, noise):
    nvar = len(cc["variants"])
    if style == "none" or nvar < 2:
        return
    if style == "random":
        G.add_reads(rng, cc, s, depth=rng.choice([0.5, 1, 2]), read_len=(60, 200), noise=noise, tag=cc["contig"])
    elif style == "paired":
        G.add_reads(rng, cc, s, depth=rng.choice([0.6, 1.2]), read_len=(50, 140), paired_frac=0.8, insert=(80, 700), noise=noise,
                    tag=cc["contig"])
    elif style == "deep":
        G.add_reads(rng, cc, s, depth=rng.choice([6, 10, 16]), read_len=(60, 220), paired_frac=rng.choice([0.0, 0.4]), insert=(60, 500),
                    noise=noise, tag=cc["contig"])
    else:
        G.add_structured_reads(rng, cc, s, G.structure_blocks(rng, nvar, style), noise=noise, tag=cc["contig"])
        if rng.random() < 0.3:
            G.add_reads(rng, cc, s, depth=0.3, read_len=(60, 160), tag=cc["contig"] + "x")


def scenario(case):
    """the deterministic content of a case: contigs (each a c05_ped-style case dict), samples, trios, the VCF records,
    the command-line options"""
    p = case["params"]
    rng = random.Random(case["gen_seed"])
    ped_lines, mixed_sel = None, None
    if p.get("mixed"):
        samples, trios, contigs, ped_lines, mixed_sel = _mixed_contigs(rng, p)
        use_ped = True
    else:
        samples, trios, use_ped = _layout_samples(p["layout"])
        contigs = []
        for ci in range(p["n_contigs"]):
            cc = _contig_case(rng, f"chr{ci + 1}", samples, trios, p)
            for s in samples:
                _add_reads(rng, cc, s, rng.choice(LARGE_STYLES if (p.get("large") or {}).get("dense") else STYLES), p["noise"])
            contigs.append(cc)
    if p["dup_names"] and len(samples) > 1:
        # the same read name in two samples (two read groups of one BAM)
        for cc in contigs:
            by = {}
            for r in cc["reads"]:
                by.setdefault(r["sample"], []).append(r)
            ss = [s for s in samples if by.get(s)]
            if len(ss) >= 2:
                a, b = by[ss[0]][0], by[ss[1]][0]
                old = b["name"]
                for r in by[ss[1]]:
                    if r["name"] == old:
                        r["name"] = a["name"]
    # ---- VCF records
    recs = []
    rp = p.get("rephase")
    pre = p["pre_phase"]
    keys = ["GT"] + (["PS"] if (pre == "PS" or p["decor"]) else []) + (["HP"] if pre == "HP" else [])
    for cc in contigs:
        seq = cc["seq"]
        for i, v in enumerate(cc["variants"]):
            block = rng.choice([7, 1000])
            calls = []
            for s in samples:
                g = cc["gt"][s][i]
                call = {"GT": g}
                if g in ("0/1",) and pre == "PS" and rng.random() < 0.7:
                    call["GT"] = rng.choice(["0|1", "1|0"]); call["PS"] = str(block)
                elif g in ("0/1",) and pre == "HP" and rng.random() < 0.7:
                    call["HP"] = rng.choice([f"{block}-1,{block}-2", f"{block}-2,{block}-1"])
                calls.append(call)
            if p["decor"] and rng.random() < (0.25 if rp else 0.1):
                ref0 = v["ref"][0]
                alts0 = [x for x in "ACGT" if x != ref0][:2]
                recs.append(dict(chrom=cc["contig"], pos=v["pos"], ref=ref0, alts=alts0, format=keys,
                                 calls=[{"GT": rng.choice(["1/2", "0/1", "1|2", "./."]), "PS": rng.choice(["66", "."])} for _ in samples]))
            recs.append(dict(chrom=cc["contig"], pos=v["pos"], ref=v["ref"], alts=[v["alt"]], format=keys, calls=calls))
            if not p["decor"]:
                continue
            kind = rng.choice(["dup", "multi", "sym", "noalt", "none"] + ([] if rp else ["none", "none"]))
            q = v["pos"] + len(v["ref"]) + 3
            if kind == "dup":
                alt2 = rng.choice([x for x in "ACGT" if x != v["ref"][0] and x != v["alt"][0]])
                recs.append(dict(chrom=cc["contig"], pos=v["pos"], ref=v["ref"][0], alts=[alt2], format=keys,
                                 calls=[{"GT": rng.choice(["0|1", "1|0", "0/1", "1/1"]), "PS": "77"} for _ in samples]))
            elif q < len(seq) - 8:
                ref = seq[q]
                if kind == "multi":
                    recs.append(dict(chrom=cc["contig"], pos=q, ref=ref, alts=[x for x in "ACGT" if x != ref][:2], format=keys,
                                     calls=[{"GT": rng.choice(["1|2", "0|2", "1/2", "0/1", "./."]), "PS": "88"} for _ in samples]))
                elif kind == "sym":
                    recs.append(dict(chrom=cc["contig"], pos=q, ref=ref, alts=["<DEL>"], format=keys, info=f"END={q + 5};SVTYPE=DEL",
                                     calls=[{"GT": rng.choice(["0/1", "0|1", "1/1"]), "PS": "99"} for _ in samples]))
                elif kind == "noalt":
                    recs.append(dict(chrom=cc["contig"], pos=q, ref=ref, alts=[], format=keys,
                                     calls=[{"GT": rng.choice(["0/0", "0|0", "./."]), "PS": "."} for _ in samples]))
    lg = p.get("large")
    if lg:
        # move the simulated window of every contig to its place inside a contig of realistic length (variants, reads, records, END;
        # old phase sets are made afterwards, from the moved positions)
        for ci, cc in enumerate(contigs):
            off = lg["offsets"][ci % len(lg["offsets"])]
            cc["offset"] = off
            # (a BAI index cannot address positions from 2^29 on)
            cc["length"] = min(max(2_000_000, off + len(cc["seq"]) + 1000 + (off // 7) % 3_000_000), 2 ** 29 - 1)
            for v in cc["variants"]:
                v["pos"] += off
            for r in cc["reads"]:
                r["start"] += off
            for r in recs:
                if r["chrom"] == cc["contig"]:
                    r["pos"] += off
                    if r.get("info", "").startswith("END="):
                        r["info"] = f"END={r['pos'] + 6};SVTYPE=DEL"
    if rp:
        main = {(cc["contig"], v["pos"], v["ref"], v["alt"]) for cc in contigs for v in cc["variants"]}
        for r in recs:
            if len(r["alts"]) != 1 or (r["chrom"], r["pos"], r["ref"], r["alts"][0]) not in main:
                r["_decor"] = True
        _prephase(random.Random(case["gen_seed"] ^ 0x9E0), recs, contigs, samples, rp, keys, p["only_snvs"])
    # ---- options
    r2 = random.Random(case["gen_seed"] ^ 0xC03)
    names = [cc["contig"] for cc in contigs]
    sel_c = sorted(r2.sample(names, r2.randrange(1, len(names) + 1))) if (p["chrom_sel"] and len(names) > 1) else None
    sel_s = None
    if p["ignore_rg"]:
        sel_s = [r2.choice(samples)]
    elif p["sample_sel"] and len(samples) > 1 and not use_ped:
        sel_s = sorted(r2.sample(samples, r2.randrange(1, len(samples))))
    if p.get("mixed"):
        sel_s = mixed_sel
        sel_c = sorted(r2.sample(names, 2)) if p["chrom_sel"] else None
    if ped_lines is None:
        ped_lines = [(f"fam{i}", ch, fa_, mo) for i, (fa_, mo, ch) in enumerate(trios)]
    return {"samples": samples, "trios": trios, "use_ped": use_ped and not p["ignore_rg"], "contigs": contigs, "records": recs,
            "keys": keys, "sel_c": sel_c, "sel_s": sel_s, "ped_lines": ped_lines}


FMT_DEFS = {
    "PS": '##FORMAT=<ID=PS,Number=1,Type=Integer,Description="Phase set identifier">',
    "HP": '##FORMAT=<ID=HP,Number=.,Type=String,Description="Phasing haplotype identifier">',
}
INFO_DEFS = {
    "END": '##INFO=<ID=END,Number=1,Type=Integer,Description="End position">',
    "SVTYPE": '##INFO=<ID=SVTYPE,Number=1,Type=String,Description="SV type">',
}


def large_fmt_defs(lg, keys, has_values):
    """the FORMAT header lines of a `large` case.  A key used by the records is declared (standard if its values could not be
    parsed under the wanted declaration: HP values are strings like 7-1,7-2; PS values are integers, which every PS declaration
    used here can hold except Number=2 once values exist)"""
    out = {}
    ps, hp, pq = lg["ps"], lg["hp"], lg["pq"]
    if "PS" in keys and (ps == "absent" or (has_values and ps == "integer-2")):
        ps = "standard"
    if "HP" in keys and hp != "standard":
        hp = "standard"
    for k, d in (("PS", ps), ("HP", hp), ("PQ", pq)):
        if d != "absent":
            out[k] = DECL_LINES[(k, d)]
    return out


def build(case, d):
    """writes the input files; returns (scenario, paths, args) — args without `phase -o OUT`"""
    p = case["params"]
    sc = scenario(case)
    os.makedirs(d, exist_ok=True)
    lg = p.get("large")
    # large coordinates: only the declared LENGTH of a contig goes into the BAM / VCF headers (`range` has a len and no content);
    # there is no FASTA (the run uses --no-reference)
    contigs = {cc["contig"]: (range(cc["length"]) if lg else cc["seq"]) for cc in sc["contigs"]}
    fa, bam, vcf = (os.path.join(d, "in" + e) for e in (".fasta", ".bam", ".vcf"))
    if not lg:
        sim.write_fasta(fa, contigs)
    reads = []
    for cc in sc["contigs"]:
        for r in cc["reads"]:
            reads.append({"name": r["name"], "chrom": cc["contig"], "start": r["start"], "cigar": [tuple(c) for c in r["cigar"]],
                          "seq": r["seq"], "rg": "rg_" + r["sample"], "flag": r.get("flag", 0), "mapq": r.get("mapq", 60)})
    if not reads:
        cc = sc["contigs"][0]
        reads.append({"name": "decoy", "chrom": cc["contig"], "start": 2 + cc.get("offset", 0), "cigar": [(0, 23)], "seq": cc["seq"][2:25],
                      "rg": "rg_" + sc["samples"][0], "flag": 0, "mapq": 60})
    sim.write_bam(bam, contigs, reads, [("rg_" + s, s) for s in sc["samples"]])
    fmt_defs = {k: FMT_DEFS[k] for k in sc["keys"] if k in FMT_DEFS}
    if lg:
        fmt_defs = large_fmt_defs(lg, sc["keys"], any("PS" in c or "HP" in c for r in sc["records"] for c in r["calls"]))
    info_defs = INFO_DEFS if any(r["alts"] == ["<DEL>"] for r in sc["records"]) else {}
    sim.write_vcf(vcf, contigs, sc["samples"], sc["records"], fmt_defs=fmt_defs, info_defs=info_defs)
    paths = {"fasta": fa, "bam": bam, "vcf": vcf}
    args = ["--tag", p["tag"], "--internal-downsampling", str(p["cap"])]
    if p["no_reference"]:
        args.append("--no-reference")
    else:
        args += ["--reference", fa]
    if sc["use_ped"]:
        ped = os.path.join(d, "in.ped")
        with open(ped, "w") as f:
            for fam_id, ch, fa_, mo in sc["ped_lines"]:
                f.write(f"{fam_id}\t{ch}\t{fa_}\t{mo}\t0\t1\n")
        paths["ped"] = ped
        args += ["--ped", ped]
        if p["no_genetic"]:
            args.append("--no-genetic-haplotyping")
    if p["distrust"]:
        args.append("--distrust-genotypes")
        if p["include_hom"]:
            args.append("--include-homozygous")
    if p["only_snvs"]:
        args.append("--only-snvs")
    if p["ignore_rg"]:
        args.append("--ignore-read-groups")
    if p["merge_reads"]:
        args.append("--merge-reads")
    for s in sc["sel_s"] or []:
        args += ["--sample", s]
    for c in sc["sel_c"] or []:
        args += ["--chromosome", c]
    if p["read_list"]:
        paths["read_list"] = os.path.join(d, "reads.tsv")
        args += ["--output-read-list", paths["read_list"]]
    extra_inputs = []
    if p["phased_vcf_input"]:
        # a second phase input: the truth of the first sample as PS-phased blocks (pseudo reads with their own source id)
        pv = os.path.join(d, "phased.vcf")
        s0 = (sc["sel_s"] or sc["samples"])[0]
        precs = []
        for cc in sc["contigs"]:
            nv = len(cc["variants"])
            cut = nv // 2
            for i, v in enumerate(cc["variants"]):
                calls = []
                for s in sc["samples"]:
                    a, b = cc["haps"][s][0][i], cc["haps"][s][1][i]
                    if s == s0 and a != b:
                        calls.append({"GT": f"{a}|{b}", "PS": str(cc["variants"][0 if i < cut else cut]["pos"] + 1)})
                    else:
                        x, y = sorted((a, b))
                        calls.append({"GT": f"{x}/{y}"})
                precs.append(dict(chrom=cc["contig"], pos=v["pos"], ref=v["ref"], alts=[v["alt"]], format=["GT", "PS"], calls=calls))
        sim.write_vcf(pv, contigs, sc["samples"], precs, fmt_defs={"PS": FMT_DEFS["PS"]})
        extra_inputs.append(pv)
    return sc, paths, args, extra_inputs

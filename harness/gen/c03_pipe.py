"""Whole-run scenarios for C03 (and the C07 pipeline part): several chromosomes with DIFFERENT data, several families
(trio / quartet / unrelated singles / the members of a trio phased without --ped), designed read incidence
structures per (sample, chromosome), depth above the coverage cap, decorated VCFs (records the code skips: multi-ALT
at the same position in front of a variant, duplicate positions, multi-ALT / no-ALT / symbolic records elsewhere,
missing genotypes, pre-existing PS/HP phase), and the options that touch the path from the selected reads to the
written phase sets (--tag, --internal-downsampling, --ped, --no-genetic-haplotyping, --distrust-genotypes,
--include-homozygous, --only-snvs, --chromosome, --sample, --output-read-list, --ignore-read-groups, --merge-reads,
a phased VCF as second phase input, read names repeated across samples).

A case is `{"kind": "pipe", "gen_seed": …, "params": {…}}` and is rebuilt deterministically from that (never from the
run's PRNG)."""
import os
import random
import re

from . import sim
from . import c05_ped as G

LAYOUTS = ["single", "single", "multi", "multi", "trio", "trio", "trio+single", "quartet", "trio-noped"]
STYLES = ["random", "paired", "interleaved", "nested", "chain-gaps", "clusters", "deep", "none"]


def gen_case(rng, rephase=False):
    """`rephase=True`: the VCF to be phased is the output of an EARLIER phasing run (see `_prephase`); the extra parameters are
    derived from `gen_seed`, never from `rng`, so that the stream of plain cases (also used by C07) does not move"""
    layout = rng.choice(LAYOUTS)
    distrust = rng.random() < 0.2
    p = {
        "layout": layout,
        "n_contigs": rng.choice([1, 2, 2, 3]),
        "n_variants": [6, rng.choice([10, 16, 22])],
        "het_prob": rng.choice([0.6, 0.8, 1.0]),
        "kinds": rng.choice([["snv"], ["snv"], ["snv", "snv", "ins", "del"]]),
        "tag": rng.choice(["PS", "PS", "HP"]),
        "cap": rng.choice([1, 2, 2, 3, 4, 15]),
        "distrust": distrust,
        "include_hom": distrust and rng.random() < 0.4,
        "no_genetic": rng.random() < 0.35,
        "only_snvs": rng.random() < 0.15,
        "chrom_sel": rng.random() < 0.25,
        "sample_sel": rng.random() < 0.2,
        "read_list": rng.random() < 0.6,
        "ignore_rg": rng.random() < 0.08,
        # --merge-reads renames the reads and drops their sample id (`Read("read%d")`): it only works for the sample with
        # numeric id 0 (observation in notes/C03.md); it is outside the modelled path and only exercised for one sample
        # (F85, fixes/F85.patch; C03_MERGE_ALL=1 exercises it for every layout, e.g. against a patched clone)
        "merge_reads": (layout == "single" or bool(os.environ.get("C03_MERGE_ALL"))) and rng.random() < 0.15,
        "phased_vcf_input": rng.random() < 0.12,
        "dup_names": rng.random() < 0.08,
        "no_reference": rng.random() < 0.3,
        "decor": rng.random() < 0.6,
        "pre_phase": rng.choice(["none", "none", "PS", "HP"]),
        "missing_gt": rng.choice([0.0, 0.0, 0.06]),
        "noise": rng.choice([0, 0, 0.04]),
    }
    case = {"kind": "pipe", "gen_seed": rng.randrange(1 << 40), "params": p}
    if rephase:
        r3 = random.Random(case["gen_seed"] ^ 0x7E5EED)
        p["decor"] = True
        p["pre_phase"] = "none"
        p["kinds"] = r3.choice([["snv"], ["snv", "snv", "ins", "del"], ["snv", "ins", "del", "mnp"]])
        p["only_snvs"] = r3.random() < (0.5 if len(p["kinds"]) > 1 else 0.15)
        p["tag"] = r3.choice(["PS", "HP"])
        p["rephase"] = {"enc": r3.choice(["PS", "PS", "HP", "HP", "mixed"]),
                        "ids": r3.choice(["leftmost", "leftmost", "variant", "foreign", "mixed", "mixed"]),
                        "frac": r3.choice([1.0, 0.85, 0.6]),
                        "blocks": r3.choice([1, 1, 2, 3])}
    return case


def _prephase(rng, recs, contigs, samples, rp, keys, only_snvs):
    """The input already carries the phasing of an earlier run, on EVERY record kind (also the kinds the new run skips:
    multi-ALT, duplicate positions, no ALT, symbolic, non-SNVs under --only-snvs) and in either encoding (phased GT + PS,
    or HP on an unphased GT).  Per (contig, sample) the records form 1-3 contiguous old phase sets whose ids are
    `leftmost`: 1-based position of the block's first biallelic record (SNV under --only-snvs) (what an earlier whatshap run
    writes: equals the id of a NEW phase set whenever the new leftmost variant is the same), `variant`: 1-based position of some variant of the
    contig (earlier or later than the records carrying it), `foreign`: a number that is no variant position."""
    for k in ("PS", "HP"):
        if (rp["enc"] in (k, "mixed")) and k not in keys:
            keys.append(k)          # the list object is the `format` of every record
    for cc in contigs:
        idx = [i for i, r in enumerate(recs) if r["chrom"] == cc["contig"]]
        if not idx:
            continue
        vpos = sorted({v["pos"] + 1 for v in cc["variants"]})
        for si, s in enumerate(samples):
            nb = min(rp["blocks"], len(idx))
            cuts = sorted(rng.sample(range(1, len(idx)), nb - 1)) if nb > 1 else []
            bounds = [0] + cuts + [len(idx)]
            for b in range(len(bounds) - 1):
                members = idx[bounds[b]:bounds[b + 1]]
                mode = rp["ids"] if rp["ids"] != "mixed" else rng.choice(["leftmost", "variant", "foreign"])
                if mode == "leftmost":
                    first = [i for i in members if len(recs[i]["alts"]) == 1 and
                             (not only_snvs or len(recs[i]["ref"]) == len(recs[i]["alts"][0]) == 1)]
                    block = recs[(first or members)[0]]["pos"] + 1
                elif mode == "variant":
                    block = rng.choice(vpos)
                else:
                    block = rng.choice([x for x in (1, 7, vpos[0] + 1, vpos[-1] + 13, 100000 + vpos[0]) if x not in vpos])
                for i in members:
                    r = recs[i]
                    call = r["calls"][si]
                    if rng.random() >= rp["frac"]:
                        continue
                    na = len(r["alts"])
                    g = re.split(r"[/|]", call.get("GT", "./."))
                    if na == 0:
                        al = ["0", "0"]
                    elif na >= 2:
                        al = rng.choice([["1", "2"], ["0", "2"], ["2", "1"], ["0", "1"]])
                    elif "." in g or len(g) != 2:
                        continue
                    elif r.get("_decor"):
                        al = rng.choice([["0", "1"], ["1", "0"], ["0", "1"], ["1", "1"]])
                    else:
                        al = g if g[0] == g[1] or rng.random() < 0.5 else g[::-1]    # a variant of the run: genotype kept
                    enc = rp["enc"] if rp["enc"] != "mixed" else rng.choice(["PS", "HP"])
                    call.pop("PS", None); call.pop("HP", None)
                    if enc == "PS":
                        call["GT"] = "|".join(al); call["PS"] = str(block)
                    else:
                        order = rng.choice([(1, 2), (2, 1)])
                        call["GT"] = "/".join(sorted(al)); call["HP"] = ",".join(f"{block}-{h}" for h in order)
    for r in recs:
        r.pop("_decor", None)


def _layout_samples(layout):
    """(samples, trios as (father, mother, child), use_ped)"""
    if layout == "single":
        return ["S1"], [], False
    if layout == "multi":
        return ["S1", "S2", "S3"], [], False
    if layout == "trio":
        return ["F0", "M0", "C0"], [("F0", "M0", "C0")], True
    if layout == "trio+single":
        return ["S1", "F0", "M0", "C0"], [("F0", "M0", "C0")], True
    if layout == "quartet":
        return ["F0", "M0", "C0", "D0"], [("F0", "M0", "C0"), ("F0", "M0", "D0")], True
    if layout == "trio-noped":
        return ["F0", "M0", "C0"], [("F0", "M0", "C0")], False
    raise ValueError(layout)


def _contig_case(rng, name, samples, trios, p):
    L = rng.randrange(1800, 3600)
    seq = sim.random_seq(rng, L)
    nv = rng.randrange(p["n_variants"][0], p["n_variants"][1] + 1)
    vs = sim.make_variants(rng, name, seq, nv, kinds=p["kinds"], min_gap=40)
    children = {c: (f, m) for f, m, c in trios}
    haps = {}
    for s in samples:
        if s in children:
            continue
        h0, h1 = [], []
        for _ in vs:
            if rng.random() < p["het_prob"]:
                a = rng.randrange(2); b = 1 - a
            else:
                a = b = rng.randrange(2)
            h0.append(a); h1.append(b)
        haps[s] = [h0, h1]
    for c, (f, m) in children.items():
        haps[c] = [list(haps[f][rng.randrange(2)]), list(haps[m][rng.randrange(2)])]
    gt = {}
    for s in samples:
        g = []
        for i in range(len(vs)):
            a, b = sorted((haps[s][0][i], haps[s][1][i]))
            if p["distrust"] and rng.random() < 0.12:
                a, b = rng.choice([x for x in ((0, 0), (0, 1), (1, 1)) if x != (a, b)])
            g.append("./." if rng.random() < p["missing_gt"] else f"{a}/{b}")
        gt[s] = g
    return {"contig": name, "seq": seq, "variants": [{"pos": v.pos, "ref": v.ref, "alt": v.alt, "kind": v.kind} for v in vs],
            "samples": list(samples), "haps": haps, "gt": gt, "reads": []}


def _add_reads(rng, cc, s, style, noise):
    nvar = len(cc["variants"])
    if style == "none" or nvar < 2:
        return
    if style == "random":
        G.add_reads(rng, cc, s, depth=rng.choice([0.5, 1, 2]), read_len=(60, 200), noise=noise, tag=cc["contig"])
    elif style == "paired":
        G.add_reads(rng, cc, s, depth=rng.choice([0.6, 1.2]), read_len=(50, 140), paired_frac=0.8, insert=(80, 700), noise=noise,
                    tag=cc["contig"])
    elif style == "deep":
        G.add_reads(rng, cc, s, depth=rng.choice([6, 10, 16]), read_len=(60, 220), paired_frac=rng.choice([0.0, 0.4]), insert=(60, 500),
                    noise=noise, tag=cc["contig"])
    else:
        G.add_structured_reads(rng, cc, s, G.structure_blocks(rng, nvar, style), noise=noise, tag=cc["contig"])
        if rng.random() < 0.3:
            G.add_reads(rng, cc, s, depth=0.3, read_len=(60, 160), tag=cc["contig"] + "x")


def scenario(case):
    """the deterministic content of a case: contigs (each a c05_ped-style case dict), samples, trios, the VCF records,
    the command-line options"""
    p = case["params"]
    rng = random.Random(case["gen_seed"])
    samples, trios, use_ped = _layout_samples(p["layout"])
    contigs = []
    for ci in range(p["n_contigs"]):
        cc = _contig_case(rng, f"chr{ci + 1}", samples, trios, p)
        for s in samples:
            _add_reads(rng, cc, s, rng.choice(STYLES), p["noise"])
        contigs.append(cc)
    if p["dup_names"] and len(samples) > 1:
        # the same read name in two samples (two read groups of one BAM)
        for cc in contigs:
            by = {}
            for r in cc["reads"]:
                by.setdefault(r["sample"], []).append(r)
            ss = [s for s in samples if by.get(s)]
            if len(ss) >= 2:
                a, b = by[ss[0]][0], by[ss[1]][0]
                old = b["name"]
                for r in by[ss[1]]:
                    if r["name"] == old:
                        r["name"] = a["name"]
    # ---- VCF records
    recs = []
    rp = p.get("rephase")
    pre = p["pre_phase"]
    keys = ["GT"] + (["PS"] if (pre == "PS" or p["decor"]) else []) + (["HP"] if pre == "HP" else [])
    for cc in contigs:
        seq = cc["seq"]
        for i, v in enumerate(cc["variants"]):
            block = rng.choice([7, 1000])
            calls = []
            for s in samples:
                g = cc["gt"][s][i]
                call = {"GT": g}
                if g in ("0/1",) and pre == "PS" and rng.random() < 0.7:
                    call["GT"] = rng.choice(["0|1", "1|0"]); call["PS"] = str(block)
                elif g in ("0/1",) and pre == "HP" and rng.random() < 0.7:
                    call["HP"] = rng.choice([f"{block}-1,{block}-2", f"{block}-2,{block}-1"])
                calls.append(call)
            if p["decor"] and rng.random() < (0.25 if rp else 0.1):
                ref0 = v["ref"][0]
                alts0 = [x for x in "ACGT" if x != ref0][:2]
                recs.append(dict(chrom=cc["contig"], pos=v["pos"], ref=ref0, alts=alts0, format=keys,
                                 calls=[{"GT": rng.choice(["1/2", "0/1", "1|2", "./."]), "PS": rng.choice(["66", "."])} for _ in samples]))
            recs.append(dict(chrom=cc["contig"], pos=v["pos"], ref=v["ref"], alts=[v["alt"]], format=keys, calls=calls))
            if not p["decor"]:
                continue
            kind = rng.choice(["dup", "multi", "sym", "noalt", "none"] + ([] if rp else ["none", "none"]))
            q = v["pos"] + len(v["ref"]) + 3
            if kind == "dup":
                alt2 = rng.choice([x for x in "ACGT" if x != v["ref"][0] and x != v["alt"][0]])
                recs.append(dict(chrom=cc["contig"], pos=v["pos"], ref=v["ref"][0], alts=[alt2], format=keys,
                                 calls=[{"GT": rng.choice(["0|1", "1|0", "0/1", "1/1"]), "PS": "77"} for _ in samples]))
            elif q < len(seq) - 8:
                ref = seq[q]
                if kind == "multi":
                    recs.append(dict(chrom=cc["contig"], pos=q, ref=ref, alts=[x for x in "ACGT" if x != ref][:2], format=keys,
                                     calls=[{"GT": rng.choice(["1|2", "0|2", "1/2", "0/1", "./."]), "PS": "88"} for _ in samples]))
                elif kind == "sym":
                    recs.append(dict(chrom=cc["contig"], pos=q, ref=ref, alts=["<DEL>"], format=keys, info=f"END={q + 5};SVTYPE=DEL",
                                     calls=[{"GT": rng.choice(["0/1", "0|1", "1/1"]), "PS": "99"} for _ in samples]))
                elif kind == "noalt":
                    recs.append(dict(chrom=cc["contig"], pos=q, ref=ref, alts=[], format=keys,
                                     calls=[{"GT": rng.choice(["0/0", "0|0", "./."]), "PS": "."} for _ in samples]))
    if rp:
        main = {(cc["contig"], v["pos"], v["ref"], v["alt"]) for cc in contigs for v in cc["variants"]}
        for r in recs:
            if len(r["alts"]) != 1 or (r["chrom"], r["pos"], r["ref"], r["alts"][0]) not in main:
                r["_decor"] = True
        _prephase(random.Random(case["gen_seed"] ^ 0x9E0), recs, contigs, samples, rp, keys, p["only_snvs"])
    # ---- options
    r2 = random.Random(case["gen_seed"] ^ 0xC03)
    names = [cc["contig"] for cc in contigs]
    sel_c = sorted(r2.sample(names, r2.randrange(1, len(names) + 1))) if (p["chrom_sel"] and len(names) > 1) else None
    sel_s = None
    if p["ignore_rg"]:
        sel_s = [r2.choice(samples)]
    elif p["sample_sel"] and len(samples) > 1 and not use_ped:
        sel_s = sorted(r2.sample(samples, r2.randrange(1, len(samples))))
    return {"samples": samples, "trios": trios, "use_ped": use_ped and not p["ignore_rg"], "contigs": contigs, "records": recs,
            "keys": keys, "sel_c": sel_c, "sel_s": sel_s}


FMT_DEFS = {
    "PS": '##FORMAT=<ID=PS,Number=1,Type=Integer,Description="Phase set identifier">',
    "HP": '##FORMAT=<ID=HP,Number=.,Type=String,Description="Phasing haplotype identifier">',
}
INFO_DEFS = {
    "END": '##INFO=<ID=END,Number=1,Type=Integer,Description="End position">',
    "SVTYPE": '##INFO=<ID=SVTYPE,Number=1,Type=String,Description="SV type">',
}


def build(case, d):
    """writes the input files; returns (scenario, paths, args) — args without `phase -o OUT`"""
    p = case["params"]
    sc = scenario(case)
    os.makedirs(d, exist_ok=True)
    contigs = {cc["contig"]: cc["seq"] for cc in sc["contigs"]}
    fa, bam, vcf = (os.path.join(d, "in" + e) for e in (".fasta", ".bam", ".vcf"))
    sim.write_fasta(fa, contigs)
    reads = []
    for cc in sc["contigs"]:
        for r in cc["reads"]:
            reads.append({"name": r["name"], "chrom": cc["contig"], "start": r["start"], "cigar": [tuple(c) for c in r["cigar"]],
                          "seq": r["seq"], "rg": "rg_" + r["sample"], "flag": r.get("flag", 0), "mapq": r.get("mapq", 60)})
    if not reads:
        cc = sc["contigs"][0]
        reads.append({"name": "decoy", "chrom": cc["contig"], "start": 2, "cigar": [(0, 23)], "seq": cc["seq"][2:25],
                      "rg": "rg_" + sc["samples"][0], "flag": 0, "mapq": 60})
    sim.write_bam(bam, contigs, reads, [("rg_" + s, s) for s in sc["samples"]])
    fmt_defs = {k: FMT_DEFS[k] for k in sc["keys"] if k in FMT_DEFS}
    info_defs = INFO_DEFS if any(r["alts"] == ["<DEL>"] for r in sc["records"]) else {}
    sim.write_vcf(vcf, contigs, sc["samples"], sc["records"], fmt_defs=fmt_defs, info_defs=info_defs)
    paths = {"fasta": fa, "bam": bam, "vcf": vcf}
    args = ["--tag", p["tag"], "--internal-downsampling", str(p["cap"])]
    if p["no_reference"]:
        args.append("--no-reference")
    else:
        args += ["--reference", fa]
    if sc["use_ped"]:
        ped = os.path.join(d, "in.ped")
        with open(ped, "w") as f:
            for i, (fa_, mo, ch) in enumerate(sc["trios"]):
                f.write(f"fam{i}\t{ch}\t{fa_}\t{mo}\t0\t1\n")
        paths["ped"] = ped
        args += ["--ped", ped]
        if p["no_genetic"]:
            args.append("--no-genetic-haplotyping")
    if p["distrust"]:
        args.append("--distrust-genotypes")
        if p["include_hom"]:
            args.append("--include-homozygous")
    if p["only_snvs"]:
        args.append("--only-snvs")
    if p["ignore_rg"]:
        args.append("--ignore-read-groups")
    if p["merge_reads"]:
        args.append("--merge-reads")
    for s in sc["sel_s"] or []:
        args += ["--sample", s]
    for c in sc["sel_c"] or []:
        args += ["--chromosome", c]
    if p["read_list"]:
        paths["read_list"] = os.path.join(d, "reads.tsv")
        args += ["--output-read-list", paths["read_list"]]
    extra_inputs = []
    if p["phased_vcf_input"]:
        # a second phase input: the truth of the first sample as PS-phased blocks (pseudo reads with their own source id)
        pv = os.path.join(d, "phased.vcf")
        s0 = (sc["sel_s"] or sc["samples"])[0]
        precs = []
        for cc in sc["contigs"]:
            nv = len(cc["variants"])
            cut = nv // 2
            for i, v in enumerate(cc["variants"]):
                calls = []
                for s in sc["samples"]:
                    a, b = cc["haps"][s][0][i], cc["haps"][s][1][i]
                    if s == s0 and a != b:
                        calls.append({"GT": f"{a}|{b}", "PS": str(cc["variants"][0 if i < cut else cut]["pos"] + 1)})
                    else:
                        x, y = sorted((a, b))
                        calls.append({"GT": f"{x}/{y}"})
                precs.append(dict(chrom=cc["contig"], pos=v["pos"], ref=v["ref"], alts=[v["alt"]], format=["GT", "PS"], calls=calls))
        sim.write_vcf(pv, contigs, sc["samples"], precs, fmt_defs={"PS": FMT_DEFS["PS"]})
        extra_inputs.append(pv)
    return sc, paths, args, extra_inputs

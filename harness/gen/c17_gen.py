"""Generator for C17: diploid ground truth (SNVs, some of them multi-allelic: two ALT alleles, allele ids 0..2), error-free
reads, and a history description (phase | custom phased VCF) -> haplotag -> (unphase | partial unphase | nothing | forms:
already phased calls in every encoding the reader accepts, see gen_forms) -> haplotagphase.  A variant is {"pos", "ref", "alt"} (biallelic) or additionally "alts": [alt1, alt2] (then "alt" = alt1)."""
import os

import pysam

from . import sim
from .c10_gen import make_alignment, PS_FMT, HP_FMT, FLAG_PAIRED, FLAG_PROPER, FLAG_REV, FLAG_MREV, FLAG_R1, FLAG_R2, FLAG_DUP, FLAG_SEC, FLAG_SUPP


def alts_of(v):
    return v.get("alts") or [v["alt"]]


def make_alignment_multi(seq, vs, alleles, st, en):
    """make_alignment for allele ids >= 2: the read is built against a biallelic view of every variant whose ALT is
    the allele the haplotype carries; the truth records the real allele ids"""
    view = [{"pos": v["pos"], "ref": v["ref"], "alt": alts_of(v)[max(a, 1) - 1]} for v, a in zip(vs, alleles)]
    m = make_alignment(seq, view, [1 if a > 0 else 0 for a in alleles], st, en)
    if m is None:
        return None
    return m[0], m[1], m[2], [[i, alleles[i]] for i, _ in m[3]]


def gen_case(rng, size=1.0):
    n_contigs = rng.choice([1, 1, 2])
    multi = rng.random() < 0.5          # some multi-allelic sites (only haplotagphase reads them: --mav is its default)
    samples = ["S1"] if rng.random() < 0.7 else ["S1", "S2"]
    contigs, variants, haps = {}, {}, {s: {} for s in samples}
    for ci in range(n_contigs):
        name = f"chr{ci + 1}"
        L = int(rng.randrange(800, 2200) * min(size, 3))
        seq = sim.random_seq(rng, L)
        contigs[name] = seq
        vs = sim.make_variants(rng, name, seq, rng.randrange(5, 26), kinds=("snv",), min_gap=rng.choice([20, 30, 45]))
        variants[name] = [{"pos": v.pos, "ref": v.ref, "alt": v.alt} for v in vs]
        if multi:
            for v in variants[name]:
                if rng.random() < 0.3:
                    v["alts"] = [v["alt"], rng.choice([b for b in "ACGT" if b not in (v["ref"], v["alt"])])]
        for s in samples:
            h0, h1 = [], []
            for v in variants[name]:
                if "alts" in v:
                    # every heterozygous combination of the three alleles in both orientations, rarely homozygous
                    if rng.random() < 0.9:
                        a, b = rng.sample(range(3), 2)
                    else:
                        a = b = rng.randrange(3)
                    h0.append(a); h1.append(b)
                elif rng.random() < 0.8:
                    a = rng.randrange(2); h0.append(a); h1.append(1 - a)
                else:
                    a = rng.randrange(2); h0.append(a); h1.append(a)
            haps[s][name] = [h0, h1]
    extra = gen_extra(rng, samples, contigs, variants) if rng.random() < 0.5 else {}
    # unbalanced coverage between the haplotypes (3:1 … 4:0): a mis-typed allele then flips the consensus instead of
    # merely leaving the variant unphased
    hap_bias = {s: (rng.choice([0.0, 0.1, 0.25, 0.75, 0.9, 1.0]) if rng.random() < 0.5 else 0.5) for s in samples}
    read_groups = [[f"rg_{s}", s] for s in samples]
    alns = []
    rid = 0
    gaps = {}
    for name, seq in contigs.items():
        L = len(seq)
        # regions no read may touch: they separate phase sets
        gaps[name] = []
        for _ in range(rng.choice([0, 1, 1, 2])):
            a = rng.randrange(50, L - 50)
            gaps[name].append([a, a + rng.randrange(5, 40)])
    for rg, s in read_groups:
        for name, seq in contigs.items():
            L = len(seq)
            vs = variants[name]
            mk_aln = make_alignment_multi if multi else make_alignment
            depth = rng.uniform(3, 9) * min(size, 2)
            n_reads = max(2, int(depth * L / 250))
            for _ in range(n_reads):
                rid += 1
                h = 0 if rng.random() < hap_bias[s] else 1
                alleles = list(haps[s][name][h])
                rl = rng.randrange(90, 420)
                st = rng.randrange(0, max(1, L - rl))

                def mk(st, rl, flag, mapq=60):
                    en = min(L, st + rl)
                    for a, b in gaps[name]:
                        if st < b and en > a:          # cut the read at the gap
                            if a - st >= en - b:
                                en = a
                            else:
                                st = b
                    if en - st < 40:
                        return None
                    m = mk_aln(seq, vs, alleles, st, en)
                    if m is None:
                        return None
                    return {"name": f"r{rid}_{s}", "chrom": name, "start": m[0], "cigar": m[1], "seq": m[2], "flag": flag, "mapq": mapq,
                            "rg": rg, "qual": 30, "truth": m[3], "tags": [], "sample": s, "hap": h}
                mapq = 60 if rng.random() < 0.9 else rng.randrange(0, 20)
                flag = FLAG_DUP if rng.random() < 0.05 else 0
                if rng.random() < 0.15:
                    rev = rng.random() < 0.5
                    f1 = flag | FLAG_PAIRED | FLAG_PROPER | FLAG_R1 | (FLAG_REV if rev else FLAG_MREV)
                    f2 = flag | FLAG_PAIRED | FLAG_PROPER | FLAG_R2 | (FLAG_MREV if rev else FLAG_REV)
                    a1 = mk(st, rl, f1, mapq)
                    a2 = mk(min(L - 60, st + rng.randrange(20, rl + 100)), rng.randrange(90, 300), f2, mapq)
                    if a1 and a2:
                        a1["mate"] = {"chrom": name, "start": a2["start"]}; a2["mate"] = {"chrom": name, "start": a1["start"]}
                        alns += [a1, a2]
                    elif a1 or a2:
                        a = a1 or a2; a["flag"] = flag; alns.append(a)
                else:
                    a = mk(st, rl, flag | (FLAG_REV if rng.random() < 0.5 else 0), mapq)
                    if a:
                        alns.append(a)
                        if rng.random() < 0.06:
                            b = mk(rng.randrange(0, max(1, L - 100)), 100, FLAG_SEC if rng.random() < 0.5 else FLAG_SUPP)
                            if b:
                                alns.append(b)
    bx_cutoff = None
    if rng.random() < 0.3:
        # linked reads: barcodes are shared by molecules of DIFFERENT haplotypes that lie further apart than the
        # linked-read distance cutoff (windows of 4*cutoff, only reads starting in the first quarter carry a barcode),
        # so read clouds must respect the cutoff in both directions
        bx_cutoff = rng.choice([80, 120, 200])
        W = 4 * bx_cutoff
        bx_of = {}
        for a in alns:
            if a["name"] not in bx_of:
                w, off = divmod(a["start"], W)
                bx_of[a["name"]] = f"{a['sample']}_b{(w + a['hap']) % 2}" if off < bx_cutoff else None
            if bx_of[a["name"]] is not None:
                a["tags"].append(["BX", bx_of[a["name"]]])
    # `whatshap phase` does not read multi-allelic records: only a generator-written V phases them
    source = "phase" if rng.random() < (0.25 if multi else 0.6) else "custom"
    unphase = rng.choice(["cli", "cli", "cli", "partial", "partial", "none", "forms", "forms", "forms"])
    hist = {"source": source, "unphase": unphase, "foreign": unphase == "partial" and rng.random() < 0.4,
            "keep": {s: {c: [rng.random() < 0.35 for _ in variants[c]] for c in contigs} for s in samples}}
    if unphase == "forms":
        hist.update(gen_forms(rng, samples, contigs, variants))
    if multi and rng.random() < 0.2:
        hist["no_mav"] = True          # haplotagphase --no-mav: multi-allelic records are neither read nor written
    if source == "custom":
        # true haplotypes; blocks end at the gaps (and sometimes elsewhere: then reads overlap two phase sets);
        # arbitrary phase set ids, arbitrary orientation per block
        blocks = {}
        for s in samples:
            blocks[s] = {}
            for c in contigs:
                used, cur, out = set(), None, []
                prev_pos = None
                for i, v in enumerate(variants[c]):
                    h0, h1 = haps[s][c][0][i], haps[s][c][1][i]
                    if h0 == h1 or rng.random() < 0.08:
                        out.append(None); continue
                    crossed = prev_pos is not None and any(prev_pos < a and b <= v["pos"] + 1 for a, b in gaps[c])
                    if cur is None or crossed or rng.random() < 0.06:
                        ps = rng.choice([v["pos"] + 1, v["pos"] + 1, rng.randrange(1, 5000)])
                        while ps in used:
                            ps += 1
                        used.add(ps)
                        cur = {"ps": ps, "flip": rng.random() < 0.5}
                    prev_pos = v["pos"]
                    out.append(dict(cur))
                blocks[s][c] = out
        hist["blocks"] = blocks
    dups = {}
    if rng.random() < 0.35:
        for c in contigs:
            dups[c] = sorted(i for i in range(len(variants[c])) if rng.random() < 0.2 and "alts" not in variants[c][i])
    return {"kind": "c17", "dups": dups, "contigs": contigs, "variants": variants, "samples": samples, "haps": haps, "alns": alns,
            "read_groups": read_groups, "history": hist, "gaps": gaps, "bx_cutoff": bx_cutoff, "extra": extra, "hap_bias": hap_bias}


SPECIAL_ALTS = ("<DEL>", "<DEL>", "<INS>", "<DUP>", "<INV>", "<*>", "<NON_REF>", None)


def gen_extra(rng, samples, contigs, variants):
    """records the readers skip or treat specially, written into EVERY VCF of the history next to the variants (they are
    not variants of the case: no read shows them): symbolic ALT alleles (kept in the variant table, never typed in a read)
    and records without ALT (skipped by the reader), before / between / after the variants, with calls 1/1, 0/0, 0/1, ./.
    {chrom: [{"pos", "ref", "alts", "gt": {sample: GT text}}]}"""
    extra = {}
    for c, seq in contigs.items():
        taken = sorted(v["pos"] for v in variants[c])
        out = []
        for _ in range(rng.choice([1, 1, 2, 3, 4])):
            where = rng.choice(["before", "between", "between", "after", "any"])
            cand = [p for p in range(1, len(seq) - 1) if all(abs(p - q) >= 3 for q in taken)]
            if taken and where == "before":
                cand = [p for p in cand if p < taken[0]] or cand
            elif taken and where == "after":
                cand = [p for p in cand if p > taken[-1]] or cand
            elif taken and where == "between":
                cand = [p for p in cand if taken[0] < p < taken[-1]] or cand
            if not cand:
                continue
            # half of them right in front of a variant (3..8 bases): the next record of the file is a variant
            nxt = [p for p in cand if any(3 <= q - p <= 8 for q in taken)]
            p = rng.choice(nxt if nxt and rng.random() < 0.5 else cand)
            alt = rng.choice(SPECIAL_ALTS)
            gts = ["0/0", "./."] if alt is None else ["1/1", "1/1", "0/0", "0/1", "./."]
            out.append({"pos": p, "ref": seq[p], "alts": [alt] if alt else [], "gt": {s: rng.choice(gts) for s in samples}})
            taken = sorted(taken + [p])
        extra[c] = sorted(out, key=lambda e: e["pos"])
    return extra


GT_FORMS = ("ps", "nokey", "dot", "zero")


def gen_forms(rng, samples, contigs, variants):
    """Input of haplotagphase in which some calls are already phased, in every encoding VcfReader accepts:
      ps     phased GT + PS value            0|1:17
      nokey  phased GT, record without PS    0|1          (Beagle, SHAPEIT, ...: VcfReader gives it block id 0)
      dot    phased GT, PS missing           0|1:.        (a merge with such a panel: block id None)
      zero   phased GT, PS 0                 0|1:0
      hp     unphased GT + HP                0/1:17-1,17-2   (whole file: VcfReader rejects HP next to phased GTs)
    per call an order that agrees or disagrees with the VCF that tagged the reads (= what the tagged reads vote) and the
    phase set of that VCF or a foreign one.  'pskey'[c][i]: the record's FORMAT has PS (GT encodings only); a record
    without PS cannot hold a call with a PS value, so the forms of one record are drawn compatibly."""
    hp = rng.random() < 0.2
    style = "hp" if hp else rng.choice(["mixed", "mixed", "nokey", "dot", "zero", "ps"])
    dens = rng.choice([0.15, 0.4, 0.8])
    forms = {s: {c: [None] * len(variants[c]) for c in contigs} for s in samples}
    pskey = {c: [] for c in contigs}
    for c in contigs:
        for i in range(len(variants[c])):
            if style == "hp":
                key = False
            elif style == "mixed":
                key = rng.random() < 0.6
            else:
                key = style != "nokey"
            pskey[c].append(key)
            for s in samples:
                if rng.random() >= dens:
                    continue
                if style == "hp":
                    enc = "hp"
                elif not key:
                    enc = "nokey"
                elif style == "mixed":
                    enc = rng.choice(["ps", "dot", "zero"])
                else:
                    enc = style
                forms[s][c][i] = {"enc": enc, "agree": rng.random() < 0.5, "set": rng.choice(["same", "foreign"]),
                                  "fps": rng.choice([5, rng.randrange(1, 5000)])}
    out = {"forms": forms, "pskey": pskey, "u_enc": "hp" if hp else "gt"}
    # (`whatshap haplotagphase` has no --tag option: what it phases is always written as phased GT + PS)
    if style == "nokey" and rng.random() < 0.5:
        out["no_ps_header"] = True  # a file that does not even define PS
    return out


def form_call(case, s, c, i, V):
    """the call of sample s at variant i in the 'forms' input; V = {(s, c, pos): (phased, alleles, ps)} of the VCF that
    tagged the reads"""
    hist = case["history"]
    f = hist["forms"][s][c][i]
    pos = case["variants"][c][i]["pos"]
    ph, al, ps = V[(s, c, pos)]
    h0, h1 = case["haps"][s][c][0][i], case["haps"][s][c][1][i]
    hp_file = hist["u_enc"] == "hp"
    if f is None or h0 == h1:
        a, b = sorted((h0, h1))
        return {"GT": f"{a}/{b}", "PS": ".", "HP": "."}
    o0, o1 = (al if ph else (h0, h1))
    if not f["agree"]:
        o0, o1 = o1, o0
    pset = ps if (ph and ps is not None and f["set"] == "same") else f["fps"]
    if f["enc"] == "hp":
        x, y = sorted((o0, o1))
        return {"GT": f"{x}/{y}", "HP": f"{pset}-1,{pset}-2" if o0 == x else f"{pset}-2,{pset}-1"}
    return {"GT": f"{o0}|{o1}", "PS": {"ps": str(pset), "dot": ".", "zero": "0", "nokey": "."}[f["enc"]]}


def write_vcf(case, path, calls, forms=False):
    """calls(sample, chrom, i) -> {'GT':..., 'PS':...}; forms: the FORMAT of every record and the header follow
    history['pskey'] / ['u_enc'] / ['no_ps_header'] (input of haplotagphase with already phased calls)"""
    recs = []
    hist = case["history"]
    for c in case["contigs"]:
        for i, v in enumerate(case["variants"][c]):
            fmt = ["GT", "PS"]
            if forms:
                fmt = ["GT", "HP"] if hist["u_enc"] == "hp" else (["GT", "PS"] if hist["pskey"][c][i] else ["GT"])
            recs.append({"chrom": c, "pos": v["pos"], "ref": v["ref"], "alts": alts_of(v), "format": fmt,
                         "calls": [calls(s, c, i) for s in case["samples"]]})
            if i in case.get("dups", {}).get(c, []):
                # second record at the same position, other ALT (a split multi-allelic site): the first record's call with
                # the haplotypes exchanged, as `bcftools norm -m-` writes a 1|2 site
                alt2 = next(b for b in "ACGT" if b not in [v["ref"]] + alts_of(v))
                dc = []
                for s in case["samples"]:
                    k = dict(calls(s, c, i))
                    sep = "|" if "|" in k["GT"] else "/"
                    a, b = k["GT"].split(sep)
                    k["GT"] = f"{b}{sep}{a}" if sep == "|" else k["GT"]
                    dc.append(k)
                recs.append({"chrom": c, "pos": v["pos"], "ref": v["ref"], "alts": [alt2], "format": fmt, "calls": dc})
    for c in case["contigs"]:
        for e in (case.get("extra") or {}).get(c, []):
            recs.append({"chrom": c, "pos": e["pos"], "ref": e["ref"], "alts": e["alts"], "format": ["GT"],
                         "calls": [{"GT": e["gt"][s]} for s in case["samples"]]})
    order = list(case["contigs"])
    recs.sort(key=lambda r: (order.index(r["chrom"]), r["pos"]))       # stable: a second record stays behind the first
    defs = {"PS": PS_FMT}
    if forms and hist["u_enc"] == "hp":
        defs = {"PS": PS_FMT, "HP": HP_FMT}
    elif forms and hist.get("no_ps_header"):
        defs = {}
    # a VCF with symbolic alleles declares INFO/END (pysam cannot write such a record otherwise: `unphase` would fail)
    info = {"END": '##INFO=<ID=END,Number=1,Type=Integer,Description="End position of the variant">'} if case.get("extra") else None
    sim.write_vcf(path, case["contigs"], case["samples"], recs, fmt_defs=defs, info_defs=info)


def unphased_call(case, s, c, i):
    h0, h1 = case["haps"][s][c][0][i], case["haps"][s][c][1][i]
    a, b = sorted((h0, h1))
    return {"GT": f"{a}/{b}", "PS": "."}


def custom_call(case, s, c, i):
    blk = case["history"]["blocks"][s][c][i]
    if blk is None:
        return unphased_call(case, s, c, i)
    h0, h1 = case["haps"][s][c][0][i], case["haps"][s][c][1][i]
    if blk["flip"]:
        h0, h1 = h1, h0
    return {"GT": f"{h0}|{h1}", "PS": str(blk["ps"])}


def materialize(case, d):
    os.makedirs(d, exist_ok=True)
    fa = os.path.join(d, "ref.fasta")
    sim.write_fasta(fa, case["contigs"])
    vcf = os.path.join(d, "in.vcf")
    write_vcf(case, vcf, lambda s, c, i: unphased_call(case, s, c, i))
    bam = os.path.join(d, "in.bam")
    reads = []
    for a in case["alns"]:
        r = {k: a[k] for k in ("name", "chrom", "seq", "flag", "start", "mapq") if k in a}
        r["cigar"] = [tuple(x) for x in a["cigar"]]
        r["rg"] = a["rg"]; r["qual"] = a.get("qual", 30); r["tags"] = [tuple(t) for t in a.get("tags", [])]
        if "mate" in a:
            r["mate"] = a["mate"]
        reads.append(r)
    sim.write_bam(bam, case["contigs"], reads, [tuple(x) for x in case["read_groups"]])
    return fa, vcf, bam


def bgzip_index(path):
    pysam.tabix_compress(path, path + ".gz", force=True)
    pysam.tabix_index(path + ".gz", preset="vcf", force=True)
    return path + ".gz"

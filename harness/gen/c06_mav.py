"""C06 generators: MULTI-ALLELIC records in the ground-truth streams.

A site (one VCF record) has a REF span and 1..4 ALT alleles; every ALT is one *simple* change relative to REF, written
in the VCF with the record's common REF:

    snv   ALT = x + REF[1:]            (x != REF[0])
    mnp   ALT = same length as REF, first and last base differ
    ins   ALT = REF[0] + INS + REF[1:] (INS not ending in the anchor base = left-aligned; unshiftable: INS[0] != next base)
    del   ALT = REF[0] + REF[1+k:]     (the k bases directly after the anchor deleted; left-aligned, unshiftable)

so every allele, normalised on its own, sits at the record's position, and the canonical alignment of a haplotype carrying
it is  anchor-M, INS-I / k-D, rest-M  (exactly what `c06_gen.columns` lays out for bi-allelic variants).  Families of sites:

    multi-snv     REF=A ALT=C,G[,T]
    nested-ins    one ALT's inserted bases are a proper PREFIX of another's (REF=A ALT=ACC,AC and ALT=AC,ACC, chains of three,
                  every listing order)
    ins-ins       unrelated / suffix-related / equal-length insertions at one anchor
    nested-del    REF=ATTG ALT=A,AG (delete all / delete the first k), both orders, chains
    snv-ins, snv-del, ins-del, mnp-del, mixed   several kinds at one site
    bi            ordinary bi-allelic record (from c06_gen.make_hvar), so that multi-allelic and bi-allelic records are neighbours

A haplotype carries any allele 0..n of every site; a read is a contiguous column range of one haplotype (c06_gen.make_read:
clips, N skips, =/X).  Ground truth per (read, listed site): overlap, full, isolated, allele (0..n).
"""
from . import sim
from . import c06_gen as G

OVERHANG = G.OVERHANG


class MSite:
    """alts: list of [seq, type, n] (n = inserted / deleted bases, 0 for snv/mnp)"""
    __slots__ = ("pos", "ref", "alts", "family", "listed")

    def __init__(self, pos, ref, alts, family, listed=True):
        self.pos, self.ref, self.alts, self.family, self.listed = pos, ref, [list(a) for a in alts], family, listed

    def as_list(self):
        return [self.pos, self.ref, self.alts, self.family, self.listed]

    @staticmethod
    def from_list(l):
        return MSite(*l)

    def alt_seqs(self):
        return [a[0] for a in self.alts]

    def kind_of(self, allele):
        return "ref" if allele == 0 else self.alts[allele - 1][1]

    def __repr__(self):
        return f"{self.pos}:{self.ref}>{','.join(self.alt_seqs())}{'' if self.listed else '*'}"


def _ins_ok(ins, anchor, nxt):
    return bool(ins) and ins[-1] != anchor and ins[0] != nxt


def _rand_ins(rng, L, anchor, nxt, alphabet):
    for _ in range(20):
        x = "".join(rng.choice(alphabet) for _ in range(L))
        if _ins_ok(x, anchor, nxt):
            return x
    return None


def _del_ok(ref, k, after):
    """deleting ref[1:1+k]: left-aligned (last deleted base != anchor) and unshiftable (first deleted base != base behind)"""
    d = ref[1:1 + k]
    behind = ref[1 + k] if 1 + k < len(ref) else after
    return d[-1] != ref[0] and d[0] != behind


def make_site(rng, refseq, pos, family, alphabet):
    n = len(refseq)
    if pos < 2 or pos >= n - 14:
        return None
    anchor, nxt = refseq[pos], refseq[pos + 1]
    other = [b for b in alphabet if b != anchor]
    if family == "multi-snv":
        if len(other) < 2:
            return None
        k = rng.randrange(2, len(other) + 1)
        return MSite(pos, anchor, [[b, "snv", 0] for b in rng.sample(other, k)], family)
    if family == "nested-ins":
        L = rng.choice([2, 2, 3, 4, 6])
        x = _rand_ins(rng, L, anchor, nxt, alphabet)
        if x is None:
            return None
        ks = [k for k in range(1, L) if x[k - 1] != anchor]
        if not ks:
            return None
        pre = rng.sample(ks, min(len(ks), rng.choice([1, 1, 1, 2])))
        inss = [x] + [x[:k] for k in pre]
        rng.shuffle(inss)           # every listing order: the longer one first or last
        return MSite(pos, anchor, [[anchor + i, "ins", len(i)] for i in inss], family)
    if family == "ins-ins":
        inss = []
        L = rng.choice([1, 2, 3, 4])
        x = _rand_ins(rng, L, anchor, nxt, alphabet)
        if x is None:
            return None
        inss.append(x)
        r = rng.random()
        if r < 0.35:        # same length, different bases
            y = _rand_ins(rng, L, anchor, nxt, alphabet)
        elif r < 0.7:       # x is a proper SUFFIX of y
            z = _rand_ins(rng, rng.choice([1, 2]), anchor, nxt, alphabet)
            y = (z + x) if z else None
        else:
            y = _rand_ins(rng, rng.choice([1, 2, 5]), anchor, nxt, alphabet)
        if y is None or y == x or not _ins_ok(y, anchor, nxt):
            return None
        inss.append(y)
        rng.shuffle(inss)
        return MSite(pos, anchor, [[anchor + i, "ins", len(i)] for i in inss], family)
    # families with a REF span longer than one base
    L = rng.choice([2, 2, 3, 4, 6])
    ref = refseq[pos:pos + 1 + L]
    after = refseq[pos + 1 + L]
    tail = ref[1:]

    def dele(k):
        return [anchor + ref[1 + k:], "del", k] if _del_ok(ref, k, after) else None

    def snv():
        return [rng.choice(other) + tail, "snv", 0] if other else None

    def ins():
        x = _rand_ins(rng, rng.choice([1, 2, 3]), anchor, nxt, alphabet)
        return [anchor + x + tail, "ins", len(x)] if x else None

    def mnp():
        last = [b for b in alphabet if b != ref[-1]]
        if not other or not last:
            return None
        return [rng.choice(other) + "".join(rng.choice(alphabet) for _ in range(L - 1)) + rng.choice(last), "mnp", 0]

    if family == "nested-del":
        ks = [k for k in range(1, L + 1) if _del_ok(ref, k, after)]
        if L not in ks or len(ks) < 2:
            return None
        pick = [L] + rng.sample([k for k in ks if k != L], min(len(ks) - 1, rng.choice([1, 1, 2])))
        rng.shuffle(pick)
        return MSite(pos, ref, [dele(k) for k in pick], family)
    recipes = {"snv-ins": (snv, ins), "snv-del": (snv, lambda: dele(L)), "ins-del": (ins, lambda: dele(L)),
               "mnp-del": (mnp, lambda: dele(L)), "mixed": (snv, ins, lambda: dele(L), mnp)}
    if family in ("snv-ins",) and rng.random() < 0.6:
        # the plain one-base form REF=A ALT=C,ACC
        ref, tail, L = anchor, "", 0
    alts = [f() for f in recipes[family]]
    if family == "mixed":
        alts = [a for a in alts if a is not None]
        rng.shuffle(alts)
        alts = alts[:rng.choice([2, 3, 3, 4])]
        if len(alts) < 2:
            return None
    if any(a is None for a in alts) or len({a[0] for a in alts}) < len(alts) or any(a[0] == ref for a in alts):
        return None
    alts = list(alts)
    rng.shuffle(alts)
    return MSite(pos, ref, alts, family)


MULTI = ("multi-snv", "nested-ins", "nested-ins", "ins-ins", "nested-del", "nested-del", "snv-ins", "snv-del", "ins-del", "mnp-del", "mixed")


def bi_site(rng, refseq, pos, alphabet, allow_shiftable=False):
    v = G.make_hvar(rng, refseq, pos, rng.choice(["snv", "mnp", "ins", "del"]), alphabet, allow_shiftable)
    if v is None or v.shiftable:
        return None
    n = {"snv": 0, "mnp": 0, "ins": len(v.alt) - 1, "del": len(v.ref) - 1}[v.kind]
    return MSite(v.pos, v.ref, [[v.alt, v.kind, n]], "bi")


def place_sites(rng, refseq, n, gap, alphabet, p_multi, margin=12):
    out, pos, tries = [], margin + rng.randrange(0, 6), 0
    while len(out) < n and pos < len(refseq) - margin - 8 and tries < 80 * n + 100:
        tries += 1
        if rng.random() < p_multi:
            s = make_site(rng, refseq, pos, rng.choice(MULTI), alphabet)
        else:
            s = bi_site(rng, refseq, pos, alphabet)
        if s is None:
            pos += 1
            continue
        out.append(s)
        pos = s.pos + len(s.ref) + gap()
    return out


def twin_sites(rng, refseq, n, alphabet, margin=12):
    """two multi-allelic insertion sites 1-3 bp apart with alike inserted sequences (the F11 constellation, multi-allelic)"""
    out, pos, tries = [], margin + rng.randrange(0, 6), 0
    while len(out) < 2 * n and pos < len(refseq) - margin - 20 and tries < 80 * n + 100:
        tries += 1
        g = rng.choice([1, 2, 2, 3])
        s1 = make_site(rng, refseq, pos, rng.choice(["nested-ins", "ins-ins", "snv-ins"]), alphabet)
        if s1 is None or len(s1.ref) > g:
            pos += 1
            continue
        a2, n2 = refseq[pos + g], refseq[pos + g + 1]
        alts2 = []
        for seq, typ, k in s1.alts:
            if typ != "ins":
                continue
            y = list(seq[1:1 + k])
            if len(y) > 1 and rng.random() < 0.5:
                y[rng.randrange(len(y))] = rng.choice(alphabet)
            y = "".join(y)
            if _ins_ok(y, a2, n2) and a2 + y not in [a[0] for a in alts2]:
                alts2.append([a2 + y, "ins", len(y)])
        if not alts2:
            pos += 1
            continue
        out += [s1, MSite(pos + g, a2, alts2, "twin")]
        pos += g + 1 + 26 + rng.randrange(0, 20)
    return out


def columns(refseq, sites, alleles):
    """as c06_gen.columns, for allele indices 0..n"""
    cols, spans, p = [], [], 0
    for i, s in enumerate(sites):
        assert s.pos >= p, (s, p)
        for q in range(p, s.pos):
            cols.append(("M", q, refseq[q], -1))
        c0 = len(cols)
        a = alleles[i]
        if a == 0:
            for k in range(len(s.ref)):
                cols.append(("M", s.pos + k, s.ref[k], i))
        else:
            seq, typ, n = s.alts[a - 1]
            if typ in ("snv", "mnp"):
                assert len(seq) == len(s.ref)
                for k in range(len(s.ref)):
                    cols.append(("M", s.pos + k, seq[k], i))
            elif typ == "ins":
                assert seq == s.ref[0] + seq[1:1 + n] + s.ref[1:]
                cols.append(("M", s.pos, seq[0], i))
                for b in seq[1:1 + n]:
                    cols.append(("I", s.pos, b, i))
                for k in range(1, len(s.ref)):
                    cols.append(("M", s.pos + k, s.ref[k], i))
            else:
                assert seq == s.ref[0] + s.ref[1 + n:]
                cols.append(("M", s.pos, seq[0], i))
                for k in range(1, 1 + n):
                    cols.append(("D", s.pos + k, None, i))
                for k in range(1 + n, len(s.ref)):
                    cols.append(("M", s.pos + k, s.ref[k], i))
        spans.append((c0, len(cols)))
        p = s.pos + len(s.ref)
    for q in range(p, len(refseq)):
        cols.append(("M", q, refseq[q], -1))
    return cols, spans


def truth(refseq, sites, alleles, cols, spans, read):
    kept, skip = set(read["kept"]), read["skip"]
    changed = []
    for c in cols:
        if c[3] >= 0 and alleles[c[3]] != 0:
            if c[0] == "M" and c[2] != refseq[c[1]]:
                changed.append((c[3], "M", c[1]))
            elif c[0] in "DI":
                changed.append((c[3], c[0], c[1]))
    out = {}
    for i, s in enumerate(sites):
        if not s.listed:
            continue
        a, b = s.pos, s.pos + len(s.ref)
        overlap = any(cols[k][0] in "MD" and a <= cols[k][1] < b for k in kept)
        c0, c1 = spans[i]
        full = (c0 - 1 >= 0 and c1 < len(cols) and all(k in kept for k in range(c0 - 1, c1 + 1))
                and cols[c0 - 1][0] == "M" and cols[c1][0] == "M")
        lo, hi = a - OVERHANG, b + OVERHANG
        neigh = 0
        for (j, kind, q) in changed:
            if j == i:
                continue
            if kind in "MD" and lo <= q < hi:
                neigh += 1
            elif kind == "I" and lo <= q <= hi - 2:
                neigh += 1
        near_n = None
        if skip and full:
            r0, r1 = cols[skip[0] - 1][1] + 1, cols[skip[1]][1]
            if r1 <= a:
                near_n = a - r1
            elif r0 >= b:
                near_n = r0 - b
        out[i] = {"overlap": overlap, "full": full, "isolated": neigh == 0, "allele": alleles[i], "near_n": near_n}
    return out


class MavScenario:
    def __init__(self, rng, *, stream, n_reads, alphabet="ACGT", ploidy=2, decorations=True, paired=0.0, end_on_variant=0.15,
                 p_multi=0.7):
        self.stream, self.ploidy = stream, ploidy
        self.ref = sim.random_seq(rng, rng.randrange(500, 900), alphabet)
        if stream == "isolated":
            sites = place_sites(rng, self.ref, rng.randrange(4, 12), lambda: 24 + rng.randrange(0, 30), alphabet, p_multi)
        elif stream == "twins":
            sites = twin_sites(rng, self.ref, rng.randrange(4, 10), alphabet)
        else:
            sites = place_sites(rng, self.ref, rng.randrange(5, 16), lambda: rng.choice([0, 1, 1, 2, 2, 3, 4, 6, 9, 14, 30]), alphabet, p_multi)
            for s in sites:
                if rng.random() < 0.15:
                    s.listed = False       # private ("unrelated") multi-allelic site of the haplotypes
        self.sites = sorted(sites, key=lambda s: s.pos)
        self.listed_idx = [i for i, s in enumerate(self.sites) if s.listed]
        # haplotypes carrying ANY of the alleles; every allele of a site is carried by someone when ploidy allows
        self.haps = [[rng.randrange(len(s.alts) + 1) for s in self.sites] for _ in range(ploidy)]
        self.cols = [columns(self.ref, self.sites, al) for al in self.haps]
        self.reads = []
        for rid in range(1, n_reads + 1):
            h = rng.randrange(ploidy)
            self._template(rng, h, f"r{rid}_h{h}", paired, decorations, end_on_variant)

    def _template(self, rng, h, name, paired, decorations, end_on_variant):
        cols, spans = self.cols[h]
        if rng.random() < paired:
            l1, l2 = rng.randrange(30, 120), rng.randrange(30, 120)
            s1 = rng.randrange(0, max(1, len(cols) - l1 - l2 - 60))
            s2 = s1 + rng.randrange(max(1, l1 - 20), l1 + 60)
            for mate, (s, l) in enumerate([(s1, l1), (s2, l2)]):
                r = self._one(rng, h, s, min(len(cols), s + l), decorations)
                if r is None:
                    continue
                r.update(name=name, flag=1 | 2 | (64 if mate == 0 else 128) | (16 if mate else 0), paired="FR", mate=mate, src=0, supp=False)
                self.reads.append(r)
            return
        l = rng.randrange(25, 220)
        s = rng.randrange(0, max(1, len(cols) - l))
        e = min(len(cols), s + l)
        if self.listed_idx and rng.random() < end_on_variant:
            c0, c1 = spans[rng.choice(self.listed_idx)]
            if rng.random() < 0.5:
                e = min(len(cols), rng.choice([c0, c0 + 1, c1 - 1, c1, c1 + 1, c1 + 2])); s = max(0, e - l)
            else:
                s = max(0, rng.choice([c0 - 2, c0 - 1, c0, c0 + 1, c1 - 1, c1])); e = min(len(cols), s + l)
        r = self._one(rng, h, s, e, decorations)
        if r is None:
            return
        r.update(name=name, flag=0, paired=None, mate=0, src=0, supp=False)
        self.reads.append(r)

    def _one(self, rng, h, s, e, decorations):
        cols, spans = self.cols[h]
        if e - s < 4:
            return None
        kw = {}
        if decorations:
            kw["style"] = rng.choice(["M", "M", "=X"])
            if rng.random() < 0.3:
                kw["soft"] = (rng.choice([0, 0, 3, 12]), rng.choice([0, 0, 2, 15]))
            if rng.random() < 0.2:
                kw["clip_aligned"] = (rng.choice([0, 2, 7]), rng.choice([0, 1, 9]))
            if rng.random() < 0.15:
                kw["hard"] = (rng.choice([0, 5]), rng.choice([0, 11]))
            if rng.random() < 0.3 and e - s > 20:
                n0 = rng.randrange(s + 3, e - 8)
                n1 = min(e - 3, n0 + rng.randrange(3, 70))
                if n1 > n0:
                    kw["skip"] = (n0, n1)
        r = G.make_read(rng, self.ref, None, None, cols, spans, s, e, **kw)
        if r is None and "skip" in kw:
            kw.pop("skip")
            r = G.make_read(rng, self.ref, None, None, cols, spans, s, e, **kw)
        if r is None:
            return None
        r["hap"] = h
        r["truth"] = truth(self.ref, self.sites, self.haps[h], cols, spans, r)
        del r["kept"]
        return r

    def to_case(self):
        return {"stream": "mav-" + self.stream, "ref": self.ref, "sites": [s.as_list() for s in self.sites], "haps": self.haps,
                "reads": [{k: (r[k] if k != "truth" else {str(i): t for i, t in r[k].items()}) for k in
                           ("name", "flag", "start", "cigar", "seq", "hap", "truth", "paired", "mate", "src", "supp")}
                          for r in self.reads]}

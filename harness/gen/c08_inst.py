"""C08 generators: genotyping HMM instances (reads as interval rows over columns, pedigree, priors,
recombination costs) and the independent numpy oracle (per-bipartition forward-backward over the
(transmission, allele assignment) chain – shares nothing with the projection DP of the code/model)."""
import itertools, math

import numpy as np

PEDIGREES = {
    # name: (n_individuals, [(father, mother, child)])   individual indices in add_individual order
    "single": (1, []),
    "trio": (3, [(1, 0, 2)]),                 # mother, father, child
    "trio_child_first": (3, [(1, 2, 0)]),     # child added first: roots are individuals 1, 2
    "quartet": (4, [(0, 1, 2), (0, 1, 3)]),
    "two_unrelated": (2, []),
    "three_gen": (5, [(0, 1, 2), (2, 3, 4)]),  # grandparents -> parent 2; 2 x 3 -> 4
}

QUALS = [1, 3, 5, 10, 10, 15, 20, 20, 30, 30, 40, 60]


def gen_priors(rng, n_ind, n_cols):
    out = []
    for _ in range(n_ind):
        rows = []
        for _ in range(n_cols):
            r = rng.random()
            if r < 0.25:
                p = [1 / 3, 1 / 3, 1 / 3]
            elif r < 0.65:
                x = [rng.random() + 0.02 for _ in range(3)]
                s = sum(x); p = [v / s for v in x]
            elif r < 0.85:
                k = rng.randrange(3); eps = rng.choice([1e-2, 1e-4, 1e-8])
                p = [eps, eps, eps]; p[k] = 1 - 2 * eps
            else:
                # not normalised (the table takes whatever it is given)
                p = [rng.choice([0.1, 0.5, 1.0, 2.0]) for _ in range(3)]
            rows.append(p)
        out.append(rows)
    return out


def gen_instance(rng, ped=None, n_cols=None, max_cov=4, n_reads=None, blank_prob=0.25, err=0.1,
                 uncovered_ok=True, big_q=False):
    if ped is None:
        ped = rng.choice(["single"] * 5 + ["trio"] * 3 + ["trio_child_first", "quartet", "two_unrelated"])
    n_ind, triples = PEDIGREES[ped]
    if n_cols is None:
        n_cols = rng.randrange(2, 5)
    if n_reads is None:
        n_reads = rng.randrange(1, 7)
    # true haplotypes per individual (independent; Mendelian consistency is irrelevant for the HMM identity)
    haps = [[[rng.randrange(2) for _ in range(n_cols)] for _ in range(2)] for _ in range(n_ind)]
    reads, cov = [], [0] * n_cols
    tries = n_big = 0
    while len(reads) < n_reads and tries < 20 * n_reads:
        tries += 1
        a = rng.randrange(0, n_cols - 1)
        b = rng.randrange(a + 1, min(n_cols, a + 1 + rng.choice([1, 1, 2, 3, 5])))
        if any(cov[c] >= max_cov for c in range(a, b + 1)):
            continue
        ind = rng.randrange(n_ind)
        h = rng.randrange(2)
        ents = []
        for c in range(a, b + 1):
            if c not in (a, b) and rng.random() < blank_prob:
                continue
            al = haps[ind][h][c]
            if rng.random() < err:
                al = 1 - al
            q = rng.choice(QUALS)
            r = rng.random()
            if r < 0.04:
                q = 0
            elif big_q and r < 0.08 and n_big < 3:
                # at most three: the Float model has no scaling, many 1e-30 factors would underflow in double
                q = rng.choice([255, 256, 300]); n_big += 1
            ents.append([c, al, q])
        for c in range(a, b + 1):
            cov[c] += 1
        reads.append({"ind": ind, "entries": ents})
    if not reads:
        reads.append({"ind": 0, "entries": [[0, 0, 10], [1, 1, 20]]})
    reads.sort(key=lambda r: r["entries"][0][0])  # stable: the read set is sorted by first position
    if not uncovered_ok:
        used = sorted({c for r in reads for c in range(r["entries"][0][0], r["entries"][-1][0] + 1)})
        remap = {c: i for i, c in enumerate(used)}
        for r in reads:
            r["entries"] = [[remap[c], a, q] for c, a, q in r["entries"]]
        n_cols = len(used)
    recomb = [rng.choice([0, 1, 3, 7, 10, 15, 20, 30, 40, 80]) if rng.random() < 0.9 else rng.randrange(0, 60)
              for _ in range(n_cols)]
    return {"ped": ped, "n_ind": n_ind, "triples": [list(t) for t in triples], "n_cols": n_cols, "reads": reads,
            "priors": gen_priors(rng, n_ind, n_cols), "recomb": recomb}


def coverage(case):
    cov = [0] * case["n_cols"]
    for r in case["reads"]:
        for c in range(r["entries"][0][0], r["entries"][-1][0] + 1):
            cov[c] += 1
    return cov


def n_local_states(case):
    T = len(case["triples"])
    return 4 ** T * 2 ** (2 * (case["n_ind"] - T))


def well_formed(case):
    """the instance guard of the model (Inst.WF) – never send anything else to the implementation:
    a read with a single variant trips a C++ assert and aborts the interpreter"""
    prev_first = -1
    for r in case["reads"]:
        e = r["entries"]
        if len(e) < 2 or any(e[i][0] >= e[i + 1][0] for i in range(len(e) - 1)):
            return False
        if any(not (0 <= c < case["n_cols"]) or a not in (0, 1) or q < 0 for c, a, q in e):
            return False
        if not (0 <= r["ind"] < case["n_ind"]) or e[0][0] < prev_first:
            return False
        prev_first = e[0][0]
    kids = [t[2] for t in case["triples"]]
    return len(set(kids)) == len(kids) and all(0 <= x < case["n_ind"] for t in case["triples"] for x in t)


# ------------------------------------------------------------------------------------------------
# the independent oracle
# ------------------------------------------------------------------------------------------------

def phred(q):
    return 0.9999 if q == 0 else 10.0 ** (-q / 10.0)


def partitions(n_ind, triples, t):
    child_of = {c: k for k, (_, _, c) in enumerate(triples)}
    part, p = {}, 0
    for i in range(n_ind):
        if i not in child_of:
            part[i] = (p, p + 1); p += 2

    def rec(i):
        if i in part:
            return part[i]
        k = child_of[i]
        f, m, _ = triples[k]
        pf, pm = rec(f), rec(m)
        # bit 2k: which haplotype the father passes on, bit 2k+1: the mother; 0 -> the parent's second haplotype
        part[i] = (pf[0] if (t >> (2 * k)) & 1 else pf[1], pm[0] if (t >> (2 * k + 1)) & 1 else pm[1])
        return part[i]
    for i in range(n_ind):
        rec(i)
    return part


def oracle(case):
    """posterior[i][c][g] by: for every global bipartition, an ordinary HMM forward-backward over the chain of
    (transmission, assignment) states; summed over bipartitions; normalised."""
    n_ind, triples, n = case["n_ind"], [tuple(t) for t in case["triples"]], case["n_cols"]
    T = len(triples); NT = 4 ** T; P = 2 * (n_ind - T); NA = 2 ** P
    A_idx = np.arange(NA)
    # allele carried by haplotype h of individual i under (t, a): bits[i][h][t, a]
    bits = np.zeros((n_ind, 2, NT, NA), dtype=np.int64)
    for t in range(NT):
        part = partitions(n_ind, triples, t)
        for i in range(n_ind):
            for h in range(2):
                bits[i, h, t, :] = (A_idx >> part[i][h]) & 1
    geno = bits[:, 0] + bits[:, 1]                     # (n_ind, NT, NA)
    # assignment prior
    asg = np.zeros((n, NT, NA))
    for c in range(n):
        for t in range(NT):
            raw = np.ones(NA)
            for i in range(n_ind):
                raw = raw * np.array(case["priors"][i][c])[geno[i, t]]
            keys = [tuple(geno[:, t, a]) for a in range(NA)]
            mult = np.array([keys.count(k) for k in keys], dtype=float)
            w = raw / mult
            asg[c, t] = w / w.sum()
    # transmission transitions
    pop = np.array([[bin(i ^ j).count("1") for j in range(NT)] for i in range(NT)])
    tr = np.zeros((n, NT, NT))
    for c in range(n):
        r = 10.0 ** (-case["recomb"][c] / 10.0)
        b = (r ** pop) * ((1 - r) ** (2 * T - pop))
        tr[c] = b / b.sum(axis=1, keepdims=True)
    reads = case["reads"]
    R = len(reads)
    by_col = [[] for _ in range(n)]
    for k, rd in enumerate(reads):
        for c, al, q in rd["entries"]:
            by_col[c].append((k, rd["ind"], al, phred(q)))
    marg = np.zeros((n, NT, NA))
    for beta in range(2 ** R):
        em = np.ones((n, NT, NA))
        for c in range(n):
            for k, ind, al, e in by_col[c]:
                h = (beta >> k) & 1
                em[c] = em[c] * np.where(bits[ind, h] == al, 1 - e, e)
        w = em * asg
        f = [None] * n
        f[0] = w[0]
        for c in range(1, n):
            f[c] = (f[c - 1].sum(axis=1) @ tr[c])[:, None] * w[c]
        b = [None] * n
        b[n - 1] = np.ones(NT)
        for c in range(n - 1, 0, -1):
            b[c - 1] = tr[c] @ (w[c].sum(axis=1) * b[c])
        for c in range(n):
            marg[c] += f[c] * b[c][:, None]
    post = [[[0.0] * 3 for _ in range(n)] for _ in range(n_ind)]
    for c in range(n):
        tot = marg[c].sum()
        for i in range(n_ind):
            for g in range(3):
                post[i][c][g] = float(marg[c][geno[i] == g].sum() / tot) if tot > 0 else float("nan")
    return post


def oracle_cost(case):
    """~ number of numpy operations (a few µs each; the state arrays are small)"""
    ents = sum(len(r["entries"]) for r in case["reads"])
    return (2 ** len(case["reads"])) * (4 * case["n_cols"] + ents) * (1 + n_local_states(case) // 256)


def brute_cost(case):
    """number of global states the plain enumeration of the Lean spec visits"""
    return (2 ** len(case["reads"])) * n_local_states(case) ** case["n_cols"]


def impl_cost(case):
    """~ number of array updates of the implementation-structured Lean model (`c08.impl`): per column
    2^coverage * transmissions * assignments * (transmissions + individuals), backward + forward (+ re-computation)"""
    nt = 4 ** len(case["triples"])
    na = 2 ** (2 * (case["n_ind"] - len(case["triples"])))
    return sum((2 ** c) * nt * na * (2 * nt + case["n_ind"] + 4) for c in coverage(case)) * 2

"""Textual forms of the INPUT genotypes for C02 (round 7).

C02 quantifies over all variant files: the same diploid genotype may be written in the input in several ways that
all mean the same thing to `whatshap phase` (which reads genotypes, not phases): allele order (`0/1`, `1/0`),
separator (`0|1`, `1|0`: phased by an earlier run / another phaser, with a PS number, with PS `.`, or without any
PS key = one chromosome-wide set), an HP value next to an unphased GT (`0/1:7-1,7-2`, `1/0:7-2,7-1`, ...), both
encodings at once, and the same for homozygous calls (`1/1`, `1|1`).  None of this is phase input of the run, so the
output must carry the truth whatever the mix, for both output tags.  `rewrite(rng, recs)` picks a form per CALL, so that
the forms are mixed within one phase set (a whole set written `1/0` would merely come out swapped, which is allowed).
Deterministic in `rng`."""

PS_DEF = '##FORMAT=<ID=PS,Number=1,Type=Integer,Description="Phase set identifier">'
HP_DEF = '##FORMAT=<ID=HP,Number=.,Type=String,Description="Phasing haplotype identifier">'

# (name, separator, order kept (False = descending/flipped), PS value?, HP value?)
HET_FORMS = [
    ("0/1", "/", True, False, False),
    ("1/0", "/", False, False, False),
    ("0|1", "|", True, False, False),
    ("1|0", "|", False, False, False),
    ("0|1:PS", "|", True, True, False),
    ("1|0:PS", "|", False, True, False),
    ("0/1:HP", "/", True, False, True),
    ("1/0:HP", "/", False, False, True),
    ("0|1:PS:HP", "|", True, True, True),
    ("1|0:HP", "|", False, False, True),
]
MODES = {
    # which forms a file uses (every mode but "sorted" mixes at least two forms inside a phase set)
    "sorted": ["0/1"],
    "unphased": ["0/1", "1/0"],
    "phased-noPS": ["0/1", "1/0", "0|1", "1|0"],
    "PS": ["0/1", "1/0", "0|1:PS", "1|0:PS", "0|1", "1|0"],
    "HP": ["0/1", "1/0", "0/1:HP", "1/0:HP"],
    "all": [f[0] for f in HET_FORMS],
}


def gen_mode(rng):
    return rng.choice(["sorted", "unphased", "unphased", "phased-noPS", "PS", "HP", "HP", "all", "all"])


def rewrite(rng, recs, mode):
    """rewrite the GT strings (and PS/HP values) of `recs` (harness.gen.sim record dicts with calls {"GT": "a/b"}) in place;
    returns (fmt_defs for write_vcf, whether any call of the input is now marked phased, counter of forms used)"""
    forms = {f[0]: f for f in HET_FORMS}
    allowed = MODES[mode]
    use_ps = any(forms[n][3] for n in allowed)
    use_hp = any(forms[n][4] for n in allowed)
    # PS key present although unused (value `.`) in some files without PS values, too
    ps_key = use_ps or (mode in ("phased-noPS", "unphased") and rng.random() < 0.3)
    used = {}
    marked = False
    blocks = {}
    for rec in recs:
        # phase-set names of an "earlier run": a new (wrong) block every few records
        if rec["chrom"] not in blocks or rng.random() < 0.3:
            blocks[rec["chrom"]] = rec["pos"] + 1
        block = blocks[rec["chrom"]]
        keys = ["GT"] + (["PS"] if ps_key else []) + (["HP"] if use_hp else [])
        rec["format"] = keys
        for call in rec["calls"]:
            a, b = sorted(call["GT"].split("/"))
            if a != b:
                name, sep, keep, ps, hp = forms[rng.choice(allowed)]
                x, y = (a, b) if keep else (b, a)
            else:
                # homozygous: only the separator (and a PS number) can differ
                sep = "|" if (mode not in ("sorted", "unphased") and rng.random() < 0.4) else "/"
                ps, hp = (sep == "|" and use_ps and rng.random() < 0.5), False
                name, x, y = f"hom{sep}" + (":PS" if ps else ""), a, b
            used[name] = used.get(name, 0) + 1
            call["GT"] = f"{x}{sep}{y}"
            if "PS" in keys:
                call["PS"] = str(block) if ps else "."
            if "HP" in keys:
                # either orientation of the old (arbitrary, mostly wrong) phasing
                call["HP"] = rng.choice([f"{block}-1,{block}-2", f"{block}-2,{block}-1"]) if hp else "."
            marked = marked or sep == "|" or hp
    fmt_defs = {}
    if ps_key:
        fmt_defs["PS"] = PS_DEF
    if use_hp:
        fmt_defs["HP"] = HP_DEF
    return fmt_defs, marked, used

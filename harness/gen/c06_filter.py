"""C06 generators for the alignment filter / read construction stream (`ReadSetReader.read` as a whole).

A case = one or two BAM files over one contig, a VCF (bi-allelic, isolated variants), a FASTA, a reader
configuration and a `read(...)` call (sample, regions, with/without reference).  The alignment records start from the
error-free reads of a `C06Scenario` ("good": primary, mapq 60, read group of sample S1) and are then decorated:

* *poison* records that the filter must drop (secondary, unmapped-flagged, duplicate, supplementary, low mapq, read
  group of another sample / without sample): their bases carry the OPPOSITE allele at every listed variant they
  cover, under their own name or under the name of a good read — if one of them reached detection the good read's
  alleles would change or a read of that name would appear;
* records with the borderline mapq (threshold-1, threshold), QC-fail flag (not filtered), supplementary
  alignments of a good read (same / other orientation, near / far), mates;
* records without RG tag, with SEQ `*`, with CIGAR `*`, with BX / HP / PS tags (PS as integer, as integer
  string, as a non-integer string).
"""
from . import sim
from . import c06_gen as G

FLAG_UNMAPPED, FLAG_REVERSE, FLAG_SECONDARY, FLAG_QCFAIL, FLAG_DUP, FLAG_SUPP = 4, 16, 256, 512, 1024, 2048


def flip_seq(read, hv, ref):
    """the read's bases with the other allele at every listed SNV it covers inside one M/=/X block (same length, so the
    CIGAR stays valid); returns None when nothing could be flipped"""
    seq = list(read["seq"])
    r, q = read["start"], 0
    changed = False
    for op, n in read["cigar"]:
        if op in (0, 7, 8):
            for v in hv:
                if v.listed and v.kind == "snv" and r <= v.pos < r + n:
                    k = q + (v.pos - r)
                    cur = seq[k]
                    seq[k] = v.alt if cur == v.ref else v.ref
                    changed = True
            r += n; q += n
        elif op in (1, 4):
            q += n
        elif op in (2, 3):
            r += n
    return "".join(seq) if changed else None


def make_case(rng, quick=True):
    alphabet = "ACGT" if rng.random() < 0.8 else "ACG"
    sc = G.C06Scenario(rng, stream="isolated", n_reads=rng.randrange(6, 16), alphabet=alphabet, contig_len=(260, 420),
                       kinds=("snv", "snv", "snv", "ins", "del", "mnp"), decorations=(rng.random() < 0.5),
                       paired=rng.choice([0.0, 0.0, 0.4]), end_on_variant=0.05)
    hv = sc.hvars
    thr = rng.choice([20, 20, 20, 0, 1, 30])
    recs = []   # dicts: name, start, cigar, seq, flag, mapq, rg, tags, src, role
    n_src = 1 if rng.random() < 0.75 else 2
    for r in sc.reads:
        base = dict(name=r["name"], start=r["start"], cigar=[list(x) for x in r["cigar"]], seq=r["seq"], flag=r["flag"], mapq=60,
                    rg="rg1", tags=[], src=0, role="good", hap=r["hap"], mate=r["mate"])
        if n_src == 2 and rng.random() < 0.4:
            base["src"] = 1
        k = rng.random()
        if k < 0.10:
            base["mapq"] = rng.choice([thr, max(0, thr - 1), thr + 1, 255]); base["role"] = "edge-mapq"
        elif k < 0.15:
            base["flag"] |= FLAG_QCFAIL; base["role"] = "qcfail"
        elif k < 0.20:
            base["flag"] |= FLAG_DUP; base["role"] = "dup"
        elif k < 0.24:
            base["rg"] = rng.choice(["rg2", "rg3", "rg1b"]); base["role"] = "other-rg"
        if rng.random() < 0.25:
            t = []
            if rng.random() < 0.7:
                t.append(["BX", rng.choice(["AAAC-1", "GGTT-1", ""])])
            if rng.random() < 0.5:
                t.append(["HP", rng.choice([1, 2])])
            if rng.random() < 0.5:
                t.append(["PS", rng.choice([12, 4711, "77"])])
            base["tags"] = t
        recs.append(base)
        # poison copies
        fl = flip_seq(r, hv, sc.ref)
        if fl is not None and rng.random() < 0.45:
            kind = rng.choice(["secondary", "unmapped", "dup", "supp", "lowmq", "other-sample", "no-sample"])
            p = dict(base, seq=fl, tags=[], role="poison-" + kind, mapq=60, rg="rg1", flag=r["flag"] & FLAG_REVERSE)
            if rng.random() < 0.5:
                p["name"] = r["name"] + "_px"
            if kind == "secondary":
                p["flag"] |= FLAG_SECONDARY
            elif kind == "unmapped":
                p["flag"] |= FLAG_UNMAPPED
            elif kind == "dup":
                p["flag"] |= FLAG_DUP
            elif kind == "supp":
                p["flag"] |= FLAG_SUPP
            elif kind == "lowmq":
                p["mapq"] = thr - 1 if thr > 0 else 0
                if thr == 0:
                    p["flag"] |= FLAG_SECONDARY
            elif kind == "other-sample":
                p["rg"] = "rg2"
            else:
                p["rg"] = "rg3"
            recs.append(p)
        # supplementary alignment of the same template elsewhere (error-free, other part of the haplotype)
        if rng.random() < 0.2 and len(sc.reads) > 1:
            o = rng.choice(sc.reads)
            if o["hap"] == r["hap"] and o["name"] != r["name"]:
                s = dict(base, start=o["start"], cigar=[list(x) for x in o["cigar"]], seq=o["seq"], tags=[], role="supp",
                         flag=FLAG_SUPP | (rng.choice([0, FLAG_REVERSE])))
                recs.append(s)
    # rare malformed / unusual records
    for r in list(recs):
        k = rng.random()
        if r["role"] != "good":
            continue
        if k < 0.02:
            recs.append(dict(r, name=r["name"] + "_norg", rg=None, role="no-rg",
                             flag=rng.choice([0, FLAG_SECONDARY]), mapq=rng.choice([60, 0])))
        elif k < 0.04:
            recs.append(dict(r, name=r["name"] + "_noseq", seq=None, role="no-seq",
                             flag=rng.choice([0, 0, FLAG_SECONDARY]), mapq=rng.choice([60, 60, 0])))
        elif k < 0.055:
            recs.append(dict(r, name=r["name"] + "_nocig", cigar=None, role="no-cigar", seq=rng.choice([r["seq"], None])))
        elif k < 0.07:
            recs.append(dict(r, name=r["name"] + "_badps", tags=[["PS", "x1"]], role="bad-ps", mapq=rng.choice([60, 0])))
    if n_src == 2:
        # the same names in the other file: grouped apart by source_id
        for r in list(recs):
            if r["role"] == "good" and rng.random() < 0.15:
                recs.append(dict(r, src=1 - r["src"], role="other-file"))
    cfg = dict(mapq=thr, duplicates=rng.random() < 0.25, supplementary=rng.random() < 0.4,
               threshold=rng.choice([100000, 100000, 60, 0]), overhang=10,
               affine=(rng.choice([[10, 7, 15], [10, 7, 15], [3, 1, 2], [1, 1, 1]]) if rng.random() < 0.35 else None))
    L = len(sc.ref)
    regions = None
    if rng.random() < 0.25:
        regions = []
        for _ in range(rng.randrange(1, 4)):
            a = rng.randrange(0, L)
            regions.append([a, rng.choice([None, min(L, a + rng.randrange(1, 200))])])
        if rng.random() < 0.6:
            regions.sort(key=lambda x: x[0])
    sample = rng.choice(["S1", "S1", "S1", "S1", None, None, "S2", "SX"])
    rgs = [[["rg1", "S1"], ["rg1b", "S1"], ["rg2", "S2"], ["rg3", None]] for _ in range(n_src)]
    if n_src == 2 and rng.random() < 0.3:
        rgs[1] = [["rg1", "S3"], ["rg1b", "S3"], ["rg2", "S2"], ["rg3", None]]   # second file lacks S1
    return {"stream": "filter", "ref": sc.ref, "hvars": [v.as_list() for v in hv], "records": recs, "cfg": cfg,
            "regions": regions, "sample": sample, "rgs": rgs, "n_src": n_src,
            "mode": "ref" if rng.random() < 0.65 or cfg["affine"] else "noref"}


def write_case(d, case):
    """-> (fasta, [bam...], vcf)"""
    import os
    contigs = {"chr1": case["ref"]}
    hv = [G.HVar.from_list(l) for l in case["hvars"]]
    listed = [v for v in hv if v.listed]
    fa, vcf = os.path.join(d, "f.fasta"), os.path.join(d, "f.vcf")
    sim.write_fasta(fa, contigs)
    sim.write_vcf(vcf, contigs, ["S1"], [{"chrom": "chr1", "pos": v.pos, "ref": v.ref, "alts": [v.alt], "calls": [{"GT": "0/1"}],
                                          "format": ["GT"]} for v in listed])
    bams = []
    for s in range(case["n_src"]):
        bam = os.path.join(d, f"f{s}.bam")
        reads = []
        for r in case["records"]:
            if r["src"] != s:
                continue
            reads.append({"name": r["name"], "chrom": "chr1", "start": r["start"],
                          "cigar": [tuple(x) for x in r["cigar"]] if r["cigar"] is not None else None,
                          "seq": r["seq"], "flag": r["flag"], "rg": r["rg"], "mapq": r["mapq"], "qual": 30,
                          "tags": [tuple(t) for t in r["tags"]]})
        if not reads:
            # a BAM without any record is refused (EmptyAlignmentFileError): decoy, unmapped-flagged, filtered
            reads.append({"name": "decoy", "chrom": "chr1", "start": 0, "cigar": [(0, 5)], "seq": case["ref"][:5], "flag": FLAG_SECONDARY,
                          "rg": "rg1", "mapq": 0, "qual": 30, "tags": []})
        sim.write_bam(bam, contigs, reads, [tuple(x) for x in case["rgs"][s]])
        bams.append(bam)
    return fa, bams, vcf, hv, listed

"""Polyploid scenarios for C15 (and C16): reference, (multi-allelic) variants, k true haplotypes per sample,
error-free reads copied from one haplotype each, VCF with unphased polyploid genotypes, BAM.

Adapted from harness/gen/sim.py (hap_read generalised to allele indices into [REF]+ALTS).
Everything random derives from the rng passed in; a scenario serialises to a plain dict (`as_case`) and
is rebuilt from it (`from_case`) so replays never depend on the PRNG.
"""
import os

from . import sim

BASES = "ACGT"


def allele_seq(v, a):
    return v["ref"] if a == 0 else v["alts"][a - 1]


def poly_read(refseq, variants, alleles, start, end):
    """error-free read of a haplotype (allele index per variant) over [start,end); see sim.hap_read"""
    changed = True
    while changed:
        changed = False
        for v in variants:
            a, b = v["pos"], v["pos"] + len(v["ref"])
            if a < start < b:
                start = b; changed = True
            if a < end < b:
                end = a; changed = True
    if end - start < 2:
        return None
    seq, cigar = [], []

    def add(op, n):
        if n <= 0:
            return
        if cigar and cigar[-1][0] == op:
            cigar[-1] = (op, cigar[-1][1] + n)
        else:
            cigar.append((op, n))
    p = start
    for i, v in enumerate(variants):
        a, b = v["pos"], v["pos"] + len(v["ref"])
        if b <= start or a >= end:
            continue
        if a > p:
            seq.append(refseq[p:a]); add(0, a - p)
        al = allele_seq(v, alleles[i])
        ref = v["ref"]
        if len(al) == len(ref):
            seq.append(al); add(0, len(al))
        elif len(al) > len(ref):      # insertion after the anchor (ref has length 1)
            seq.append(al); add(0, 1); add(1, len(al) - 1)
        else:                          # deletion after the anchor
            seq.append(al); add(0, 1); add(2, len(ref) - 1)
        p = b
    if p < end:
        seq.append(refseq[p:end]); add(0, end - p)
    if cigar[0][0] != 0 or cigar[-1][0] != 0:
        return None
    return start, cigar, "".join(seq)


def make_poly_variants(rng, chrom, refseq, n, multi_prob=0.2, indel_prob=0.0, min_gap=12, margin=20):
    out = []
    pos = margin + rng.randrange(0, 8)
    tries = 0
    while len(out) < n and pos < len(refseq) - margin and tries < 50 * n + 100:
        tries += 1
        if rng.random() < indel_prob:
            v = sim.make_variant(rng, chrom, refseq, pos, rng.choice(["ins", "del"]))
            if v is None:
                pos += 1
                continue
            out.append({"pos": v.pos, "ref": v.ref, "alts": [v.alt]})
        else:
            ref = refseq[pos]
            others = [b for b in BASES if b != ref]
            rng.shuffle(others)
            na = 1
            if rng.random() < multi_prob:
                na = rng.choice([2, 2, 3])
            out.append({"pos": pos, "ref": ref, "alts": others[:na]})
        last = out[-1]
        pos = last["pos"] + len(last["ref"]) + min_gap + rng.randrange(0, min_gap)
    return out


def random_haplotypes(rng, variants, ploidy, hom_prob=0.15, collapse_prob=0.3):
    """k haplotypes; with prob `collapse_prob` two haplotypes are identical over a long stretch
    (collapsed haplotypes); `hom_prob` of the variants are homozygous in the sample"""
    n = len(variants)
    haps = [[0] * n for _ in range(ploidy)]
    for i, v in enumerate(variants):
        na = len(v["alts"]) + 1
        if rng.random() < hom_prob:
            a = rng.randrange(na)
            for h in haps:
                h[i] = a
        else:
            while True:
                col = [rng.randrange(na) for _ in range(ploidy)]
                if len(set(col)) > 1:
                    break
            for h, a in zip(haps, col):
                h[i] = a
    if ploidy >= 3 and n >= 4 and rng.random() < collapse_prob:
        a, b = rng.sample(range(ploidy), 2)
        s = rng.randrange(0, n // 2)
        e = rng.randrange(s + 2, n + 1)
        haps[b][s:e] = haps[a][s:e]
    return haps


class PolyScenario:
    def __init__(self, contigs, variants, samples, ploidy, haps, reads, gt_override=None, extra_samples=None):
        self.contigs = contigs          # name -> seq
        self.variants = variants        # chrom -> [ {pos, ref, alts} ]
        self.samples = samples          # sample names with reads
        self.ploidy = ploidy            # sample -> ploidy
        self.haps = haps                # "sample|chrom" -> [ [allele idx per variant] per haplotype ]
        self.reads = reads              # list of dicts for sim.write_bam
        self.gt_override = gt_override or {}   # "sample|chrom|varindex" -> GT string
        self.extra_samples = extra_samples or {}  # name -> ploidy: samples without reads (random unphased genotypes = hap copy of first sample)

    @classmethod
    def generate(cls, rng, ploidy=4, n_contigs=1, n_variants=(6, 12), cov_per_hap=(4, 8), read_len=(60, 200),
                 multi_prob=0.2, indel_prob=0.0, hom_prob=0.15, uneven=True, samples=("S1",), gaps=False,
                 min_gap=12, gap_frac=None, orphans=0):
        contigs, variants, haps, reads = {}, {}, {}, []
        pl = {s: (ploidy[s] if isinstance(ploidy, dict) else ploidy) for s in samples}
        rid = 0
        for ci in range(n_contigs):
            name = f"chr{ci + 1}"
            nv = rng.randrange(n_variants[0], n_variants[1] + 1)
            L = 2 * 20 + nv * (2 * min_gap + 2) + rng.randrange(10, 60)
            seq = sim.random_seq(rng, L)
            contigs[name] = seq
            variants[name] = make_poly_variants(rng, name, seq, nv, multi_prob, indel_prob, min_gap=min_gap)
            L = len(seq)
            nvr = len(variants[name])
            orph = sorted(rng.sample(range(1, nvr - 1), min(orphans, max(0, nvr - 3)))) if orphans and nvr >= 4 else []
            for s in samples:
                k = pl[s]
                hs = random_haplotypes(rng, variants[name], k, hom_prob=hom_prob)
                haps[f"{s}|{name}"] = hs
                # optional coverage gap: no read crosses `gap_at`
                gap_at = rng.randrange(L // 3, 2 * L // 3) if (gaps and rng.random() < 0.5) else None
                if gap_frac is not None:
                    gap_at = int(L * gap_frac)      # no read crosses this point: two blocks, the first one smaller
                for h in range(k):
                    cov = rng.randrange(cov_per_hap[0], cov_per_hap[1] + 1)
                    if uneven and rng.random() < 0.3:
                        cov = max(1, cov // 3)
                    mean_len = (read_len[0] + read_len[1]) / 2
                    n_reads = max(2, int(cov * L / mean_len))
                    for _ in range(n_reads):
                        rl = rng.randrange(read_len[0], read_len[1] + 1)
                        st = rng.randrange(0, max(1, L - rl))
                        en = min(L, st + rl)
                        if gap_at is not None and st < gap_at < en:
                            if gap_at - st > en - gap_at:
                                en = gap_at
                            else:
                                st = gap_at
                        for oi in orph:
                            # an "orphan" variant: every read that reaches it covers no other variant (such reads are
                            # discarded by polyphase before phasing, so the variant drops out of the phasing input)
                            ov = variants[name][oi]
                            op_, oe_ = ov["pos"], ov["pos"] + len(ov["ref"])
                            if st < oe_ and op_ < en:
                                if rng.random() < 0.5:
                                    st, en = max(0, op_ - 5), min(L, oe_ + 5)
                                elif op_ - st > en - oe_:
                                    en = op_ - 1
                                else:
                                    st = oe_ + 1
                        if en - st < 3:
                            continue
                        pr = poly_read(seq, variants[name], hs[h], st, en)
                        if pr is None:
                            continue
                        start, cigar, q = pr
                        rid += 1
                        reads.append({"name": f"r{rid}_{s}_h{h}", "chrom": name, "start": start,
                                      "cigar": [list(c) for c in cigar], "seq": q, "rg": "rg_" + s, "mapq": 60})
        return cls(contigs, variants, list(samples), pl, haps, reads)

    # -- serialisation
    def as_case(self):
        return {"contigs": self.contigs, "variants": self.variants, "samples": self.samples, "ploidy": self.ploidy,
                "haps": self.haps, "reads": self.reads, "gt_override": self.gt_override,
                "extra_samples": self.extra_samples}

    @classmethod
    def from_case(cls, c):
        return cls(c["contigs"], c["variants"], c["samples"], c["ploidy"], c["haps"], c["reads"],
                   c.get("gt_override"), c.get("extra_samples"))

    # -- files
    def all_samples(self):
        return self.samples + list(self.extra_samples)

    def gt_of(self, sample, chrom, i):
        key = f"{sample}|{chrom}|{i}"
        if key in self.gt_override:
            return self.gt_override[key]
        if sample in self.extra_samples:
            k = self.extra_samples[sample]
            src = self.haps[f"{self.samples[0]}|{chrom}"]
            col = [src[h % len(src)][i] for h in range(k)]
        else:
            col = [h[i] for h in self.haps[f"{sample}|{chrom}"]]
        return "/".join(str(a) for a in sorted(col))

    def vcf_records(self, info=None, phased_prefix=None):
        recs = []
        for name in self.contigs:
            for i, v in enumerate(self.variants[name]):
                calls = [{"GT": self.gt_of(s, name, i)} for s in self.all_samples()]
                r = {"chrom": name, "pos": v["pos"], "ref": v["ref"], "alts": v["alts"], "calls": calls, "format": ["GT"]}
                if info:
                    r["info"] = info(name, i)
                recs.append(r)
        return recs

    def write(self, d, prefix="in", **vcf_kw):
        os.makedirs(d, exist_ok=True)
        fa, bam, vcf = (os.path.join(d, prefix + e) for e in (".fasta", ".bam", ".vcf"))
        sim.write_fasta(fa, self.contigs)
        reads = [dict(r, cigar=[tuple(c) for c in r["cigar"]]) for r in self.reads]
        sim.write_bam(bam, self.contigs, reads, [("rg_" + s, s) for s in self.samples])
        recs = vcf_kw.pop("records", None) or self.vcf_records()
        sim.write_vcf(vcf, self.contigs, self.all_samples(), recs, **vcf_kw)
        return fa, bam, vcf

"""Shared machinery of every check: Lean build + audit, model driver, decision logic, evidence.

A property module (harness/props/cXX.py) exposes

    def run(ctx): ...

and reports through ctx:

    ctx.evaluated(n=1)                 count cases
    ctx.nontrivial(key)                register a distinct non-trivial case (hashable key)
    ctx.sample(obj)                    keep a few written-out cases for the evidence
    ctx.dist(name, value)              input-distribution histogram
    ctx.fail(what, case, key=...)      the PROPERTY predicate failed on the implementation's
                                       behaviour for a concrete case  -> VIOLATION (unless known)
    ctx.disagree(op, case, impl, model)  model and implementation differ on an observable
                                       -> triggers the failing-input search / no-failing-input-found
    ctx.observe(text)                  things worth recording that are outside the property
"""
import collections, fcntl, hashlib, json, os, random, re, subprocess, sys, time, glob

VERIF = os.path.dirname(os.path.dirname(os.path.abspath(__file__)))
# evidence/ and replays/ live in /verif; a run against a scratch clone (WHATSHAP_REPO, see tools/seedtest.sh) writes them
# elsewhere, so that the evidence kept in /verif only ever comes from /repo itself
OUTROOT = os.environ.get("WHVERIF_OUTROOT") or VERIF
LEAN = os.path.join(VERIF, "lean")
WHMODEL = os.path.join(LEAN, ".lake", "build", "bin", "whmodel")
ALLOWED_AXIOMS = {"propext", "Classical.choice", "Quot.sound"}
FORBIDDEN = re.compile(r"\b(sorry|admit|native_decide|bv_decide|implemented_by|unsafe)\b|^\s*axiom\s|maxHeartbeats\s+0\b", re.M)


class Infra(Exception):
    """infrastructure problem: exit 2, never a violation"""


# ------------------------------------------------------------------------------------------------
# Lean: build, textual audit, axiom audit
# ------------------------------------------------------------------------------------------------

def _strip_comments(src):
    # remove /- ... -/ (nested) and -- ... comments, and string literals
    out, i, depth, n = [], 0, 0, len(src)
    while i < n:
        if src.startswith("/-", i):
            depth += 1; i += 2; continue
        if depth and src.startswith("-/", i):
            depth -= 1; i += 2; continue
        if depth:
            i += 1; continue
        if src.startswith("--", i):
            j = src.find("\n", i)
            i = n if j < 0 else j
            continue
        if src[i] == '"':
            j = i + 1
            while j < n and src[j] != '"':
                j += 2 if src[j] == "\\" else 1
            i = j + 1; out.append('""'); continue
        out.append(src[i]); i += 1
    return "".join(out)


def lean_sources_hash():
    h = hashlib.sha256()
    files = sorted(glob.glob(os.path.join(LEAN, "**", "*.lean"), recursive=True))
    files = [f for f in files if "/.lake/" not in f]
    for f in files + [os.path.join(LEAN, "lakefile.toml")]:
        h.update(f.encode()); h.update(open(f, "rb").read())
    return h.hexdigest()[:16]


def lean_build(prop, thorough=False):
    """lake build (no-op when cached), textual audit, axiom audit of Props/<prop>.lean.
    Returns the proof section of the evidence."""
    lock = open(os.path.join(LEAN, ".build.lock"), "w")
    fcntl.flock(lock, fcntl.LOCK_EX)
    try:
        t0 = time.time()
        r = subprocess.run(["lake", "build", "WhVerif", "whmodel"], cwd=LEAN, capture_output=True, text=True)
        if r.returncode != 0:
            return {"build_ok": False, "build_log": (r.stdout + r.stderr)[-3000:]}
        # textual audit over the whole library (comments and strings stripped)
        hits = []
        for f in sorted(glob.glob(os.path.join(LEAN, "WhVerif", "**", "*.lean"), recursive=True)) + [os.path.join(LEAN, "Main.lean"), os.path.join(LEAN, "WhVerif.lean")]:
            src = _strip_comments(open(f).read())
            for m in FORBIDDEN.finditer(src):
                hits.append(f"{os.path.relpath(f, LEAN)}: {m.group(0).strip()}")
        module = f"WhVerif.Props.{prop}"
        cache = os.path.join(LEAN, ".lake", f"audit-{prop}-{lean_sources_hash()}.json")
        if os.path.exists(cache):
            audit = json.load(open(cache))
        else:
            r = subprocess.run(["lake", "env", "lean", "--run", "Audit.lean", module], cwd=LEAN,
                               capture_output=True, text=True)
            if r.returncode != 0:
                return {"build_ok": False, "build_log": "audit failed: " + (r.stdout + r.stderr)[-3000:]}
            audit = json.loads(r.stdout.strip().splitlines()[-1])
            json.dump(audit, open(cache, "w"))
        bad_axioms = sorted({a for t in audit["theorems"] for a in t["axioms"] if a not in ALLOWED_AXIOMS})
        out = {
            "build_ok": True,
            "forbidden_hits": hits,
            "bad_axioms": bad_axioms,
            "theorems": audit["theorems"],
            "lemmas_used": audit["deps"],
            "obligations": len(audit["theorems"]) + audit["deps"],
            "build_s": round(time.time() - t0, 1),
        }
        if thorough:
            r = subprocess.run(["lake", "env", "leanchecker", module], cwd=LEAN, capture_output=True, text=True)
            out["leanchecker_ok"] = (r.returncode == 0)
            out["leanchecker_log"] = (r.stdout + r.stderr)[-500:]
        return out
    finally:
        fcntl.flock(lock, fcntl.LOCK_UN); lock.close()


class Model:
    """whmodel over the one-JSON-line-in / one-JSON-line-out protocol"""

    def __init__(self):
        if not os.path.exists(WHMODEL):
            raise Infra("whmodel not built")
        self.p = subprocess.Popen([WHMODEL], stdin=subprocess.PIPE, stdout=subprocess.PIPE, text=True, bufsize=1 << 20)
        self.calls = 0

    def ask(self, op, **kw):
        return self.ask_many([dict(op=op, **kw)])[0]

    def ask_many(self, reqs):
        """pipelined: a writer thread feeds the requests while this thread reads the answers, so neither side can
        block on a full pipe whatever the size of requests and answers"""
        import threading
        out = []
        lines = [json.dumps(r, separators=(",", ":")) + "\n" for r in reqs]
        err = []

        def feed():
            try:
                for i in range(0, len(lines), 50):
                    self.p.stdin.write("".join(lines[i:i + 50]))
                    self.p.stdin.flush()
            except Exception as e:   # model died: the reader notices
                err.append(e)
        th = threading.Thread(target=feed, daemon=True)
        th.start()
        for k in range(len(reqs)):
            line = self.p.stdout.readline()
            if not line:
                raise Infra("whmodel died (stack overflow or crash) on request near %r" % (lines[k][:300],))
            out.append(json.loads(line))
        th.join()
        self.calls += len(reqs)
        return out

    def close(self):
        try:
            self.p.stdin.close(); self.p.wait(timeout=10)
        except Exception:
            self.p.kill()


# ------------------------------------------------------------------------------------------------
# known findings
# ------------------------------------------------------------------------------------------------

def load_known(prop):
    known = []
    path = os.path.join(VERIF, "KNOWN_FINDINGS.txt")
    if os.path.exists(path):
        for line in open(path):
            line = line.strip()
            m = re.match(r"known:\s+property=(\S+)\s+key=(\S+)\s+(.*)", line)
            if m and m.group(1) == prop:
                known.append((m.group(2), m.group(3)))
    return known


# ------------------------------------------------------------------------------------------------
# context
# ------------------------------------------------------------------------------------------------

def anchor_hashes(prop, repo):
    """sha256 per anchored source file of the property (from properties.jsonl), in the tree being checked"""
    out = {}
    for line in open(os.path.join(VERIF, "properties.jsonl")):
        pr = json.loads(line)
        if pr["id"] == prop:
            for f in pr["anchors"]["files"]:
                fp = os.path.join(repo, f)
                out[f] = hashlib.sha256(open(fp, "rb").read()).hexdigest()[:16] if os.path.exists(fp) else None
    return out


def anchors_changed(prop, repo):
    """anchored files whose content differs from the baseline recorded in harness/anchors.json (the tree the
    models were written and validated against). NOT an alarm: it only enlarges the search (ctx.scale)."""
    path = os.path.join(VERIF, "harness", "anchors.json")
    if not os.path.exists(path):
        return []
    base = json.load(open(path)).get(prop, {})
    cur = anchor_hashes(prop, repo)
    return sorted(f for f in cur if base.get(f) != cur[f])


class Ctx:
    def __init__(self, prop, tier, seed, overlay, replay=None):
        self.prop, self.tier, self.seed, self.overlay, self.replay = prop, tier, seed, overlay, replay
        self.rng = random.Random(seed)
        self.quick = tier == "quick"
        self.t0 = time.time()
        self.n_eval = 0
        self.keys = set()
        self.samples = []
        self.hist = collections.defaultdict(collections.Counter)
        self.fails = []        # (what, case, key)
        self.disagreements = []  # (op, case, impl, model)
        self.observations = collections.Counter()
        self.traces_validated = 0
        self.extra = {}
        self._model = None
        self.scale = 1          # multiplied into case counts by property modules
        self.escalated = False

    # -- resources
    @property
    def model(self):
        if self._model is None:
            self._model = Model()
        return self._model

    def time_left(self, total):
        """seconds left of a self-imposed budget `total` (for loops that scale with time)"""
        return total - (time.time() - self.t0)

    def corpus(self):
        d = os.path.join(VERIF, "corpus", self.prop)
        out = []
        for f in sorted(glob.glob(os.path.join(d, "*.json"))):
            out.append((os.path.basename(f), json.load(open(f))))
        return out

    def workdir(self):
        d = os.path.join(os.environ.get("WHVERIF_CACHE", "/var/tmp/whatshap-verif"), "work", f"{self.prop}-{os.getpid()}")
        os.makedirs(d, exist_ok=True)
        return d

    # -- reporting
    def evaluated(self, n=1):
        self.n_eval += n

    def nontrivial(self, key):
        self.keys.add(key if isinstance(key, (str, int, tuple)) else json.dumps(key, sort_keys=True))

    def sample(self, obj, limit=4):
        if len(self.samples) < limit:
            self.samples.append(obj)

    def dist(self, name, value):
        self.hist[name][str(value)] += 1

    def fail(self, what, case, key=None):
        self.fails.append((what, case, key or what))
        if len(self.fails) == 1:
            # keep the first failure where the supervisor finds it: if the implementation (whose state may already be
            # corrupt) kills the interpreter later in the run, this case is the replay
            self.inflight({"first_failure": what, "key": key or what, "case": case})
            self._inflight_frozen = True

    def disagree(self, op, case, impl, model):
        self.disagreements.append((op, case, impl, model))

    def observe(self, text):
        self.observations[text] += 1

    def validated(self, n=1):
        self.traces_validated += n

    def inflight(self, case):
        """record the case about to be handed to in-process implementation code that may abort the interpreter
        (C++ assert / segfault); the supervisor turns such a death into a VIOLATION with this case as replay"""
        if getattr(self, "_inflight_frozen", False):
            return
        self.last_inflight = case
        path = os.environ.get("WHVERIF_INFLIGHT")
        if path:
            with open(path, "w") as f:
                json.dump(case, f, default=str)


def guarded_run(module, ctx):
    """module.run(ctx); an exception that escapes it is either the implementation's (a frame of whatshap / a .pyx file is
    on the traceback: the real code raised on an input the check considers valid and the check did not expect it) -> a
    property-level failure with the in-flight case as replay, or the harness's own -> infrastructure error (False)."""
    import traceback
    try:
        module.run(ctx)
        return True
    except Infra:
        raise
    except subprocess.TimeoutExpired as e:
        # a `whatshap` subprocess did not finish in the time the harness allows (inputs are small: seconds on the unchanged
        # tree).  Typical cause on a changed tree: a coverage cap that is no longer enforced (2^coverage table rows).
        cmd = " ".join(str(a) for a in (e.cmd if isinstance(e.cmd, (list, tuple)) else [e.cmd]))
        ctx.fail(f"`{cmd[-400:]}` did not finish within {e.timeout:.0f} s on an input the check treats as small",
                 {"in_flight": getattr(ctx, "last_inflight", None), "command": cmd}, key="cli-timeout")
        return True
    except Exception as e:
        tb = traceback.extract_tb(e.__traceback__)
        impl = any(f.filename.endswith((".pyx", ".pxd")) or ("/whatshap/" in f.filename and "/harness/" not in f.filename) for f in tb)
        text = "".join(traceback.format_exception(type(e), e, e.__traceback__))
        if not impl:
            print("[infra] the check itself raised:\n" + text, file=sys.stderr)
            return False
        where = next((f"{os.path.basename(f.filename)}:{f.lineno} {f.name}" for f in reversed(tb)
                      if f.filename.endswith((".pyx", ".pxd")) or "/whatshap/" in f.filename), "?")
        ctx.fail(f"the implementation raised {type(e).__name__}: {str(e)[:200]} at {where} on an input the check treats as valid",
                 {"in_flight": getattr(ctx, "last_inflight", None), "traceback": text[-1500:]},
                 key="unexpected-exception-" + type(e).__name__)
        return True


def run_check(prop, tier, seed, module, replay=None, level="proof", need_overlay=True):
    """The decision procedure of DESIGN §2. Returns the exit code."""
    from . import wsbuild
    t0 = time.time()
    os.makedirs(os.path.join(OUTROOT, "evidence"), exist_ok=True)
    os.makedirs(os.path.join(OUTROOT, "replays"), exist_ok=True)
    try:
        try:
            overlay = wsbuild.ensure() if need_overlay else None
        except wsbuild.BuildError as e:
            print("[infra] whatshap does not build from the working tree:\n" + str(e), file=sys.stderr)
            return 2
        if overlay and os.environ.get("WHVERIF_OVERLAY") != overlay:
            # re-exec with the overlay first on the path so `import whatshap` is the working tree
            env = dict(os.environ, WHVERIF_OVERLAY=overlay, PYTHONPATH=overlay + os.pathsep + VERIF)
            os.execve(sys.executable, [sys.executable] + sys.argv, env)
        if os.environ.get("WHVERIF_WORKER") != "1":
            return supervise(prop, tier, seed, level, t0)
        proof = lean_build(prop, thorough=(tier == "thorough" and os.environ.get("VERIF_LEANCHECKER", "1") == "1"))
        if not proof.get("build_ok"):
            print("[infra] lean build/audit failed:\n" + proof.get("build_log", ""), file=sys.stderr)
            return 2
        ctx = Ctx(prop, tier, seed, overlay, replay)
        ctx.proof = proof
        changed = anchors_changed(prop, wsbuild.REPO)
        ctx.extra["anchors_changed"] = changed
        if changed and not replay:
            ctx.scale = 3   # the anchored code moved since the model was validated: search harder
        if not guarded_run(module, ctx):
            return 2
        if ctx.disagreements and not ctx.fails and not replay:
            # correspondence broke but no property failure yet: enlarged failing-input search
            # (DESIGN §2 step 4): same module, 4x the sizes, fresh seed; counters accumulate
            ctx.scale = 4
            ctx.rng = random.Random(seed * 7919 + 17)
            ctx.escalated = True
            if not guarded_run(module, ctx):
                return 2
        if ctx._model:
            ctx._model.close()
    except Infra as e:
        print("[infra] " + str(e), file=sys.stderr)
        return 2

    known = load_known(prop)
    new_fails, known_hits = [], collections.OrderedDict()
    for what, case, key in ctx.fails:
        k = next(((kk, txt) for kk, txt in known if kk == key), None)
        if k:
            known_hits[k] = known_hits.get(k, 0) + 1
        else:
            new_fails.append((what, case, key))
    proof_ok = (not proof["forbidden_hits"]) and (not proof["bad_axioms"]) and proof.get("leanchecker_ok", True)
    rc = 0
    lines = []
    for (kk, txt), n in known_hits.items():
        lines.append(f"KNOWN-FINDING: property={prop} key={kk} {txt} (seen {n}x in this run)")
    replay_path = None
    if new_fails:
        what, case, key = new_fails[0]
        replay_path = os.path.join(OUTROOT, "replays", f"{prop}-{tier}-{seed}.json")
        json.dump({"property": prop, "kind": "property-predicate-failed-on-implementation", "what": what, "key": key,
                   "case": case, "n_failures": len(new_fails),
                   "other_failures": [{"what": w, "key": k} for w, _, k in new_fails[1:20]]},
                  open(replay_path, "w"), indent=1, default=str)
        lines.append(f"VIOLATION property={prop} replay={replay_path}")
        rc = 1
    elif ctx.disagreements or not proof_ok:
        replay_path = os.path.join(OUTROOT, "replays", f"{prop}-{tier}-{seed}.json")
        if ctx.disagreements:
            op, case, impl, model = ctx.disagreements[0]
            body = {"kind": "correspondence-broken", "correspondence": op, "case": case, "implementation": impl,
                    "model": model, "n_disagreements": len(ctx.disagreements),
                    "note": "model and implementation differ on this input; the property predicate itself did not fail "
                            "on any explored input, so the property is no longer shown to hold"}
        else:
            body = {"kind": "proof-audit-failed", "forbidden": proof["forbidden_hits"], "bad_axioms": proof["bad_axioms"],
                    "leanchecker_ok": proof.get("leanchecker_ok")}
        json.dump(dict(property=prop, **body), open(replay_path, "w"), indent=1, default=str)
        lines.append(f"VIOLATION property={prop} replay={replay_path} no-failing-input-found")
        rc = 1

    thm_names = [t["name"] for t in proof["theorems"]]
    cov = {
        "obligations": proof["obligations"],
        "discharged": proof["obligations"] if proof_ok else 0,
        "checker_cmd": f"cd lean && lake build WhVerif && lake env lean --run Audit.lean WhVerif.Props.{prop}"
                       + (" && lake env leanchecker WhVerif.Props." + prop if "leanchecker_ok" in proof else ""),
        "trusted_base": [
            "Lean 4.33.0 kernel" + (" + leanchecker re-check" if proof.get("leanchecker_ok") else ""),
            "axioms used by the property theorems: " + ", ".join(sorted({a for t in proof["theorems"] for a in t["axioms"]}) or ["none"]),
            "hand-written Lean model of the anchored code (lean/WhVerif/Model), tied to /repo only by the correspondence run below",
            "harness/ (generators, serialisation, pysam/htslib), compiled whmodel (Lean compiler + C toolchain)",
        ],
        "theorems": thm_names,
        "lemmas_used": proof["lemmas_used"],
        "evaluations": ctx.n_eval,
        "distinct_nontrivial": len(ctx.keys),
        "rule": getattr(module, "RULE", ""),
        "samples": ctx.samples[:4] or thm_names[:4],
        "traces_validated_against_impl": ctx.traces_validated,
        "model_calls": ctx._model.calls if ctx._model else 0,
        "input_distribution": {k: dict(v.most_common(12)) for k, v in ctx.hist.items()},
        "property_failures": len(ctx.fails),
        "known_findings_seen": {kk: n for (kk, _), n in known_hits.items()},
        "correspondence_disagreements": len(ctx.disagreements),
        "observations": dict(ctx.observations),
        "exhaustive": bool(ctx.extra.pop("exhaustive", False)),
    }
    cov.update(ctx.extra)
    if level != "proof":
        cov["explanation"] = getattr(module, "EXPLANATION", "")
    ev = {
        "property_id": prop, "tier": tier, "seed": seed, "level": level, "coverage": cov,
        "assumptions": getattr(module, "ASSUMPTIONS", []),
        "wall_s": round(time.time() - t0, 2),
        "violations": len(new_fails) + (1 if (rc == 1 and not new_fails) else 0),
    }
    json.dump(ev, open(os.path.join(OUTROOT, "evidence", f"{prop}.json"), "w"), indent=1, default=str)
    for l in lines:
        print(l)
    print(f"[{prop}] tier={tier} seed={seed} evaluations={ctx.n_eval} distinct_nontrivial={len(ctx.keys)} "
          f"theorems={len(thm_names)} failures={len(ctx.fails)} disagreements={len(ctx.disagreements)} "
          f"wall={time.time()-t0:.1f}s rc={rc}")
    return rc


def supervise(prop, tier, seed, level, t0):
    """run the actual check in a child process; if the implementation kills the interpreter (abort, segfault)
    report that as a violation with the in-flight case as replay instead of dying silently"""
    infl = os.path.join(os.environ.get("WHVERIF_CACHE", "/var/tmp/whatshap-verif"), "work", f"inflight-{prop}-{os.getpid()}.json")
    os.makedirs(os.path.dirname(infl), exist_ok=True)
    if os.path.exists(infl):
        os.remove(infl)
    env = dict(os.environ, WHVERIF_WORKER="1", WHVERIF_INFLIGHT=infl)
    r = subprocess.run([sys.executable] + sys.argv, env=env)
    rc = r.returncode
    try:
        if rc in (0, 1, 2):
            return rc
        case = None
        if os.path.exists(infl):
            try:
                case = json.load(open(infl))
            except Exception:
                case = None
        replay_path = os.path.join(OUTROOT, "replays", f"{prop}-{tier}-{seed}.json")
        what = "the implementation aborted / crashed the Python interpreter on this input"
        if isinstance(case, dict) and "first_failure" in case:
            what = ("the implementation crashed the Python interpreter later in the run; first property failure before that: "
                    + str(case["first_failure"]))
            case = case.get("case")
        json.dump({"property": prop, "kind": "implementation-crashed-the-interpreter", "returncode": rc,
                   "what": what, "key": "crash", "case": case}, open(replay_path, "w"), indent=1, default=str)
        known = load_known(prop)
        ev = {"property_id": prop, "tier": tier, "seed": seed, "level": level,
              "coverage": {"evaluations": 1, "distinct_nontrivial": 0, "samples": [case], "rule": "run aborted by a crash of the implementation",
                           "explanation": "the implementation crashed the interpreter; see replay", "obligations": 0, "discharged": 0,
                           "checker_cmd": "n/a (crash)", "trusted_base": []},
              "wall_s": round(time.time() - t0, 2), "violations": 1}
        json.dump(ev, open(os.path.join(OUTROOT, "evidence", f"{prop}.json"), "w"), indent=1, default=str)
        if any(k == "crash" for k, _ in known):
            print(f"KNOWN-FINDING: property={prop} key=crash " + next(t for k, t in known if k == "crash"))
            return 0
        print(f"VIOLATION property={prop} replay={replay_path}" + ("" if case is not None else " no-failing-input-found"))
        return 1
    finally:
        if os.path.exists(infl):
            os.remove(infl)


# ------------------------------------------------------------------------------------------------
# small helpers for property modules
# ------------------------------------------------------------------------------------------------

def shrink_list(items, still_fails, min_len=0):
    """greedy delta debugging on a list: remove chunks while `still_fails(list)` stays true"""
    items = list(items)
    n = 2
    while len(items) > min_len:
        size = max(1, len(items) // n)
        removed = False
        for i in range(0, len(items), size):
            cand = items[:i] + items[i + size:]
            if len(cand) >= min_len and still_fails(cand):
                items, removed = cand, True
                break
        if removed:
            n = max(n - 1, 2)
        elif size == 1:
            break
        else:
            n = min(n * 2, len(items))
    return items

#!/bin/bash
# MANIFEST.setup_cmd: build everything from files on disk, offline.
set -e
cd "$(dirname "$0")/.."
(cd lean && lake build WhVerif whmodel)
/venv/bin/python harness/wsbuild.py >/dev/null
echo setup-ok

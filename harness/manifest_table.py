HOOK_COMMITS = ["812c50e"]
_PENDING = "not yet claimed: model/theorems/correspondence for this property are still being built (see DESIGN.md §8); no other technique is substituted"
NOT_APPLICABLE = {"C%02d" % i: _PENDING for i in range(1, 21)}
# properties whose check is registered (each harness/props/cXX.py carries its own MANIFEST dict)
CLAIMED = ["C01", "C02", "C07", "C15", "C16", "C18", "C19"]

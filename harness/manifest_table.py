HOOK_COMMITS = ["812c50e"]
_PENDING = "not yet claimed: model/theorems/correspondence for this property are still being built (see DESIGN.md §8); no other technique is substituted"
NOT_APPLICABLE = {"C%02d" % i: _PENDING for i in range(1, 21)}
# properties whose check is registered (each harness/props/cXX.py carries its own MANIFEST dict)
CLAIMED = ["C01", "C02", "C03", "C04", "C05", "C06", "C07", "C08", "C09", "C10", "C11", "C12", "C13", "C14", "C15", "C16", "C17", "C18", "C19", "C20"]

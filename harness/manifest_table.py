HOOK_COMMITS = []
_PENDING = "not yet claimed: model/theorems/correspondence for this property are still being built (see DESIGN.md §8); no other technique is substituted"
NOT_APPLICABLE = {"C%02d" % i: _PENDING for i in range(1, 21)}
CHECKS = {
    "C18": dict(
        text="Lean 4 theorems about an exact model of the binary heap (with its position map) and of the union-find: "
             "every history refines the abstract priority map / partition; the model is tied to the working tree by "
             "running identical histories through the real PriorityQueue/ComponentFinder and the compiled model "
             "(equal outputs) and by an independent abstract-spec oracle on the implementation's outputs",
        design_ref="DESIGN.md §5 C18",
        note="trusted: Lean kernel, axioms ⊆ {propext, Classical.choice, Quot.sound}; the hand-written model "
             "(correspondence is differential testing: quick 9 000 random histories, thorough +exhaustive small spaces); "
             "misuse histories (duplicate push, change_score of absent item) are outside the contract",
        technique="Lean 4 refinement proof (heap ⊑ priority map, union-find = min of class) + differential correspondence",
    ),
}

#!/venv/bin/python
"""Regenerates /verif/MANIFEST.json from the table below (kept in one place so it stays valid)."""
import json, os, sys
VERIF = os.path.dirname(os.path.dirname(os.path.abspath(__file__)))
sys.path.insert(0, os.path.join(VERIF, "harness"))
sys.path.insert(0, VERIF)
import importlib
from manifest_table import CLAIMED, NOT_APPLICABLE, HOOK_COMMITS  # noqa
CHECKS = {}
for pid in CLAIMED:
    mod = importlib.import_module("harness.props." + pid.lower())
    CHECKS[pid] = mod.MANIFEST

ALL = ["C%02d" % i for i in range(1, 21)]
checks = []
for pid in ALL:
    if pid not in CHECKS:
        continue
    c = CHECKS[pid]
    checks.append({
        "property_id": pid,
        "quick_cmd": f"harness/check.py {pid} --tier quick",
        "thorough_cmd": f"harness/check.py {pid} --tier thorough",
        "evidence_file": f"/verif/evidence/{pid}.json",
        "replay_cmd_template": f"harness/check.py {pid} --replay {{path}}",
        "engine": "lean4-model+correspondence",
        "level_claimed": {"category": c.get("category", "proof"), "text": c["text"], "design_ref": c["design_ref"]},
        "level_note": c["note"],
        "technique": c["technique"],
    })
na = [{"property_id": p, "reason": NOT_APPLICABLE[p]} for p in ALL if p not in CHECKS]
m = {
    "version": 1,
    "setup_cmd": "harness/setup.sh",
    "hooks": {
        "guard": "WHATSHAP_VERIF_TRACE",
        "enable": "checks run the working tree through an overlay (harness/wsbuild.py) and set WHATSHAP_VERIF_TRACE=<file> for `whatshap phase` runs; unset = hook code is skipped",
        "baseline_off_cmd": "cd /repo && env -u WHATSHAP_VERIF_TRACE /venv/bin/python -m pytest -ra -q -p no:cacheprovider --timeout=900 --continue-on-collection-errors",
        "source_commits": HOOK_COMMITS,
        "add_only": True,
    },
    "engines": [{
        "name": "lean4-model+correspondence",
        "path": "/verif/lean (theorems, models, whmodel driver) + /verif/harness (correspondence, oracles)",
        "serves_properties": [c["property_id"] for c in checks],
        "kind_free_text": "machine-checked proof in Lean 4 about hand-written executable models; models tied to /repo's working tree on every run by differential correspondence through a JSON line protocol",
    }],
    "checks": checks,
    "not_applicable": na,
    "notes": "See DESIGN.md. Exit codes: 0 held, 1 VIOLATION, 2 infrastructure (compile error in /repo, lake failure).",
}
json.dump(m, open(os.path.join(VERIF, "MANIFEST.json"), "w"), indent=1)
print("wrote MANIFEST.json with", len(checks), "checks;", len(na), "not_applicable")

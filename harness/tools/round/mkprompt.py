#!/usr/bin/env python3
# usage: mkprompt.py Cxx letter  -> writes /var/tmp/r10/prompt-Cxx.txt
import json, sys, glob, os, subprocess
pid, letter = sys.argv[1], sys.argv[2]
wt = f"/tmp/seed-{pid}-{letter}"
prev = []
for d in sorted(glob.glob(f"/verif/seeded/{pid}-*")):
    try:
        m = json.load(open(d + "/meta.json"))
    except Exception:
        continue
    s = (m.get("summary") or "").replace("\n", " ")
    prev.append(f"  * {os.path.basename(d)}: {s[:260]}")
hint = ("Earlier testers already produced the changes listed below for this same property; yours must differ from ALL of them in mechanism, site AND trigger. "
        "Look beyond the obvious core function: glue code between stages, option handling, state carried across loop iterations / chromosomes / samples / calls, "
        "rarely taken branches, numeric limits, object lifetime and re-use, interaction of two options, text/encoding corner cases of the file formats. "
        "The compiled extension modules are ALREADY present in your worktree (copied from an identical build of the unchanged source), so a rebuild is only needed if you change C++/Cython sources. "
        "Earlier changes:\n" + "\n".join(prev) + "\n")
out = subprocess.run(["python3", "/verif/harness/tools/breaker_prompt.py", pid, wt, hint], capture_output=True, text=True, check=True).stdout
open(f"/var/tmp/r10/prompt-{pid}.txt", "w").write(out)
print(pid, letter, len(out))

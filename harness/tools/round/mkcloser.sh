#!/bin/bash
# usage: mkcloser.sh <tag e.g. P19> <Cxx> <seed-id> [extra text file]
TAG=$1; P=$2; S=$3; EXTRA=${4:-/dev/null}
WT=/var/tmp/wt/$TAG
cd /verif
git worktree add -q -b wt-$TAG $WT HEAD || exit 1
cp -r /verif/lean/.lake $WT/lean/.lake
mkdir -p $WT/seeded/$S && cp /verif/seeded/$S/* $WT/seeded/$S/ 2>/dev/null
cat > /var/tmp/r10/closer-$TAG.txt <<EOT
You are a *builder* ("closer") in a Lean-4 verification effort for the tool WhatsHap (source in /repo, READ-ONLY for you).
Your property is $P. Your working directory is the git worktree $WT (branch wt-$TAG) of the verification repository /verif; work ONLY
inside $WT (and scratch under /var/tmp/wv-$TAG, which you delete at the end). Never edit /repo or /verif directly. A compiled Lean build
(.lake) has been copied in, so \`cd $WT/lean && lake build WhVerif whmodel\` is incremental.

Read first: $WT/harness/CONVENTIONS.md (rules, files you own, how to build/run), the $P block of $WT/DESIGN.md §5 (grep "^### $P"),
$WT/notes/$P.md, the property text in $WT/properties.jsonl, harness/props/${P,,}.py and the Lean files of $P.

SITUATION. An independent tester produced a realistic change to WhatsHap that BREAKS property $P while the test suite stays green:
$WT/seeded/$S/ (patch.diff, demo*.py, meta.json: what it does and what it needs to manifest; confirm.txt: my confirmation). Our check
\`harness/check.py $P --tier quick\` run against the patched tree (\`harness/tools/seedtest.sh seeded/$S/patch.diff $P\`, which applies the
patch to a scratch clone and runs the check with WHATSHAP_REPO) did NOT report it: a blind spot of the generators / oracles / model scope.

YOUR TASK. Close the blind spot *in general*, not for this one patch: work out which class of inputs / operation sequences / option
combinations / code the check never exercises or never judges (the seed is one representative of that class), and extend
 (a) the generators and the independent oracle in harness/props/${P,,}.py (+ harness/gen/${P,,}_*.py) so that this class is generated routinely
     and judged by the PROPERTY PREDICATE itself (ctx.fail with a specific key) — the seeded change must then be reported as
     "VIOLATION property=$P replay=…" WITH a failing input (not merely as a model disagreement), in the quick tier, for VERIF_SEED=0,1,2;
 (b) the Lean side where the class touches code that is not yet modelled: bring that code into Model/$P*.lean as coded, add a driver op and
     a correspondence comparison, and state + prove at least one new theorem in Props/$P.lean (namespace WhVerif.Props.$P, with a non-vacuity
     example) that expresses why the unchanged code is right on this class (for ALL inputs; no sorry/axioms/native_decide);
 (c) add 1–2 minimised corpus cases (corpus/$P/*.json) of the new class.
The check must stay clean on the unchanged tree (exit 0, no VIOLATION, VERIF_SEED=1,2,3) and quick must stay under ~3 min. Demand exactly
what the property text states, no more. Then try 2 further small mutations of the same region of code in a scratch clone
(git clone -q /repo /var/tmp/wv-$TAG/repo; WHATSHAP_REPO=… harness/check.py $P --tier quick) and make sure they are reported too.
If, while doing this, the UNCHANGED code turns out to violate the property on a concrete input of the new class, that is a genuine
finding: report it faithfully (do not hide it): write fixes/<id>.patch (minimal repair), describe it in notes, and tell me.
$(cat $EXTRA)
Write up: a section "Round 10 (seed $S)" in notes/$P.md (blind spot, what was added, theorem names, results of seedtest for seeds 0,1,2,
mutations) and one table row for DESIGN §8 in notes/${P}_round10_row.md: "| $S | <change (what it needs to manifest)> | missed | $P: <what was added> |".
Commit in your worktree (\`git add -A && git commit -m "$P: …"\`), only your own files. The machine is shared with ~25 jobs; be patient.
You have about 50 minutes. Final message (short): commit hash, blind spot, what was added (streams, oracle keys, model/theorems), seedtest
results, mutations, findings.
EOT
echo "$TAG $P $S ok"

#!/bin/bash
# usage: mkdeep.sh <tag e.g. N02> <Cxx> <target-file>
TAG=$1; P=$2; TGT=$3
WT=/var/tmp/wt/$TAG
cd /verif
git worktree add -q -b wt-$TAG $WT HEAD || exit 1
cp -r /verif/lean/.lake $WT/lean/.lake
cat > /var/tmp/r10/deep-$TAG.txt <<EOT
You are a *builder* continuing a Lean-4 verification effort for the tool WhatsHap (source in /repo, READ-ONLY for you).
Your property is $P. Your working directory is the git worktree $WT (branch wt-$TAG) of the verification repository /verif;
work ONLY inside $WT (and scratch under /var/tmp/wv-$TAG, which you delete at the end). Never edit /repo or /verif directly.
A compiled Lean build (.lake) has been copied in, so \`cd $WT/lean && lake build WhVerif whmodel\` is incremental.

Read first, fully: $WT/harness/CONVENTIONS.md (rules, files you own, how to build/run, what run(ctx) must do). Then the $P block
of $WT/DESIGN.md §5 (grep "^### $P"), §0-§3 of DESIGN.md, $WT/notes/$P.md, the property text in $WT/properties.jsonl, and the
existing Lean files for $P (lean/WhVerif/{Model,Spec,Lemmas,Props,Driver}/$P*.lean) and harness/props/${P,,}.py. Everything for $P exists
and passes already; this round is a DEEPENING round: bring more of the real code inside the Lean model, prove more theorems about
it (for ALL inputs, by induction / invariants / refinement; no sorry, no axioms, no native_decide), and tie the new model parts to the
real code through new correspondence ops in the driver + harness. Do not weaken or rename existing theorems; add to them.

YOUR TARGET FOR THIS ROUND
$(cat $TGT)

Rules of the round:
- Model the code as it IS (read the anchored source in /repo carefully, including error paths); where model and code disagree, the model is wrong
  unless the property text says otherwise. New executable model functions must get a driver op ("${P,,}.<name>") and be compared with the REAL code
  on generated inputs in harness/props/${P,,}.py (extend generators if the new parts need new input shapes); every new theorem goes into
  lean/WhVerif/Props/$P.lean in namespace WhVerif.Props.$P with a non-vacuity example for its hypotheses; helper lemmas into Lemmas/.
- If a full statement cannot be proved in the time, keep the full statement in a comment, prove the strongest part as \`…_partial\` and say what is missing.
- The check must stay clean on the unchanged tree: run \`harness/check.py $P --tier quick\` with VERIF_SEED=1,2,3 at the end (exit 0, no VIOLATION line)
  and keep quick under ~3 min. The machine is shared with ~25 other jobs: be patient with timings, do not run thorough more than once.
- After it is clean, try at least 3 small plausible mutations of the newly modelled code in a scratch clone (git clone -q /repo /var/tmp/wv-$TAG/repo;
  WHATSHAP_REPO=... harness/check.py $P --tier quick) and make sure each one that breaks the property gives a VIOLATION; list them in notes/$P.md.
- If you find a genuine defect of the unchanged code (the property as stated fails on a concrete input against the real code), report it faithfully:
  write fixes/<id>.patch (minimal), model both behaviours, and describe it in notes/$P.md; do not hide it.
- Update notes/$P.md (new section "Round 10 deepening": model scope added, new theorems, what is compared, what remains unproved) and write a
  replacement text for the $P block of DESIGN.md §5 into notes/${P}_design_block.md (same format as the existing block: Model / Theorems / Check /
  Findings / Mutations; keep it as dense as the existing one, and update the theorem count).
- Commit early and often in your worktree (\`git add -A && git commit -m "$P: …"\`), only your own files. You have about 75 minutes; stop adding new
  goals after ~60 and make sure everything builds, the check is clean and everything is committed.
Final message (short): commit hash, new theorem names with one line each, new driver ops and what they are compared with, quick runtime,
mutations tried/caught, findings, and anything left unfinished.
EOT
echo "$TAG $P ok"

#!/usr/bin/env python3
"""integrate the builders' DESIGN blocks and the round-10 seed table into /verif/DESIGN.md"""
import re, glob, os, sys
D = "/verif/DESIGN.md"
s = open(D).read()
# 1. per-property blocks
for f in sorted(glob.glob("/verif/notes/C??_design_block.md")):
    pid = os.path.basename(f)[:3]
    new = open(f).read().strip() + "\n\n"
    m = re.search(r"^### %s — .*?(?=^### C\d\d — |^-{20,})" % pid, s, re.S | re.M)
    if not m:
        print("no block for", pid); continue
    old = m.group(0)
    if not new.startswith("### "):
        head = old.split("\n", 1)[0]
        new = head + "\n" + new
    if len(new) < 0.5 * len(old):
        print("SKIP suspiciously short block", pid, len(new), len(old)); continue
    s = s.replace(old, new)
    print("block", pid, len(old), "->", len(new))
# 2. tenth round table
rows = open("/var/tmp/r10/rows-caught.md").read().strip().split("\n")
for f in sorted(glob.glob("/verif/notes/C??_round10_row.md")):
    for l in open(f).read().strip().split("\n"):
        if l.startswith("| C"):
            rows.append(l.strip())
extra = "/var/tmp/r10/rows-extra.md"
if os.path.exists(extra):
    rows += [l for l in open(extra).read().strip().split("\n") if l.startswith("| C")]
seen = {}
for r in rows:
    seen[r.split("|")[1].strip()] = r
rows = [seen[k] for k in sorted(seen)]
table = ("Tenth round (20 seeds; the testers were told every earlier mechanism of their property and pointed at glue, options, state carried\n"
         "across iterations, numeric limits, object lifetime and file-format corner cases):\n\n"
         "| seed | change (what it needs to manifest) | first result | now |\n|------|------------------------------------|--------------|-----|\n"
         + "\n".join(rows) + "\n\n")
if "Tenth round" not in s:
    anchor = "Of 149 independent seeds"
    assert anchor in s
    s = s.replace(anchor, table + anchor)
else:
    s = re.sub(r"Tenth round \(20 seeds.*?\n\n(?=Of \d+ independent)", table, s, flags=re.S)
open(D, "w").write(s)
print("rows", len(rows))

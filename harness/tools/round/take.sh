#!/bin/bash
# take.sh <seed-id> [extra checks]: copy seed_out -> seeded/<id>, confirm, run checks
S=$1; shift; P=${S%%-*}
cd /verif
mkdir -p seeded/$S && cp /tmp/seed-$S/seed_out/patch.diff /tmp/seed-$S/seed_out/meta.json seeded/$S/ && cp /tmp/seed-$S/seed_out/demo*.py seeded/$S/ || { echo "$S incomplete"; exit 1; }
harness/tools/confirm_seed.sh seeded/$S $P "$@" > /var/tmp/r10/take-$S.log 2>&1
echo "== $S"; cat seeded/$S/confirm.txt

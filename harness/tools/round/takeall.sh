#!/bin/bash
# take every finished seed that has not been taken yet (3 at a time)
cd /verif
todo=()
for d in /tmp/seed-C??-?; do
  S=${d#/tmp/seed-}
  [ -f $d/seed_out/patch.diff ] && [ -f $d/seed_out/meta.json ] && ls $d/seed_out/demo*.py >/dev/null 2>&1 || continue
  [ -f seeded/$S/confirm.txt ] && continue
  [ -f /var/tmp/r10/taking-$S ] && continue
  touch /var/tmp/r10/taking-$S
  todo+=($S)
done
printf '%s\n' "${todo[@]}" | xargs -r -P 3 -n 1 /var/tmp/r10/take.sh

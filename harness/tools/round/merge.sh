#!/bin/bash
# merge.sh <TAG> <Cxx> [seed-id]: merge branch wt-TAG into /verif main, rebuild, run quick check + seedtest
TAG=$1; P=$2; S=$3
cd /verif
git -C /var/tmp/wt/$TAG status --short | head -5
git merge -q --no-edit -X ours wt-$TAG 2>&1 | tail -3 || { echo MERGE-FAILED; exit 1; }
(cd lean && lake build WhVerif whmodel 2>&1 | tail -3)
VERIF_SEED=1 harness/check.py $P --tier quick 2>&1 | grep -E "VIOLATION|KNOWN|^\[" | head -5
if [ -n "$S" ]; then harness/tools/seedtest.sh seeded/$S/patch.diff $P 2>&1 | grep -E "^==|VIOL" | sed 's/replay=.*//' | tr '\n' ' '; echo; fi
# regression: all seeds of the property against the merged check (background, log in /var/tmp/r10/matrix-$P.log)
nohup harness/tools/seedmatrix.sh $(ls seeded | grep "^$P-" | grep -v -E "^C16-(a|e)$") > /var/tmp/r10/matrix-$P.log 2>&1 &

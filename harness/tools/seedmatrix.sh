#!/bin/bash
# usage: seedmatrix.sh [seed-id ...]   runs every seeded change (default: all under seeded/) against the check of its
# property (scratch clone via seedtest.sh, 4 in parallel) and prints one line per seed; C16-a is obsolete (fix F17).
cd "$(dirname "$0")/../.."
IDS="${@:-$(ls seeded | grep -v -E "^C16-(a|e)$")}"
for s in $IDS; do echo "$s"; done | xargs -P 4 -I{} bash -c 's={}; p=${s%%-*}; r=$(harness/tools/seedtest.sh seeded/$s/patch.diff $p 2>&1 | grep -E "^== |PATCH DOES NOT|^VIOLATION" | sed -e "s/replay=.*json//" | tr "\n" " "); echo "$s $r"'

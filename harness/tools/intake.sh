#!/bin/bash
# usage: intake.sh <seed-id> [check...]   copies /tmp/seed-<id>/seed_out into seeded/<id>/ and runs the given checks
# (default: the property of the id) against it
S=$1; shift
P=${S%%-*}
CHK="${@:-$P}"
cd /verif
mkdir -p seeded/$S && cp /tmp/seed-$S/seed_out/{patch.diff,meta.json} seeded/$S/ && cp /tmp/seed-$S/seed_out/demo*.py seeded/$S/ || { echo "$S: seed_out incomplete"; exit 1; }
for c in $CHK; do echo "$S/$c: $(harness/tools/seedtest.sh seeded/$S/patch.diff $c 2>&1 | grep -E '^==|VIOL' | tr '\n' ' ')"; done

#!/bin/bash
# usage: sweep.sh <tier> <seed>...   runs every claimed check for each seed (4 in parallel), prints rc per run
TIER=$1; shift
cd "$(dirname "$0")/../.."
PROPS=$(python3 -c "import json; print(' '.join(c['property_id'] for c in json.load(open('MANIFEST.json'))['checks']))")
for sd in "$@"; do for p in $PROPS; do echo "$p $sd"; done; done | xargs -P 4 -L 1 bash -c 'VERIF_SEED=$1 harness/check.py $0 --tier '"$TIER"' > /var/tmp/sweep-$0-$1.log 2>&1; echo "$0 seed=$1 rc=$? $(grep -c VIOLATION /var/tmp/sweep-$0-$1.log) $(tail -1 /var/tmp/sweep-$0-$1.log | grep -o "wall=[0-9.]*s")"'

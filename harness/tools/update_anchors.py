#!/venv/bin/python
"""records the content hashes of every property's anchored files at /repo's current state (run after fix commits)"""
import json, os, sys
sys.path.insert(0, os.path.dirname(os.path.dirname(os.path.dirname(os.path.abspath(__file__)))))
from harness import common
out = {}
for line in open(os.path.join(common.VERIF, "properties.jsonl")):
    pid = json.loads(line)["id"]
    out[pid] = common.anchor_hashes(pid, "/repo")
json.dump(out, open(os.path.join(common.VERIF, "harness", "anchors.json"), "w"), indent=1, sort_keys=True)
print("anchors.json updated")

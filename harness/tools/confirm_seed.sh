#!/bin/bash
# usage: confirm_seed.sh seeded/<id> [CHECKS...]
# Independent confirmation of a seeded change: (1) patch applies to /repo HEAD, (2) builds, (3) existing test suite
# passes with it (only the 3 known-bad tests fail), (4) the demonstration fails with it and passes without it,
# (5) the given checks report a VIOLATION on it.  Writes seeded/<id>/confirm.txt.  Uses scratch worktrees under /tmp.
# The compiled extensions of the unchanged tree come from the wsbuild cache (harness/wsbuild.py; /repo's own .so files are
# older than the fix: commits); a patch that touches C++/Cython sources triggers a full rebuild of the scratch worktree.
D=$(readlink -f "$1"); shift
W=/tmp/confirm-$$; R=/tmp/confirm-ref-$$
OUT="$D/confirm.txt"
OV=$(cd /verif && /venv/bin/python harness/wsbuild.py 2>/dev/null | tail -1)
[ -d "$OV/whatshap" ] || OV=$(ls -dt /var/tmp/whatshap-verif/overlay-* | head -1)
{
echo "confirmed at /repo $(git -C /repo rev-parse --short HEAD) on $(date -u +%FT%TZ)"
git -C /repo worktree add -q --detach "$W" HEAD || exit 2
git -C /repo worktree add -q --detach "$R" HEAD || exit 2
(cd "$OV" && find . -name '*.so' -exec cp --parents {} "$W/" \; -exec cp --parents {} "$R/" \;)
cd "$W"
if git apply "$D/patch.diff"; then echo "patch applies: yes"; else echo "patch applies: NO"; fi
if git status --short | grep -qE '\.(cpp|h|pyx|pxd)$|setup\.py'; then
  find . -name '*.so' -delete
  SETUPTOOLS_SCM_PRETEND_VERSION=0.0.seed /venv/bin/python setup.py build_ext --inplace -j 16 > /tmp/confirm-build-$$.log 2>&1 && echo "builds: yes (compiled sources changed, rebuilt)" || { echo "builds: NO"; tail -5 /tmp/confirm-build-$$.log; }
  rm -f /tmp/confirm-build-$$.log
else
  PYTHONPATH="$W" /venv/bin/python -c "import whatshap.core, whatshap.cli.phase" && echo "builds: yes (python only; extensions of the unchanged tree)" || echo "builds: NO"
fi
PYTHONPATH="$W" /venv/bin/python -m pytest -q -p no:cacheprovider --timeout=900 -q tests > /tmp/confirm-t-$$.log 2>&1
echo "test suite with change: $(grep -E "[0-9]+ (passed|failed)" /tmp/confirm-t-$$.log | tail -1)"
F=$(grep ^FAILED /tmp/confirm-t-$$.log | grep -v test_vcf_with_missing_headers | head -5); rm -f /tmp/confirm-t-$$.log
[ -z "$F" ] && echo "unexpected test failures: none" || echo "unexpected test failures: $F"
mkdir -p "$W/seed_out" && cp "$D"/demo*.py "$W/seed_out/"
DEMO=$(ls "$W"/seed_out/demo*.py | head -1)   # demos locate test data relative to their own path in the worktree
( cd "$W" && PYTHONPATH="$W" timeout 900 /venv/bin/python "$DEMO" > /dev/null 2>&1 ); echo "demo with change: exit $?"
( cd /tmp && PYTHONPATH="$R" timeout 900 /venv/bin/python "$DEMO" > /dev/null 2>&1 ); echo "demo without change: exit $?"
cd /verif
git -C /repo worktree remove --force "$W"; git -C /repo worktree remove --force "$R"
for P in "$@"; do
  X=$(harness/tools/seedtest.sh "$D/patch.diff" "$P" 2>&1 | grep -E "^== |VIOLATION" | tr '\n' ' ')
  echo "check $P on change: $X"
done
} > "$OUT" 2>&1
cat "$OUT"

#!/bin/bash
# usage: confirm_seed.sh seeded/<id> [CHECKS...]
# Independent confirmation of a seeded change: (1) patch applies to /repo HEAD, (2) builds, (3) existing test suite
# passes with it (only the 3 known-bad tests fail), (4) the demonstration fails with it and passes without it,
# (5) the given checks report a VIOLATION on it.  Writes seeded/<id>/confirm.txt.  Uses a scratch worktree under /tmp.
D=$(readlink -f "$1"); shift
W=/tmp/confirm-$$
OUT="$D/confirm.txt"
{
echo "confirmed at /repo $(git -C /repo rev-parse --short HEAD) on $(date -u +%FT%TZ)"
git -C /repo worktree add -q --detach "$W" HEAD || exit 2
cd "$W"
if git apply "$D/patch.diff"; then echo "patch applies: yes"; else echo "patch applies: NO"; fi
SETUPTOOLS_SCM_PRETEND_VERSION=0.0.seed /venv/bin/python setup.py build_ext --inplace -j 16 > /tmp/confirm-build-$$.log 2>&1 && echo "builds: yes" || { echo "builds: NO"; tail -5 /tmp/confirm-build-$$.log; }
rm -f /tmp/confirm-build-$$.log
T=$(PYTHONPATH="$W" /venv/bin/python -m pytest -q -p no:cacheprovider --timeout=900 -q tests 2>&1 | tail -1)
echo "test suite with change: $T"
F=$(PYTHONPATH="$W" /venv/bin/python -m pytest -q -p no:cacheprovider --timeout=900 -q tests 2>&1 | grep ^FAILED | grep -v test_vcf_with_missing_headers | head -5)
[ -z "$F" ] && echo "unexpected test failures: none" || echo "unexpected test failures: $F"
mkdir -p "$W/seed_out" && cp "$D"/demo*.py "$W/seed_out/"
DEMO=$(ls "$W"/seed_out/demo*.py | head -1)   # demos locate test data relative to their own path in the worktree
( cd "$W" && PYTHONPATH="$W" timeout 900 /venv/bin/python "$DEMO" > /dev/null 2>&1 ); echo "demo with change: exit $?"
( cd /tmp && PYTHONPATH=/repo timeout 900 /venv/bin/python "$DEMO" > /dev/null 2>&1 ); echo "demo without change: exit $?"
cd /verif
git -C /repo worktree remove --force "$W"
for P in "$@"; do
  R=$(harness/tools/seedtest.sh "$D/patch.diff" "$P" 2>&1 | grep -E "^== |VIOLATION" | tr '\n' ' ')
  echo "check $P on change: $R"
done
} > "$OUT" 2>&1
cat "$OUT"

#!/bin/bash
# usage: seedtest.sh <patch.diff> <Cxx> [more Cxx...]   (env VERIF_SEED, TIER=quick|thorough)
# Applies the patch to a scratch clone of /repo (so that /repo itself is never disturbed while builders use it),
# runs the given checks against it via WHATSHAP_REPO, prints rc per check, removes the clone.  Evidence and replays of
# these runs go to /var/tmp/mut/out (never into /verif/evidence, which only holds runs against /repo itself).
set -u
PATCH=$(readlink -f "$1"); shift
S=/var/tmp/mut/repo-$$
rm -rf "$S"; mkdir -p /var/tmp/mut
git clone -q /repo "$S" || exit 2
if ! git -C "$S" apply "$PATCH"; then echo "PATCH DOES NOT APPLY"; rm -rf "$S"; exit 2; fi
cd "$(dirname "$(readlink -f "$0")")/../.."
for P in "$@"; do
  WHATSHAP_REPO="$S" WHVERIF_OUTROOT=/var/tmp/mut/out harness/check.py "$P" --tier "${TIER:-quick}" > /var/tmp/mut/out-$$-$P.txt 2>&1
  rc=$?
  echo "== $P rc=$rc"; grep -E "^VIOLATION|^KNOWN-FINDING|^\[C[0-9]" /var/tmp/mut/out-$$-$P.txt | head -8
  rm -f /var/tmp/mut/out-$$-$P.txt
done
rm -rf "$S"

#!/usr/bin/env python3
"""prints the prompt for a 'breaker' sub-agent: property text + scratch worktree only (nothing from /verif)"""
import json, sys
pid, wt = sys.argv[1], sys.argv[2]
hint = sys.argv[3] if len(sys.argv) > 3 else ""
p = next(json.loads(l) for l in open("/verif/properties.jsonl") if json.loads(l)["id"] == pid)
print(f"""You are testing how robust a verification effort is. Below is a semantic property of the open-source tool WhatsHap (read-based haplotype phasing). Your job: make a small, realistic change to WhatsHap's source that BREAKS this property while the project still compiles and its existing test suite still passes, and demonstrate the breakage.

PROPERTY {pid}: {p['title']}
{p['statement']}
Quantified over: {p['quantifier']['text']}
Code that is meant to make it hold (anchors): {', '.join(p['anchors']['files'])}

Your workspace: {wt} — a scratch git worktree of the WhatsHap repository (work ONLY there; never touch /repo or /verif, and do not read anything under /verif). Python is /venv/bin/python (whatshap is installed there in editable mode pointing at /repo, so ALWAYS run with `cd {wt} && PYTHONPATH={wt} /venv/bin/python ...` so that your worktree's code is used; verify with `python -c "import whatshap; print(whatshap.__file__)"`). If you change C++/Cython sources (src/*.cpp, *.pyx) rebuild inside the worktree first: `cd {wt} && SETUPTOOLS_SCM_PRETEND_VERSION=0.0.seed /venv/bin/python setup.py build_ext --inplace -j 16` (about 1.5 min; needed once even for pure-Python changes because the worktree has no compiled extensions yet). No network.

Requirements for the change:
- It must be the kind of bug a developer could plausibly introduce (refactoring slip, off-by-one, wrong tie-break, missing update on a rarely taken path, swapped arguments, wrong default, stale state across loop iterations, ...), small (a few lines), and must NOT be exposed by ordinary use at once: it should need something specific to manifest — an unusual input shape, a particular multi-step sequence of operations, a rarely taken branch, a specific size/threshold, or two cooperating sites that each look fine alone. {hint}
- The existing test suite must still pass with the change: `cd {wt} && PYTHONPATH={wt} /venv/bin/python -m pytest -q -p no:cacheprovider --timeout=900 -x -q tests` (3 tests named test_vcf_with_missing_headers[*] fail even without any change; ignore those; about 40 s; run it!).
- Write a demonstration `demo.py` (or demo_test.py) in {wt}/seed_out/ — a small standalone program using the public API or the CLI that exits non-zero / fails WITH the change and passes WITHOUT it (check both; for the run WITHOUT the change use /repo's unmodified code: `cd /tmp && PYTHONPATH=/repo /venv/bin/python <demo>`; never use `git stash`: the stash is shared by all worktrees of the repository and other people work in sibling worktrees), and that shows the property (as stated above) being violated — not merely that some output differs.
Deliverables in {wt}/seed_out/: `patch.diff` (`git diff` of your source change only, applicable with `git apply` at the repository root), the demo, and `meta.json` with keys: property, summary (what the change does), needs (what is needed for it to manifest), files_changed, demo_cmd, test_suite_result. Do not commit. Final answer: a short summary of the change, what it needs to manifest, and the exact commands you ran with their outcomes.""")

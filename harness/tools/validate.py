#!/opt/veriftools/pyvenv/bin/python
"""validates MANIFEST.json and evidence/*.json against the given schemas"""
import json, sys, glob, jsonschema
ok = True
try:
    jsonschema.validate(json.load(open('/verif/MANIFEST.json')), json.load(open('/root/.vp/MANIFEST.schema.json')))
except Exception as e:
    ok = False; print("MANIFEST invalid:", str(e)[:300])
sch = json.load(open('/root/.vp/EVIDENCE.schema.json'))
for f in sorted(glob.glob('/verif/evidence/*.json')):
    try:
        jsonschema.validate(json.load(open(f)), sch)
    except Exception as e:
        ok = False; print(f, "invalid:", str(e)[:300])
print("valid" if ok else "INVALID")
sys.exit(0 if ok else 1)

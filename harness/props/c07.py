"""C07 — read selection never exceeds the coverage cap and leaves no admissible read out.

Library level: `whatshap.readselect.readselection(readset, k, preferred_source_ids, bridging)` on generated
ReadSets.  Oracle (independent, Python; cross-checked by the executable Lean spec `c07.spec`): the result is a
subset of the read indices, no variant of the read set is spanned (first..last covered variant) by more than k
selected reads, and every read left out spans a variant that is already spanned by k selected reads.
Correspondence: for small inputs the implementation's index set must be a member of the Lean model's
`allOutcomes` (all tie choices of the abstract priority queue); ValueError for reads with < 2 variants.

Pipeline level: `whatshap phase` on simulated data with depth above the cap; from the trace hook, per
(chromosome, family): selected reads per sample are candidates of that sample, obey the per-sample cap
max(1, k // len(family)) and are maximal, and the reads handed to the solver span no accessible position more
than --internal-downsampling = k times in total (families of at most k members).
"""
import contextlib, io, json, os, shutil

from harness.gen import c07_reads as G

RULE = ("read sets whose reads cover >= 2 strictly increasing variant positions (intervals with holes, duplicates, "
        "equal scores), caps k in 1..23, with/without preferred sources and bridging; plus malformed sets (a read with "
        "< 2 variants). A case is non-trivial if at least one read is rejected by the coverage test (selected != all "
        "reads) and at least one is selected; distinct = distinct (reads, k, bridging, preferred) tuple. Pipeline cases: "
        "distinct (seed-derived) simulated scenarios in which at least one sample had reads discarded by the selection")
MANIFEST = dict(
    text="Lean 4 theorems (all read sets, all k, all tie choices of an abstract priority queue) about a hand-written "
         "model of readselection/readselection_helper/_slice_read_selection/CovMonitor: subset, cap invariant, "
         "termination with proved fuel bounds, maximality of the repaired code (and a machine-checked witness that the "
         "code with defect F9 is not maximal), per-family total cap. The model is tied to the working tree by requiring "
         "the implementation's result to be one of the model's enumerated outcomes (proved to be exactly the outcomes of the "
         "verified function over all tie choices: allOutcomes_sound / allOutcomes_complete) on small inputs, and the property "
         "predicates are evaluated independently on the implementation's output for all sizes and on `whatshap phase` traces",
    design_ref="DESIGN.md §5 C07, §6 F9",
    note="trusted: Lean kernel, axioms ⊆ {propext, Classical.choice, Quot.sound}; the hand-written model "
         "(correspondence is differential testing; exhaustive tie enumeration only for <= 9 reads); positions instead of "
         "variant indices (order isomorphism) and the coverage array as the history of add_read calls are modelling choices",
    technique="Lean 4 invariant proofs over a fuel-bounded functional model + differential correspondence + property oracle",
)
ASSUMPTIONS = [
    "reads handed to readselection are sorted by position without duplicate positions (guaranteed by Read/ReadSet in the "
    "pipeline); unsorted reads are outside the contract (model answers `misuse`, never sent to the implementation)",
    "heap layout / CPython set order are abstracted: the model admits every maximal-score entry at each pop",
    "pipeline statement is for the default exact algorithm (`--algorithm whatshap`), read merging off, families of at most k members",
]

KEY_MAXIMAL_PREF = "maximal-with-preferred-sources"


# ------------------------------------------------------------------------------------------------
# implementation and oracle
# ------------------------------------------------------------------------------------------------

def build_readset(case):
    from whatshap.core import Read, ReadSet
    rs = ReadSet()
    for i, (pos, qual, pref) in enumerate(case["reads"]):
        r = Read(f"r{i}", 50, 1 if pref else 0, 0)
        for p, q in zip(pos, qual):
            r.add_variant(p, 0, q)
        rs.add(r)
    return rs


def preferred_arg(case):
    if any(r[2] for r in case["reads"]):
        return {1}
    return None if case.get("pref_none", True) else {7}


def run_impl(case):
    from whatshap.readselect import readselection
    rs = build_readset(case)
    try:
        with contextlib.redirect_stdout(io.StringIO()):   # the code print()s the offending read
            sel = readselection(rs, case["k"], preferred_arg(case), case["bridging"])
    except ValueError:
        return "ValueError"
    return sorted(int(i) for i in sel)


def spans(read, p):
    return read[0][0] <= p <= read[0][-1]


def oracle(reads, k, sel):
    """property predicates on an index collection `sel`; returns list of (key, text).
    A maximality failure gets the key of defect F9 only if F9 can explain it: under F9 the coverage monitor is
    at most (true span count + span count of the selected preferred reads, which are added a second time);
    if the left-out read is not saturated even under that upper bound the failure is something else."""
    out = []
    n = len(reads)
    bad = [i for i in sel if not (0 <= i < n)]
    if bad or len(set(sel)) != len(sel):
        out.append(("subset", f"result {sel} is not a set of read indices in 0..{n - 1}"))
        return out
    positions = sorted({p for r in reads for p in r[0]})
    cnt = {p: 0 for p in positions}
    for i in sel:
        for p in positions:
            if spans(reads[i], p):
                cnt[p] += 1
    over = [(p, c) for p, c in cnt.items() if c > k]
    if over:
        out.append(("cap", f"variant at {over[0][0]} is spanned by {over[0][1]} selected reads, cap {k}"))
    s = set(sel)
    for i in range(n):
        if i in s:
            continue
        if not any(spans(reads[i], p) and cnt[p] >= k for p in positions):
            m = max(cnt[p] for p in positions if spans(reads[i], p))
            twice = {p: cnt[p] + sum(1 for j in s if reads[j][2] and spans(reads[j], p)) for p in positions}
            f9 = any(spans(reads[i], p) and twice[p] >= k for p in positions)
            out.append((KEY_MAXIMAL_PREF if f9 else "maximal",
                        f"read {i} left out although every variant it spans is spanned by at most {m} < {k} selected reads"))
            break
    return out


def model_reads(case):
    return [[r[0], r[1], 1 if r[2] else 0] for r in case["reads"]]


def case_key(case):
    return json.dumps([case["reads"], case["k"], case["bridging"]], separators=(",", ":"))


# ------------------------------------------------------------------------------------------------
# library-level driver
# ------------------------------------------------------------------------------------------------

class Lib:
    def __init__(self, ctx):
        self.ctx = ctx
        self.batch = []   # (requests, callback)

    def check(self, case, enumerate_ties, tag):
        ctx = self.ctx
        impl = run_impl(case)
        reads, k = case["reads"], case["k"]
        has_pref = any(r[2] for r in reads)
        ctx.evaluated()
        ctx.dist("n_reads", len(reads) if len(reads) < 10 else (len(reads) // 10) * 10)
        ctx.dist("k", k)
        ctx.dist("kind", tag + ("+pref" if has_pref else "") + ("+bridging" if case["bridging"] else ""))
        short = any(len(r[0]) < 2 for r in reads)
        if short:
            if impl != "ValueError":
                ctx.fail(f"read with < 2 variants accepted (result {impl})", {"lib": case}, key="short-read-accepted")
        elif impl == "ValueError":
            ctx.fail("ValueError although every read covers >= 2 variants", {"lib": case}, key="spurious-valueerror")
        else:
            fails = oracle(reads, k, impl)
            for key, text in fails:
                ctx.fail(f"readselection: {text}", {"lib": case}, key=key)
            if 0 < len(impl) < len(reads):
                ctx.nontrivial(case_key(case))
            ctx.dist("selected_fraction", round(len(impl) / max(1, len(reads)), 1))
            ctx.sample({"case": case, "impl_selected": impl}, limit=3)
        reqs = [{"op": "c07.spec", "reads": model_reads(case), "k": k, "selected": impl if impl != "ValueError" else []}]
        if enumerate_ties:
            reqs.append({"op": "c07.outcomes", "reads": model_reads(case), "k": k, "bridging": case["bridging"], "fixed": True})
            if has_pref:
                reqs.append({"op": "c07.outcomes", "reads": model_reads(case), "k": k, "bridging": case["bridging"], "fixed": False})
        self.batch.append((reqs, case, impl, short))
        if len(self.batch) >= 200:
            self.flush()

    def flush(self):
        ctx = self.ctx
        if not self.batch:
            return
        flat = [r for reqs, *_ in self.batch for r in reqs]
        answers = ctx.model.ask_many(flat)
        pos = 0
        for reqs, case, impl, short in self.batch:
            ans = answers[pos:pos + len(reqs)]
            pos += len(reqs)
            if impl != "ValueError" and not short:
                py = oracle(case["reads"], case["k"], impl)
                lean = ans[0]
                pyflags = {"subset": not any(k == "subset" for k, _ in py), "cap": not any(k == "cap" for k, _ in py),
                           "maximal": not any(k in ("maximal", KEY_MAXIMAL_PREF) for k, _ in py)}
                if pyflags["subset"] and lean != pyflags:
                    ctx.disagree("c07.spec", {"lib": case}, pyflags, lean)
            if len(reqs) > 1:
                fixed_out = ans[1]["outcomes"]
                asis_out = ans[2]["outcomes"] if len(reqs) > 2 else fixed_out
                ctx.dist("n_outcomes", len(fixed_out))
                ctx.dist("tie_paths", min(ans[1]["paths"], 20))
                in_fixed, in_asis = impl in fixed_out, impl in asis_out
                if len(reqs) > 2:
                    ctx.dist("preferred_model_variant", "both" if in_fixed and in_asis else "repaired" if in_fixed
                             else "as-is(F9)" if in_asis else "neither")
                if not (in_fixed or in_asis):
                    ctx.disagree("c07.outcomes", {"lib": case}, impl, {"repaired": fixed_out, "as_is": asis_out})
        self.batch.clear()


def shrink_lib_failure(case, key):
    """delta-debug the reads of a failing library case (same failure key)"""
    from harness.common import shrink_list

    def still(reads):
        if not reads:
            return False
        c = dict(case, reads=reads)
        impl = run_impl(c)
        if impl == "ValueError":
            return False
        return key in {k for k, _ in oracle(reads, c["k"], impl)}
    try:
        return dict(case, reads=shrink_list(case["reads"], still, min_len=1))
    except Exception:
        return case


# ------------------------------------------------------------------------------------------------
# pipeline level
# ------------------------------------------------------------------------------------------------

def read_tuple(r):
    return (r["name"], r["sample_id"], tuple(v[0] for v in r["variants"]))


def check_trace_record(ctx, rec, case):
    """the per-family statement on one trace record"""
    k = rec["max_coverage"]
    fam = rec["family"]
    kps = rec["max_coverage_per_sample"]
    if kps != max(1, k // len(fam)):
        ctx.fail(f"per-sample cap {kps} != max(1, {k} // {len(fam)})", case, key="pipeline-per-sample-cap")
    discarded = False
    union = []
    for s in fam:
        c = rec["candidates"][s]
        cand = [read_tuple(r) for r in c["reads"]]
        sel = [read_tuple(r) for r in c["selected"]]
        union += sel
        cand_left = list(cand)
        idx = []
        ok = True
        for t in sel:
            if t in cand_left:
                j = cand.index(t)
                while j in idx:  # duplicate names: next occurrence
                    j = cand.index(t, j + 1)
                idx.append(j); cand_left.remove(t)
            else:
                ok = False
        if not ok:
            ctx.fail(f"sample {s}: a selected read is not among the sample's candidate reads", case, key="pipeline-subset")
            continue
        prefs = set(c["preferred_source_ids"] or [])
        reads = [[list(t[2]), [0] * len(t[2]), 1 if r["source_id"] in prefs else 0] for t, r in zip(cand, c["reads"])]
        for key, text in oracle(reads, kps, sorted(idx)):
            ctx.fail(f"whatshap phase, sample {s}, {rec['chromosome']}: {text}", case, key="pipeline-" + key)
        if prefs and any(r[2] for r in reads):
            ctx.dist("pipeline_preferred_reads", min(5, sum(r[2] for r in reads)))
        if len(sel) < len(cand):
            discarded = True
        ctx.dist("pipeline_selected_fraction", round(len(sel) / max(1, len(cand)), 1))
    allr = sorted(read_tuple(r) for r in rec["all_reads"])
    if allr != sorted(union):
        ctx.fail("reads handed to the solver are not the union of the per-sample selections", case, key="pipeline-union")
    if len(fam) <= k:
        for q in rec["accessible_positions"]:
            n = sum(1 for t in allr if t[2][0] <= q <= t[2][-1])
            if n > k:
                ctx.fail(f"whatshap phase, family {','.join(fam)}, {rec['chromosome']}: accessible position {q} is spanned by "
                         f"{n} reads handed to the solver, --internal-downsampling {k}", case, key="pipeline-total-cap")
                break
    ctx.validated()
    return discarded


def pipeline_case(rng, idx):
    """parameters of one simulated `whatshap phase` run (JSON-able, replayable: everything derives from `seed`)"""
    ns = rng.choice([1, 1, 2, 3])
    trio = ns == 3 and rng.random() < 0.7
    k = rng.choice([2, 3, 4, 5, 6]) if ns < 3 else rng.choice([3, 4, 5, 6, 7])
    # a third of the non-trio runs also get a phased VCF as read input (pseudo reads from a preferred source)
    return {"seed": rng.randrange(1 << 30), "n_samples": ns, "trio": trio, "k": k,
            "depth": [k + 2, 3 * k + 6], "n_variants": [4, 14], "idx": idx,
            "phased_input": (not trio) and rng.random() < 0.35}


def run_pipeline_case(ctx, pc):
    import random
    from harness.gen import sim
    rng = random.Random(pc["seed"])
    samples = ["S1", "S2", "S3"][:pc["n_samples"]]
    sc = sim.Scenario(rng, n_contigs=rng.choice([1, 2]), contig_len=(500, 1100), n_variants=tuple(pc["n_variants"]),
                      samples=samples, depth=tuple(pc["depth"]), read_len=(60, 350), min_gap=20)
    if pc["trio"]:
        # make the child Mendelian-consistent: child hap0 from S1 (father), hap1 from S2 (mother)
        for name in sc.contigs:
            f, m = sc.haps[("S1", name)], sc.haps[("S2", name)]
            sc.haps[("S3", name)] = (list(f[rng.randrange(2)]), list(m[rng.randrange(2)]))
        # reads of S3 were drawn from the old haplotypes: re-draw them
        sc.reads = [r for r in sc.reads if r["sample"] != "S3"]
        rid = 10 ** 6
        for name, seq in sc.contigs.items():
            L = len(seq)
            d = rng.randrange(pc["depth"][0], pc["depth"][1] + 1)
            for _ in range(max(1, int(d * L / 205))):
                rl = rng.randrange(60, 351)
                st = rng.randrange(0, max(1, L - rl))
                h = rng.randrange(2)
                hr = sim.hap_read(seq, sc.variants[name], sc.haps[("S3", name)][h], st, min(L, st + rl))
                if hr is None:
                    continue
                start, cigar, q, covered = hr
                rid += 1
                sc.reads.append({"name": f"r{rid}_S3_h{h}", "chrom": name, "start": start, "cigar": cigar, "seq": q,
                                 "rg": "rg_S3", "sample": "S3", "hap": h, "covered": covered, "mapq": 60})
    d = os.path.join(ctx.workdir(), f"p{pc['idx']}")
    try:
        fa, bam, vcf = sc.write(d)
        args = ["phase", "--reference", fa, "-o", os.path.join(d, "out.vcf"), "--internal-downsampling", pc["k"]]
        if pc["trio"]:
            ped = os.path.join(d, "fam.ped")
            with open(ped, "w") as f:
                f.write("F1 S3 S1 S2 0 1\n")
            args += ["--ped", ped]
        args += [vcf, bam]
        if pc.get("phased_input"):
            # first pass: phase with a generous cap; its output is then an additional (preferred) read source
            first = os.path.join(d, "first.vcf")
            rc0, _, err0, _ = sim.whatshap(["phase", "--reference", fa, "-o", first, vcf, bam], ctx.overlay)
            if rc0 == 0:
                args.append(first)
        rc, out, err, recs = sim.whatshap(args, ctx.overlay, trace=os.path.join(d, "trace.jsonl"))
        case = {"pipeline": pc}
        ctx.evaluated()
        ctx.dist("pipeline_kind", f"{pc['n_samples']} sample(s)" + (" trio" if pc["trio"] else "")
                 + (" +phased VCF input" if pc.get("phased_input") else ""))
        if rc != 0:
            ctx.observe("whatshap phase failed on a simulated scenario: " + err.strip().splitlines()[-1][:200] if err.strip() else "rc!=0")
            return
        disc = False
        for rec in recs:
            if rec.get("algorithm") != "whatshap":
                continue
            ctx.dist("pipeline_family_size", len(rec["family"]))
            disc |= check_trace_record(ctx, rec, case)
        if disc:
            ctx.nontrivial("pipeline:%d" % pc["seed"])
    finally:
        shutil.rmtree(d, ignore_errors=True)


# ------------------------------------------------------------------------------------------------

def run(ctx):
    rng = ctx.rng
    lib = Lib(ctx)

    def one(case):
        if "pipeline" in case:
            run_pipeline_case(ctx, case["pipeline"])
        else:
            c = case.get("lib", case)
            lib.check(c, len(c["reads"]) <= 9, "corpus")

    if ctx.replay:
        one(json.load(open(ctx.replay))["case"])
        lib.flush()
        shutil.rmtree(ctx.workdir(), ignore_errors=True)
        return
    for _, c in ctx.corpus():
        one(c)
    lib.flush()

    n_before = len(ctx.fails)
    n_small = (5000 if ctx.quick else 40000) * ctx.scale
    for _ in range(n_small):
        lib.check(G.small_case(rng, 8 if ctx.quick else 9), True, "small")
    for _ in range((200 if ctx.quick else 1000) * ctx.scale):
        lib.check(G.malformed_case(rng), True, "malformed")
    for _ in range((1000 if ctx.quick else 8000) * ctx.scale):
        lib.check(G.medium_case(rng), False, "medium")
    for _ in range((500 if ctx.quick else 3000) * ctx.scale):
        lib.check(G.large_case(rng), False, "large")
    lib.flush()
    if not ctx.quick and not ctx.escalated:
        for _ in range(20):
            lib.check(G.large_case(rng, 10), False, "huge")
        lib.flush()
        cnt = 0
        for case in G.exhaustive_cases(max_reads=3, npos=4):
            lib.check(case, True, "exhaustive"); cnt += 1
        for case in G.exhaustive_cases(max_reads=4, npos=3, ks=(1, 2, 3)):
            if len(case["reads"]) == 4:
                lib.check(case, True, "exhaustive"); cnt += 1
        for case in G.exhaustive_cases(max_reads=4, npos=4, ks=(1, 2, 3), quals=(1,)):
            if len(case["reads"]) == 4:
                lib.check(case, True, "exhaustive"); cnt += 1
        lib.flush()
        ctx.extra["exhaustive_read_sets"] = cnt
        ctx.extra["exhaustive"] = True

    # shrink the first new library failure of every key so that the replay is small
    seen = set()
    for i in range(n_before, len(ctx.fails)):
        what, case, key = ctx.fails[i]
        if "lib" in case and key not in seen and len(case["lib"]["reads"]) > 6:
            seen.add(key)
            small = shrink_lib_failure(case["lib"], key)
            if len(small["reads"]) < len(case["lib"]["reads"]):
                impl = run_impl(small)
                texts = [t for k, t in oracle(small["reads"], small["k"], impl) if k == key]
                if texts:
                    ctx.fails[i] = ("readselection: " + texts[0] + " (shrunk)", {"lib": small}, key)

    n_pipe = (24 if ctx.quick else 120) * ctx.scale
    for i in range(n_pipe):
        run_pipeline_case(ctx, pipeline_case(rng, i))
    shutil.rmtree(ctx.workdir(), ignore_errors=True)

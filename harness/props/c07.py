"""C07 — read selection never exceeds the coverage cap and leaves no admissible read out.

Library level: `whatshap.readselect.readselection(readset, k, preferred_source_ids, bridging)` on generated
ReadSets.  Oracle (independent, Python; cross-checked by the executable Lean spec `c07.spec`): the result is a
subset of the read indices, no variant of the read set is spanned (first..last covered variant) by more than k
selected reads, and every read left out spans a variant that is already spanned by k selected reads.
Correspondence: for small inputs the implementation's index set must be a member of the Lean model's
`allOutcomes` (all tie choices of the abstract priority queue); ValueError for reads with < 2 variants.

Pipeline level: `whatshap phase` on simulated data with depth above the cap; from the trace hook, per
(chromosome, family): selected reads per sample are candidates of that sample, obey the per-sample cap
max(1, k // len(family)) and are maximal, and the reads handed to the solver span no accessible position more
than --internal-downsampling = k times in total (families of at most k members).

Selection stage (Model/C07Pipe.lean): the `len(read) >= 2` filter, the real `select_reads` and `ReadSet.subset` in-process
on read sets with short reads and several sources (candidates, order, selected in the model's outcome set, predicates incl.
"preferred reads first"); whole-run scenarios of harness/gen/c03_pipe.py with caps 0 / negative / 23 / 24: share
`max(1, k // len(family))` = `c07.share`, exact outcome membership for small candidate sets, span counts of the merged read
set = `c07.merged`, no admissible fragment missing among the candidates.

Option glue (harness/gen/c07_opts.py, Model/C07Opts.lean): random command lines over EVERY option of the working tree's
`whatshap phase` parser (hidden / legacy ones, repeated options, unique-prefix abbreviations, short and `=` forms, rejected
combinations, options the documentation does not know).  The reference (`c07_opts.expect`, cross-checked with the Lean op
`c07.validate`) says which command lines are rejected and, for the others, the cap (last --internal-downsampling, default 15),
the mapping-quality threshold, the samples / chromosomes / families processed; the trace predicates are evaluated against
THAT cap, and the candidates against the generated alignments (sample, mapping quality, --only-snvs, completeness).
"""
import contextlib, io, json, os, shutil

from harness.gen import c07_reads as G
from harness.gen import c07_deep as D

RULE = ("read sets whose reads cover >= 2 strictly increasing variant positions (intervals with holes, duplicates, "
        "equal scores), caps k in 1..23, with/without preferred sources and bridging; deep pile-ups (few read types with "
        "multiplicities around the cap) for caps 24..600 around the limits of narrow counters, caps far above any depth (2^15 … 10^30), "
        "operation sequences on the coverage monitor up to depth 70000; plus malformed sets (a read with "
        "< 2 variants). A case is non-trivial if at least one read is rejected by the coverage test (selected != all "
        "reads) and at least one is selected; distinct = distinct (reads, k, bridging, preferred) tuple. Pipeline cases: "
        "distinct (seed-derived) simulated scenarios in which at least one sample had reads discarded by the selection; option "
        "cases: distinct (scenario seed, command line) pairs of accepted command lines in which reads were discarded")
MANIFEST = dict(
    text="Lean 4 theorems (all read sets, all k, all tie choices of an abstract priority queue) about a hand-written "
         "model of readselection/readselection_helper/_slice_read_selection/CovMonitor: subset, cap invariant, "
         "termination with proved fuel bounds, maximality of the repaired code (and a machine-checked witness that the "
         "code with defect F9 is not maximal), per-family total cap, and the selection stage of `whatshap phase` (candidate "
         "filter, integer share, subset order, preferred reads first, merged family read set, table bound, the cap derived from the "
         "command line: last --internal-downsampling, legacy options without effect). The model is tied to the working tree by requiring "
         "the implementation's result to be one of the model's enumerated outcomes (proved to be exactly the outcomes of the "
         "verified function over all tie choices: allOutcomes_sound / allOutcomes_complete) on small inputs, and the property "
         "predicates are evaluated independently on the implementation's output for all sizes and on `whatshap phase` traces",
    design_ref="DESIGN.md §5 C07, §6 F9",
    note="trusted: Lean kernel, axioms ⊆ {propext, Classical.choice, Quot.sound}; the hand-written model "
         "(correspondence is differential testing; exhaustive tie enumeration only for <= 9 reads); positions instead of "
         "variant indices (order isomorphism) and the coverage array as the history of add_read calls are modelling choices",
    technique="Lean 4 invariant proofs over a fuel-bounded functional model + differential correspondence + property oracle",
)
ASSUMPTIONS = [
    "reads handed to readselection are sorted by position without duplicate positions (guaranteed by Read/ReadSet in the "
    "pipeline); unsorted reads are outside the contract (model answers `misuse`, never sent to the implementation)",
    "heap layout / CPython set order are abstracted: the model admits every maximal-score entry at each pop",
    "pipeline statement is for the default exact algorithm (`--algorithm whatshap`), read merging off, families of at most k members",
]

KEY_MAXIMAL_PREF = "maximal-with-preferred-sources"


# ------------------------------------------------------------------------------------------------
# implementation and oracle
# ------------------------------------------------------------------------------------------------

def build_readset(case):
    from whatshap.core import Read, ReadSet
    rs = ReadSet()
    for i, (pos, qual, pref) in enumerate(case["reads"]):
        r = Read(f"r{i}", 50, 1 if pref else 0, 0)
        for p, q in zip(pos, qual):
            r.add_variant(p, 0, q)
        rs.add(r)
    return rs


def preferred_arg(case):
    if any(r[2] for r in case["reads"]):
        return {1}
    return None if case.get("pref_none", True) else {7}


def run_impl(case):
    from whatshap.readselect import readselection
    rs = build_readset(case)
    try:
        with contextlib.redirect_stdout(io.StringIO()):   # the code print()s the offending read
            sel = readselection(rs, case["k"], preferred_arg(case), case["bridging"])
    except ValueError:
        return "ValueError"
    except Exception as e:          # e.g. OverflowError of a cap that a narrowed representation cannot hold
        return "raised:%s: %s" % (type(e).__name__, str(e)[:120])
    return sorted(int(i) for i in sel)


def spans(read, p):
    return read[0][0] <= p <= read[0][-1]


def oracle(reads, k, sel):
    """property predicates on an index collection `sel`; returns list of (key, text).
    A maximality failure gets the key of defect F9 only if F9 can explain it: under F9 the coverage monitor is
    at most (true span count + span count of the selected preferred reads, which are added a second time);
    if the left-out read is not saturated even under that upper bound the failure is something else."""
    out = []
    n = len(reads)
    bad = [i for i in sel if not (0 <= i < n)]
    if bad or len(set(sel)) != len(sel):
        out.append(("subset", f"result {sel} is not a set of read indices in 0..{n - 1}"))
        return out
    positions = sorted({p for r in reads for p in r[0]})
    cnt = {p: 0 for p in positions}
    for i in sel:
        for p in positions:
            if spans(reads[i], p):
                cnt[p] += 1
    over = [(p, c) for p, c in cnt.items() if c > k]
    if over:
        out.append(("cap", f"variant at {over[0][0]} is spanned by {over[0][1]} selected reads, cap {k}"))
    s = set(sel)
    for i in range(n):
        if i in s:
            continue
        if not any(spans(reads[i], p) and cnt[p] >= k for p in positions):
            m = max(cnt[p] for p in positions if spans(reads[i], p))
            twice = {p: cnt[p] + sum(1 for j in s if reads[j][2] and spans(reads[j], p)) for p in positions}
            f9 = any(spans(reads[i], p) and twice[p] >= k for p in positions)
            out.append((KEY_MAXIMAL_PREF if f9 else "maximal",
                        f"read {i} left out although every variant it spans is spanned by at most {m} < {k} selected reads"))
            break
    # preferred reads come first (Props.C07.preferred_first): a preferred read is left out only when k selected PREFERRED
    # reads span one of its variants already
    pcnt = {p: sum(1 for j in s if reads[j][2] and spans(reads[j], p)) for p in positions}
    for i in range(n):
        if reads[i][2] and i not in s and not any(spans(reads[i], p) and pcnt[p] >= k for p in positions):
            out.append(("preferred-first", f"preferred read {i} left out although no variant it spans is spanned by {k} selected "
                                           f"preferred reads"))
            break
    return out


def model_reads(case):
    return [[r[0], r[1], 1 if r[2] else 0] for r in case["reads"]]


def case_key(case):
    return json.dumps([case["reads"], case["k"], case["bridging"]], separators=(",", ":"))


# ------------------------------------------------------------------------------------------------
# library-level driver
# ------------------------------------------------------------------------------------------------

class Lib:
    def __init__(self, ctx):
        self.ctx = ctx
        self.batch = []   # (requests, callback)

    def check(self, case, enumerate_ties, tag, wrap=None):
        """`wrap`: the (compact) case to report instead of {"lib": case}"""
        ctx = self.ctx
        impl = run_impl(case)
        reads, k = case["reads"], case["k"]
        rep = wrap if wrap is not None else {"lib": case}
        has_pref = any(r[2] for r in reads)
        ctx.evaluated()
        ctx.dist("n_reads", len(reads) if len(reads) < 10 else (len(reads) // 10) * 10)
        ctx.dist("k", k if k <= 23 else "24..255" if k < 256 else "256..600" if k <= 600 else "far above any depth")
        ctx.dist("kind", tag + ("+pref" if has_pref else "") + ("+bridging" if case["bridging"] else ""))
        short = any(len(r[0]) < 2 for r in reads)
        if short:
            if impl != "ValueError":
                ctx.fail(f"read with < 2 variants accepted (result {impl})", rep, key="short-read-accepted")
        elif isinstance(impl, str) and impl.startswith("raised:"):
            ctx.fail(f"readselection with cap {k} on {len(reads)} valid reads {impl}", rep, key="exception")
            impl = "ValueError"
        elif impl == "ValueError":
            ctx.fail("ValueError although every read covers >= 2 variants", rep, key="spurious-valueerror")
        else:
            fails = oracle(reads, k, impl)
            for key, text in fails:
                ctx.fail(f"readselection: {text}", rep, key=key)
            if 0 < len(impl) < len(reads):
                ctx.nontrivial(case_key(case))
            ctx.dist("selected_fraction", round(len(impl) / max(1, len(reads)), 1))
            if wrap is None:
                ctx.sample({"case": case, "impl_selected": impl}, limit=3)
            else:
                ctx.dist("deep_max_span_count", _bucket(max_span_count(reads)))
                ctx.sample({"case": wrap, "n_reads": len(reads), "n_selected": len(impl)}, limit=3)
        reqs = [{"op": "c07.spec", "reads": model_reads(case), "k": k, "selected": impl if impl != "ValueError" else []}]
        if enumerate_ties:
            reqs.append({"op": "c07.outcomes", "reads": model_reads(case), "k": k, "bridging": case["bridging"], "fixed": True})
            if has_pref:
                reqs.append({"op": "c07.outcomes", "reads": model_reads(case), "k": k, "bridging": case["bridging"], "fixed": False})
        self.batch.append((reqs, case, impl, short, rep))
        if len(self.batch) >= 200:
            self.flush()

    def flush(self):
        ctx = self.ctx
        if not self.batch:
            return
        flat = [r for reqs, *_ in self.batch for r in reqs]
        answers = ctx.model.ask_many(flat)
        pos = 0
        for reqs, case, impl, short, rep in self.batch:
            ans = answers[pos:pos + len(reqs)]
            pos += len(reqs)
            if impl != "ValueError" and not short:
                py = oracle(case["reads"], case["k"], impl)
                lean = ans[0]
                py = [x for x in py if x[0] != "preferred-first"]
                pyflags = {"subset": not any(k == "subset" for k, _ in py), "cap": not any(k == "cap" for k, _ in py),
                           "maximal": not any(k in ("maximal", KEY_MAXIMAL_PREF) for k, _ in py)}
                if pyflags["subset"] and lean != pyflags:
                    ctx.disagree("c07.spec", rep, pyflags, lean)
            if len(reqs) > 1:
                fixed_out = ans[1]["outcomes"]
                asis_out = ans[2]["outcomes"] if len(reqs) > 2 else fixed_out
                ctx.dist("n_outcomes", len(fixed_out))
                ctx.dist("tie_paths", min(ans[1]["paths"], 20))
                in_fixed, in_asis = impl in fixed_out, impl in asis_out
                if len(reqs) > 2:
                    ctx.dist("preferred_model_variant", "both" if in_fixed and in_asis else "repaired" if in_fixed
                             else "as-is(F9)" if in_asis else "neither")
                if not (in_fixed or in_asis):
                    ctx.disagree("c07.outcomes", rep, impl, {"repaired": fixed_out, "as_is": asis_out})
        self.batch.clear()


def max_span_count(reads):
    """the deepest pile-up of the INPUT: the largest number of reads spanning one variant"""
    positions = sorted({p for r in reads for p in r[0]})
    return max(sum(1 for r in reads if spans(r, p)) for p in positions)


def _bucket(n):
    for lim in (23, 127, 255, 256, 511, 65535):
        if n <= lim:
            return "<=%d" % lim
    return ">65535"


def do_deep(lib, case, tag):
    """a compact deep-pile-up case: judged by the same predicates as every library case"""
    lib.check(D.expand(case["deep"]), False, tag, wrap=case)


def mon_oracle(mon):
    """the meaning of the anchored state `CovMonitor.coverage`: number of add_read calls whose range contains the index;
    computed arithmetically (times x range), not by replaying the calls"""
    cnt = [0] * mon["length"]
    out = []
    for op in mon["ops"]:
        if op[0] == "add":
            for i in range(op[1], op[2]):
                cnt[i] += op[3]
        else:
            out.append(max(cnt[op[1]:op[2]]))
    return out


def do_mon(ctx, case, mon_reqs):
    """operation sequence on the coverage monitor itself.  A tree without this class (or with another interface) is not
    judged here: the stream is then skipped with an observation; readselection is judged by the deep stream anyway."""
    mon = case["mon"]
    try:
        from whatshap.coverage import CovMonitor
        m = CovMonitor(mon["length"])
        m.add_read, m.max_coverage_in_range
    except Exception as e:
        ctx.observe("whatshap.coverage.CovMonitor not usable as (length) / add_read / max_coverage_in_range: %s" % str(e)[:80])
        return
    got = []
    try:
        for op in mon["ops"]:
            if op[0] == "add":
                for _ in range(op[3]):
                    m.add_read(op[1], op[2])
            else:
                v = m.max_coverage_in_range(op[1], op[2])
                got.append(int(v) if v == int(v) else float(v))
    except Exception as e:
        ctx.evaluated()
        ctx.fail(f"coverage monitor raised {type(e).__name__}: {str(e)[:100]} on valid ranges", case, key="covmonitor-exception")
        return
    ctx.evaluated()
    want = mon_oracle(mon)
    depth = max(want) if want else 0
    ctx.dist("mon_depth", _bucket(depth))
    if depth > 23:
        ctx.nontrivial("mon:" + json.dumps(mon, separators=(",", ":")))
    if got != want:
        j = next(i for i in range(len(want)) if got[i] != want[i])
        q = [op for op in mon["ops"] if op[0] == "max"][j]
        ctx.fail(f"coverage monitor: max_coverage_in_range({q[1]}, {q[2]}) = {got[j]} after add_read calls that put {want[j]} reads "
                 f"over a variant in that range: a cap k with {got[j]} < k <= {want[j]} is not enforced", case, key="covmonitor-count")
    mon_reqs.append(({"op": "c07.covmon", "length": mon["length"], "ops": mon["ops"]}, case, got))


def flush_mon(ctx, mon_reqs):
    if not mon_reqs:
        return
    answers = ctx.model.ask_many([r for r, _, _ in mon_reqs])
    for (req, case, got), ans in zip(mon_reqs, answers):
        if ans != got:
            ctx.disagree("c07.covmon", case, got, ans)
        ctx.validated()
    mon_reqs.clear()


def run_deep_stream(ctx, lib):
    """caps above the CLI limit: deep pile-ups around narrow-counter limits, caps far above any depth, the monitor itself"""
    rng = ctx.rng
    mon_reqs = []
    for i in range((70 if ctx.quick else 500) * ctx.scale):
        do_deep(lib, D.deep_case(rng, big=(i % 12 == 11)), "deep")
    for _ in range((300 if ctx.quick else 3000) * ctx.scale):
        lib.check(D.huge_cap_case(rng), False, "cap-far-above-depth")
    lib.flush()
    for i in range((80 if ctx.quick else 600) * ctx.scale):
        do_mon(ctx, D.mon_case(rng, deep=(i % 5 == 4)), mon_reqs)
    flush_mon(ctx, mon_reqs)


def shrink_lib_failure(case, key):
    """delta-debug the reads of a failing library case (same failure key)"""
    from harness.common import shrink_list

    def still(reads):
        if not reads:
            return False
        c = dict(case, reads=reads)
        impl = run_impl(c)
        if impl == "ValueError":
            return False
        return key in {k for k, _ in oracle(reads, c["k"], impl)}
    try:
        return dict(case, reads=shrink_list(case["reads"], still, min_len=1))
    except Exception:
        return case


# ------------------------------------------------------------------------------------------------
# pipeline level
# ------------------------------------------------------------------------------------------------

def read_tuple(r):
    return (r["name"], r["sample_id"], tuple(v[0] for v in r["variants"]))


def check_trace_record(ctx, rec, case, k=None, prefix="pipeline-"):
    """the per-family statement on one trace record.  `k`: the cap the command line promises (the value of the last
    --internal-downsampling, 15 without the option) when the caller knows it; every predicate is then evaluated against
    THAT cap and its share, not against what the run says it used"""
    fam = rec["family"]
    kps = rec["max_coverage_per_sample"]
    if k is None:
        k = rec["max_coverage"]
    kps_traced, kps = kps, max(1, k // len(fam))
    discarded = False
    union = []
    for s in fam:
        c = rec["candidates"][s]
        cand = [read_tuple(r) for r in c["reads"]]
        sel = [read_tuple(r) for r in c["selected"]]
        union += sel
        cand_left = list(cand)
        idx = []
        ok = True
        for t in sel:
            if t in cand_left:
                j = cand.index(t)
                while j in idx:  # duplicate names: next occurrence
                    j = cand.index(t, j + 1)
                idx.append(j); cand_left.remove(t)
            else:
                ok = False
        if not ok:
            ctx.fail(f"sample {s}: a selected read is not among the sample's candidate reads", case, key=prefix + "subset")
            continue
        prefs = set(c["preferred_source_ids"] or [])
        reads = [[list(t[2]), [0] * len(t[2]), 1 if r["source_id"] in prefs else 0] for t, r in zip(cand, c["reads"])]
        for key, text in oracle(reads, kps, sorted(idx)):
            ctx.fail(f"whatshap phase, sample {s}, {rec['chromosome']}: {text}", case, key=prefix + key)
        if prefs and any(r[2] for r in reads):
            ctx.dist("pipeline_preferred_reads", min(5, sum(r[2] for r in reads)))
        if len(sel) < len(cand):
            discarded = True
        ctx.dist("pipeline_selected_fraction", round(len(sel) / max(1, len(cand)), 1))
    allr = sorted(read_tuple(r) for r in rec["all_reads"])
    if allr != sorted(union):
        ctx.fail("reads handed to the solver are not the union of the per-sample selections", case, key=prefix + "union")
    if 1 <= len(fam) <= k:
        for q in rec["accessible_positions"]:
            n = sum(1 for t in allr if t[2][0] <= q <= t[2][-1])
            if n > k:
                ctx.fail(f"whatshap phase, family {','.join(fam)}, {rec['chromosome']}: accessible position {q} is spanned by "
                         f"{n} reads handed to the solver, --internal-downsampling {k}", case, key=prefix + "total-cap")
                break
    if kps_traced != kps:
        ctx.fail(f"per-sample cap {kps_traced} != max(1, {k} // {len(fam)})", case, key=prefix + "per-sample-cap")
    ctx.validated()
    return discarded


def pipeline_case(rng, idx):
    """parameters of one simulated `whatshap phase` run (JSON-able, replayable: everything derives from `seed`)"""
    ns = rng.choice([1, 1, 2, 3])
    trio = ns == 3 and rng.random() < 0.7
    k = rng.choice([2, 3, 4, 5, 6]) if ns < 3 else rng.choice([3, 4, 5, 6, 7])
    # a third of the non-trio runs also get a phased VCF as read input (pseudo reads from a preferred source)
    return {"seed": rng.randrange(1 << 30), "n_samples": ns, "trio": trio, "k": k,
            "depth": [k + 2, 3 * k + 6], "n_variants": [4, 14], "idx": idx,
            "phased_input": (not trio) and rng.random() < 0.35}


def make_trio(sc, rng, depth):
    """S3 becomes the Mendelian-consistent child of S1 (father) and S2 (mother); its reads are re-drawn"""
    from harness.gen import sim
    for name in sc.contigs:
        f, m = sc.haps[("S1", name)], sc.haps[("S2", name)]
        sc.haps[("S3", name)] = (list(f[rng.randrange(2)]), list(m[rng.randrange(2)]))
    # reads of S3 were drawn from the old haplotypes: re-draw them
    sc.reads = [r for r in sc.reads if r["sample"] != "S3"]
    rid = 10 ** 6
    for name, seq in sc.contigs.items():
        L = len(seq)
        d = rng.randrange(depth[0], depth[1] + 1)
        for _ in range(max(1, int(d * L / 205))):
            rl = rng.randrange(60, 351)
            st = rng.randrange(0, max(1, L - rl))
            h = rng.randrange(2)
            hr = sim.hap_read(seq, sc.variants[name], sc.haps[("S3", name)][h], st, min(L, st + rl))
            if hr is None:
                continue
            start, cigar, q, covered = hr
            rid += 1
            sc.reads.append({"name": f"r{rid}_S3_h{h}", "chrom": name, "start": start, "cigar": cigar, "seq": q,
                             "rg": "rg_S3", "sample": "S3", "hap": h, "covered": covered, "mapq": 60})


def run_pipeline_case(ctx, pc):
    import random
    from harness.gen import sim
    rng = random.Random(pc["seed"])
    samples = ["S1", "S2", "S3"][:pc["n_samples"]]
    sc = sim.Scenario(rng, n_contigs=rng.choice([1, 2]), contig_len=(500, 1100), n_variants=tuple(pc["n_variants"]),
                      samples=samples, depth=tuple(pc["depth"]), read_len=(60, 350), min_gap=20)
    if pc["trio"]:
        make_trio(sc, rng, pc["depth"])
    d = os.path.join(ctx.workdir(), f"p{pc['idx']}")
    try:
        fa, bam, vcf = sc.write(d)
        args = ["phase", "--reference", fa, "-o", os.path.join(d, "out.vcf"), "--internal-downsampling", pc["k"]]
        if pc["trio"]:
            ped = os.path.join(d, "fam.ped")
            with open(ped, "w") as f:
                f.write("F1 S3 S1 S2 0 1\n")
            args += ["--ped", ped]
        args += [vcf, bam]
        if pc.get("phased_input"):
            # first pass: phase with a generous cap; its output is then an additional (preferred) read source
            first = os.path.join(d, "first.vcf")
            rc0, _, err0, _ = sim.whatshap(["phase", "--reference", fa, "-o", first, vcf, bam], ctx.overlay)
            if rc0 == 0:
                args.append(first)
        rc, out, err, recs = sim.whatshap(args, ctx.overlay, trace=os.path.join(d, "trace.jsonl"))
        case = {"pipeline": pc}
        ctx.evaluated()
        ctx.dist("pipeline_kind", f"{pc['n_samples']} sample(s)" + (" trio" if pc["trio"] else "")
                 + (" +phased VCF input" if pc.get("phased_input") else ""))
        if rc != 0:
            ctx.observe("whatshap phase failed on a simulated scenario: " + err.strip().splitlines()[-1][:200] if err.strip() else "rc!=0")
            return
        disc = False
        for rec in recs:
            if rec.get("algorithm") != "whatshap":
                continue
            ctx.dist("pipeline_family_size", len(rec["family"]))
            disc |= check_trace_record(ctx, rec, case, k=pc["k"])
        if disc:
            ctx.nontrivial("pipeline:%d" % pc["seed"])
    finally:
        shutil.rmtree(d, ignore_errors=True)


# ------------------------------------------------------------------------------------------------
# the selection stage of `whatshap phase` (candidate filter, select_reads, ReadSet.subset, per-sample share)
# ------------------------------------------------------------------------------------------------

def gen_stage_case(rng, small=True):
    """a sample's read set as PhasedInputReader.read returns it: reads of several sources (source ids of phase-input
    VCFs are the preferred ones), including reads with 0 / 1 variants that the filter of run_whatshap removes"""
    base = G.small_case(rng, 8) if small else G.medium_case(rng)
    n_src = rng.choice([1, 1, 2, 3])
    pref_ids = sorted(rng.sample(range(n_src + 1), rng.choice([0, 0, 1, min(2, n_src)])))
    reads = []
    for pos, qual, _ in base["reads"]:
        reads.append([rng.randrange(n_src + 1) if n_src > 1 else 0, list(pos), list(qual)])
    universe = sorted({p for r in reads for p in r[1]}) or [7]
    for _ in range(rng.choice([0, 0, 1, 2, 3])):
        p = rng.choice(universe)
        short = [rng.randrange(n_src + 1) if n_src > 1 else 0, [p], [rng.choice([0, 7, 30])]] if rng.random() < 0.85 else [0, [], []]
        reads.insert(rng.randrange(len(reads) + 1), short)
    return {"stage": {"reads": reads, "cap": rng.choice([1, 1, 2, 2, 3, 4, 7]), "pref_ids": pref_ids,
                      "pref_none": rng.random() < 0.2}}


def run_stage_impl(st):
    """the statements of run_whatshap's member loop on a real ReadSet: the `len(read) >= 2` filter (that line is copied
    from cli/phase.py, it is not callable), then the real `select_reads`"""
    import logging
    from whatshap.core import Read, ReadSet
    from whatshap.cli.phase import select_reads
    readset = ReadSet()
    for i, (src, pos, qual) in enumerate(st["reads"]):
        r = Read(f"r{i}", 50, src, 0)
        for p, q in zip(pos, qual):
            r.add_variant(p, 0, q)
        readset.add(r)
    keep = [i for i, read in enumerate(readset) if len(read) >= 2]
    cands = readset.subset(keep)
    ids = None if (st.get("pref_none") and not st["pref_ids"]) else set(st["pref_ids"])
    logging.disable(logging.CRITICAL)
    try:
        sel = select_reads(cands, st["cap"], preferred_source_ids=ids)
    finally:
        logging.disable(logging.NOTSET)
    cand_names = [r.name for r in cands]
    return keep, [cand_names.index(r.name) for r in sel], [int(r.name[1:]) for r in sel]


def do_stage(ctx, reqs_out, case, tag):
    st = case["stage"]
    keep, sel_idx, sel_orig = run_stage_impl(st)
    ctx.evaluated()
    reads = st["reads"]
    want_keep = [i for i, r in enumerate(reads) if len(r[1]) >= 2]
    if keep != want_keep:
        ctx.fail(f"candidate filter kept {keep}, the reads with >= 2 variants are {want_keep}", case, key="stage-candidates")
    if any(len(reads[i][1]) < 2 for i in sel_orig):
        ctx.fail("a read covering fewer than two variants was handed on", case, key="stage-short-read-handed-on")
    if sel_idx != sorted(sel_idx):
        ctx.fail(f"selected reads are not in the order of the candidates: {sel_idx}", case, key="stage-order")
    cand = [[reads[i][1], reads[i][2], 1 if reads[i][0] in st["pref_ids"] else 0] for i in want_keep]
    for key, text in oracle(cand, st["cap"], sorted(sel_idx)):
        ctx.fail(f"selection stage: {text}", case, key="stage-" + key)
    n_c = len(cand)
    ctx.dist("stage_kind", tag + ("+pref" if any(c[2] for c in cand) else "") + ("+short" if len(want_keep) < len(reads) else ""))
    if 0 < len(sel_idx) < n_c:
        ctx.nontrivial("stage:" + json.dumps(st, separators=(",", ":")))
    enum = n_c <= 9
    reqs_out.append(({"op": "c07.stage", "reads": reads, "cap": st["cap"], "pref_ids": st["pref_ids"], "enumerate": enum},
                     case, (keep, sorted(sel_idx), enum)))


def flush_stage(ctx, reqs_out):
    if not reqs_out:
        return
    answers = ctx.model.ask_many([r for r, _, _ in reqs_out])
    for (req, case, (keep, sel, enum)), ans in zip(reqs_out, answers):
        if ans.get("candidates") != keep:
            ctx.disagree("c07.stage(candidates)", case, keep, ans.get("candidates"))
        elif enum:
            outs = [o["sel"] for o in ans["outcomes"] if isinstance(o, dict)]
            if sel not in outs:
                ctx.disagree("c07.stage", case, sel, ans["outcomes"])
    reqs_out.clear()


def check_trace_model(ctx, rec, case, reqs_out, share_reqs, k=None):
    """ties of one trace record to the stage model: share, candidates have >= 2 variants, order, exact outcome membership
    for small candidate sets, span counts of the merged read set"""
    fam, kps = rec["family"], rec["max_coverage_per_sample"]
    k = rec["max_coverage"] if k is None else k
    share_reqs.append(({"op": "c07.share", "k": k, "m": len(fam)}, case, kps))
    share_reqs.append(({"op": "c07.accepted", "k": k, "m": len(fam)}, case, True))
    sels = []
    for s in fam:
        c = rec["candidates"][s]
        if any(len(r["variants"]) < 2 for r in c["reads"]):
            ctx.fail(f"sample {s}: a candidate read covers fewer than two variants", case, key="pipeline-short-candidate")
        names = [(r["name"], r["source_id"]) for r in c["reads"]]
        idx = [names.index((r["name"], r["source_id"])) for r in c["selected"]] if len(set(names)) == len(names) else None
        if idx is not None and idx != sorted(idx):
            ctx.fail(f"sample {s}: selected reads are not in candidate order", case, key="pipeline-order")
        prefs = sorted(c["preferred_source_ids"] or [])
        rs = [[r["source_id"], [v[0] for v in r["variants"]], [v[2] for v in r["variants"]]] for r in c["reads"]]
        sels.append([[r["source_id"], [v[0] for v in r["variants"]], [v[2] for v in r["variants"]]] for r in c["selected"]])
        if idx is not None and len(rs) <= 9 and rec.get("algorithm") == "whatshap":
            ctx.dist("pipeline_exact_membership_checked", True)
            reqs_out.append(({"op": "c07.stage", "reads": rs, "cap": kps, "pref_ids": prefs, "enumerate": True},
                             {"trace_stage": {"reads": rs, "cap": kps, "pref_ids": prefs}, "from": case},
                             (list(range(len(rs))), sorted(idx), True)))
    acc = rec["accessible_positions"]
    want = [sum(1 for sel in sels for r in sel if r[1][0] <= q <= r[1][-1]) for q in acc]
    share_reqs.append(({"op": "c07.merged", "selected": sels, "positions": acc}, case, want))


def flush_share(ctx, share_reqs):
    if not share_reqs:
        return
    answers = ctx.model.ask_many([dict(r, op="c07.share") if r["op"] == "c07.accepted" else r for r, _, _ in share_reqs])
    for (req, case, want), ans in zip(share_reqs, answers):
        got = ans.get("cap") if req["op"] == "c07.share" else ans.get("accepted") if req["op"] == "c07.accepted" else ans
        if req["op"] == "c07.validate":
            # the documented interface (Python reference) and the Lean model of add_arguments/validate/main agree
            got = {"accepted": ans.get("accepted"), "cap": ans.get("cap"), "error": ans.get("error")}
        if got != want:
            ctx.disagree(req["op"], case, want, ans)
        ctx.validated()
    share_reqs.clear()


def run_pipe_scenario(ctx, case, reqs_out, share_reqs):
    """a whole-run scenario of harness/gen/c03_pipe.py (several chromosomes / families / read structures / options) with
    caps that include 0, negative values, 23 and the rejected 24"""
    from harness.gen import sim, c03_pipe as P
    d = os.path.join(ctx.workdir(), "pipe")
    shutil.rmtree(d, ignore_errors=True)
    try:
        sc, paths, args, extra = P.build(case["pipe"], d)
        k = case["pipe"]["params"]["cap"]
        rc, so, se, trace = sim.whatshap(["phase", "-o", os.path.join(d, "out.vcf")] + args + [paths["vcf"], paths["bam"]] + extra,
                                         ctx.overlay, trace=os.path.join(d, "trace.jsonl"))
        ctx.evaluated()
        ctx.dist("pipe_cap", k); ctx.dist("pipe_layout", case["pipe"]["params"]["layout"])
        if k > 23:
            if rc == 0 or "must not exceed 23" not in se:
                ctx.fail(f"--internal-downsampling {k} was not rejected (rc {rc})", case, key="pipeline-cap-above-23-accepted")
            share_reqs.append(({"op": "c07.accepted", "k": k, "m": 1}, case, False))
            return
        if rc != 0:
            last = (se.strip().splitlines() or ["?"])[-1][:200]
            if "duplicate read name" in se and case["pipe"]["params"]["dup_names"]:
                ctx.observe("RuntimeError duplicate read name (two family members with a read of the same name)")
            elif "Traceback" in se or rc < 0:
                ctx.fail(f"whatshap phase crashed: {last}", case, key="pipeline-crash")
            else:
                ctx.observe("clean command-line error: " + last[:90])
            return
        disc = False
        check_candidates_complete(ctx, case, sc, trace)
        for rec in trace:
            if rec.get("algorithm") != "whatshap":
                continue
            ctx.dist("pipeline_family_size", len(rec["family"]))
            if rec["max_coverage"] != k:
                ctx.fail(f"traced max_coverage {rec['max_coverage']} is not --internal-downsampling {k}", case, key="pipeline-cap-option")
            if k >= 1:
                disc |= check_trace_record(ctx, rec, case, k=k)
            else:
                # a cap of 0 or below: the per-sample share is 1; the family statement of the property needs k >= 1
                if rec["max_coverage_per_sample"] != 1:
                    ctx.fail(f"--internal-downsampling {k}: per-sample cap {rec['max_coverage_per_sample']}, expected 1", case,
                             key="pipeline-per-sample-cap")
            check_trace_model(ctx, rec, case, reqs_out, share_reqs)
        if disc:
            ctx.nontrivial("pipe:%d" % case["pipe"]["gen_seed"])
    finally:
        shutil.rmtree(d, ignore_errors=True)


def check_candidates_complete(ctx, case, sc, trace):
    """no admissible read is lost BEFORE the selection: a fragment of the sample that spans (with >= 6 bases on either
    side) two SNV positions which occur in candidate reads of that sample (so they are phasable variants) must itself be a
    candidate.  Independent of whatshap: fragments and their reference spans come from the generated BAM records."""
    p = case["pipe"]["params"]
    if p["ignore_rg"] or p["dup_names"] or p["phased_vcf_input"]:
        return
    for rec in trace:
        chrom = rec["chromosome"]
        cc = next(c for c in sc["contigs"] if c["contig"] == chrom)
        snv = {v["pos"] for v in cc["variants"] if len(v["ref"]) == 1 and len(v["alt"]) == 1}
        for s in rec["family"]:
            cands = rec["candidates"][s]["reads"]
            cand_names = {r["name"] for r in cands}
            cand_pos = {v[0] for r in cands for v in r["variants"]} & snv
            frags = {}
            for r in cc["reads"]:
                if r["sample"] != s:
                    continue
                end = r["start"] + sum(n for op, n in r["cigar"] if op in (0, 2))
                frags.setdefault(r["name"], set()).update(q for q in cand_pos if r["start"] + 6 <= q < end - 6)
            n2 = 0
            for name, vs in frags.items():
                if len(vs) >= 2 and name not in cand_names:
                    ctx.fail(f"{chrom}, sample {s}: fragment {name} spans the phasable SNVs at {sorted(vs)[:4]} but is not among the "
                             f"candidates of the selection", case, key="pipeline-candidate-missing")
                    return
                n2 += len(vs) == 2
            ctx.dist("pipeline_fragments_with_exactly_two_variants", min(n2, 10))


def gen_pipe_scenario(rng):
    from harness.gen import c03_pipe as P
    c = P.gen_case(rng)
    p = c["params"]
    p["cap"] = rng.choice([1, 2, 2, 3, 3, 4, 6, 0, -3, 23, 24])
    p["merge_reads"] = False            # selection then works on merged reads the trace does not show as candidates
    p["read_list"] = False
    p["phased_vcf_input"] = rng.random() < 0.35      # pseudo reads of a phase-input VCF are the preferred reads
    if p["cap"] >= 23:
        p["n_variants"] = [6, 10]
    return {"pipe": c}


# ------------------------------------------------------------------------------------------------
# option stream: every option of `whatshap phase` that can influence which reads reach the solver
# (harness/gen/c07_opts.py: hidden / legacy options, repeated options, abbreviations, short forms, rejected combinations)
# ------------------------------------------------------------------------------------------------

_OPTIONS = None


def phase_options(ctx):
    global _OPTIONS
    if _OPTIONS is None:
        from harness.gen import c07_opts as O
        try:
            _OPTIONS = O.real_options()
        except Exception as e:        # a working tree whose parser cannot be built in-process: documented options only
            ctx.observe("argument parser of whatshap phase not importable: %s" % str(e)[:80])
            _OPTIONS = O.doc_options()
        for o in _OPTIONS:
            if not o["documented"]:
                ctx.observe("option %s of `whatshap phase` is not in the documented interface" % "/".join(o["strings"]))
        missing = [d for d in O.DOC if d not in {o["dest"] for o in _OPTIONS}]
        if missing:
            ctx.observe("documented options missing from the parser: %s" % ",".join(missing))
    return _OPTIONS


def opts_scenario(oc):
    """the simulated data of an option case (derived from its seed only)"""
    import random
    from harness.gen import sim, c07_opts as O
    rng = random.Random(oc["seed"])
    samples = O.LAYOUTS[oc["layout"]]
    sc = sim.Scenario(rng, n_contigs=oc["n_contigs"], contig_len=(500, 1000), n_variants=tuple(oc["n_variants"]),
                      kinds=tuple(oc["kinds"]), samples=samples, depth=tuple(oc["depth"]), read_len=(60, 350), min_gap=20)
    if oc["layout"] == "trio":
        make_trio(sc, rng, oc["depth"])
    for r in sc.reads:      # mapping qualities around the thresholds the options use; most reads pass every threshold < 60
        r["mapq"] = 60 if rng.random() < 0.7 else rng.choice(O.MAPQ_PALETTE)
    return sc


def opts_expect(oc):
    from harness.gen import c07_opts as O
    return O.expect(oc["items"], O.LAYOUTS[oc["layout"]], [f"chr{i + 1}" for i in range(oc["n_contigs"])])


def opts_cmdline(oc):
    from harness.gen import c07_opts as O
    return " ".join(O.render(oc, {"FA": "ref.fa", "PED": "fam.ped", "GENMAP": "genmap.txt", "D": ".", "VCF": "in.vcf",
                                  "BAM": "in.bam", "OUT": "out.vcf"}))


def check_opts_candidates(ctx, case, sc, rec, exp):
    """which reads may and must be candidates of the selection, from the generated alignments only: reads of the sample
    (any read with --ignore-read-groups) on that chromosome with mapping quality >= the threshold of the command line
    (last --mapping-quality/--mapq, default 20); with --only-snvs no indel position; and no such read that spans (6 bases
    margin) two phasable SNVs may be missing"""
    chrom = rec["chromosome"]
    snv = {v.pos for v in sc.variants[chrom] if v.kind == "snv"}
    pool = {}
    for r in sc.reads:
        if r["chrom"] == chrom:
            end = r["start"] + sum(n for op, n in r["cigar"] if op in (0, 2, 3, 7, 8))
            pool[r["name"]] = (r["sample"], r["mapq"], r["start"], end)
    for s in rec["family"]:
        cands = rec["candidates"][s]["reads"]
        names = set()
        for r in cands:
            if r["source_id"] != 0:
                continue
            names.add(r["name"])
            info = pool.get(r["name"])
            if info is None or (info[0] != s and not exp["ignore_rg"]):
                ctx.fail(f"{chrom}, sample {s}: candidate read {r['name']} is not an alignment of that sample", case,
                         key="opts-foreign-read")
                return
            if info[1] < exp["mapq"]:
                ctx.fail(f"{chrom}, sample {s}: candidate read {r['name']} has mapping quality {info[1]} < {exp['mapq']}",
                         case, key="opts-candidate-below-mapq")
                return
            if exp["only_snvs"] and any(v[0] not in snv for v in r["variants"]):
                ctx.fail(f"{chrom}, sample {s}: --only-snvs but candidate read {r['name']} covers a non-SNV position", case,
                         key="opts-indel-with-only-snvs")
                return
        cand_pos = {v[0] for r in cands for v in r["variants"]} & snv
        for name, (smp, mq, st, end) in pool.items():
            if (smp != s and not exp["ignore_rg"]) or mq < exp["mapq"] or name in names:
                continue
            vs = sorted(q for q in cand_pos if st + 6 <= q < end - 6)
            if len(vs) >= 2:
                ctx.fail(f"{chrom}, sample {s}: read {name} (mapq {mq}) spans the phasable SNVs at {vs[:4]} but is not among "
                         f"the candidates of the selection", case, key="opts-candidate-missing")
                return


def run_opts_case(ctx, case, reqs_out, share_reqs):
    """one CLI run of an option case; the predicates of the property are evaluated against the cap the documented
    interface promises for this command line"""
    from harness.gen import sim, c07_opts as O
    oc = case["opts"]
    exp = opts_expect(oc)
    case = dict(case, cmdline=opts_cmdline(oc))
    d = os.path.join(ctx.workdir(), "opts")
    shutil.rmtree(d, ignore_errors=True)
    try:
        sc = opts_scenario(oc)
        fa, bam, vcf = sc.write(d)
        paths = {"FA": fa, "BAM": bam, "VCF": vcf, "D": d, "OUT": os.path.join(d, "out.vcf"),
                 "PED": os.path.join(d, "fam.ped"), "GENMAP": os.path.join(d, "genmap.txt")}
        with open(paths["PED"], "w") as f:
            f.write("F1 S3 S1 S2 0 1\n")
        with open(paths["GENMAP"], "w") as f:
            f.write("position COMBINED_rate(cM/Mb) Genetic_Map(cM)\n1 0 0\n400 1.5 0.0006\n2000 1.2 0.0025\n")
        argv = O.render(oc, paths)
        rc, so, se, trace = sim.whatshap(argv, ctx.overlay, trace=os.path.join(d, "trace.jsonl"))
        ctx.evaluated()
        used = sorted({it[0] for it in oc["items"]})
        for dest in used:
            ctx.dist("opts_option", dest)
        ctx.dist("opts_spelling", "abbreviated" if any(it[2] not in sum((o["strings"] for o in phase_options(ctx)), [])
                                                       for it in oc["items"]) else "full")
        ctx.dist("opts_expected_status", exp["reason"] or "runs")
        ctx.dist("opts_layout", oc["layout"])
        status = 0 if rc == 0 else 2 if rc == 2 else 1
        # a clean command-line error is logged as "whatshap error: …" (with --debug followed by a traceback) and exits with 1
        crashed = rc not in (0, 2) and "whatshap error:" not in se
        last = (se.strip().splitlines() or ["?"])[-1][:160]
        if exp["validate_input"] is not None:
            share_reqs.append((dict(exp["validate_input"], op="c07.validate"), case,
                               {"accepted": exp["status"] != 2, "cap": exp["k"] if exp["status"] != 2 else None,
                                "error": exp["reason"] if exp["status"] == 2 else None}))
        if exp["unknown_options"] and rc == 2:
            return          # an option the documentation does not know may be rejected
        if exp["status"] == 2:
            if rc == 0 and exp["reason"] == "cap-above-23":
                ctx.fail(f"--internal-downsampling {exp['k']} was not rejected: {opts_cmdline(oc)}", case,
                         key="opts-cap-above-23-accepted")
            elif rc != 2:
                ctx.disagree("c07.validate(status)", case, {"rc": rc, "crashed": crashed, "stderr": last},
                             {"status": 2, "reason": exp["reason"]})
            return
        if crashed and (exp["reason"] or "").startswith("F103"):
            ctx.observe("F103 (outside the C07 statement): --ignore-read-groups with several --sample crashes: " + last[:80])
            return
        if crashed or status != exp["status"]:
            # not a statement about the cap: the exit status differs from what the documented interface says
            ctx.disagree("c07.validate(status)", case, {"rc": rc, "crashed": crashed, "stderr": last},
                         {"status": exp["status"], "reason": exp["reason"]})
            return
        if rc != 0:
            return
        k = exp["k"]
        want = sorted((c, tuple(sorted(f))) for c in exp["chromosomes"] for f in exp["families"])
        got = sorted((r["chromosome"], tuple(sorted(r["family"]))) for r in trace)
        if want != got:
            ctx.disagree("c07.opts(families processed)", case, got, want)
        disc = False
        for rec in trace:
            if rec.get("algorithm") != "whatshap":
                ctx.disagree("c07.opts(algorithm)", case, rec.get("algorithm"), "whatshap")
                continue
            ctx.dist("pipeline_family_size", len(rec["family"]))
            if k >= 1:
                disc |= check_trace_record(ctx, rec, case, k=k, prefix="opts-")
            elif rec["max_coverage_per_sample"] != 1:
                ctx.fail(f"--internal-downsampling {k}: per-sample cap {rec['max_coverage_per_sample']}, expected 1", case,
                         key="opts-per-sample-cap")
            if rec["max_coverage"] != k:
                ctx.fail(f"the run uses cap {rec['max_coverage']}, the command line promises --internal-downsampling {k}: "
                         f"{opts_cmdline(oc)}", case, key="opts-cap-option")
            check_opts_candidates(ctx, case, sc, rec, exp)
            check_trace_model(ctx, rec, case, reqs_out, share_reqs, k=k)
        if disc:
            ctx.nontrivial("opts:%d:%s" % (oc["seed"], opts_cmdline(oc)))
    finally:
        shutil.rmtree(d, ignore_errors=True)


def parse_opts_case(ctx, case, share_reqs):
    """the same command lines against the working tree's parser + `validate` in-process (no run): accepted / rejected,
    and for an accepted one the values `main` hands to `run_whatshap`"""
    import logging
    from harness.gen import c07_opts as O
    from whatshap.args import HelpfulArgumentParser
    from whatshap.cli import phase
    oc = case["opts"]
    exp = opts_expect(oc)
    argv = O.render(oc, {"FA": "ref.fa", "PED": "fam.ped", "GENMAP": "genmap.txt", "D": ".", "VCF": "in.vcf", "BAM": "in.bam",
                         "OUT": "out.vcf"})
    parser = HelpfulArgumentParser(prog="whatshap")
    parser.add_argument("--debug", action="store_true", default=False)
    sub = parser.add_subparsers().add_parser("phase")
    phase.add_arguments(sub)
    logging.disable(logging.CRITICAL)
    impl = None
    try:
        with contextlib.redirect_stderr(io.StringIO()), contextlib.redirect_stdout(io.StringIO()):
            try:
                args = parser.parse_args(argv)
                phase.validate(args, sub)
                impl = {"accepted": True, "cap": args.max_coverage, "mapq": args.mapping_quality, "samples": list(args.samples),
                        "chromosomes": list(args.chromosomes), "ignore_rg": bool(args.ignore_read_groups),
                        "only_snvs": bool(args.only_snvs)}
            except SystemExit as e:
                impl = {"accepted": False, "code": e.code}
    finally:
        logging.disable(logging.NOTSET)
    ctx.evaluated()
    ctx.dist("opts_parse_expected", exp["reason"] if exp["status"] == 2 else "accepted")
    if exp["validate_input"] is not None:
        share_reqs.append((dict(exp["validate_input"], op="c07.validate"), case,
                           {"accepted": exp["status"] != 2, "cap": exp["k"] if exp["status"] != 2 else None,
                            "error": exp["reason"] if exp["status"] == 2 else None}))
    if exp["unknown_options"] and not impl["accepted"]:
        return
    if exp["status"] == 2:
        model = {"accepted": False, "code": 2}
    else:
        lists = {"samples": [it[1] for it in oc["items"] if it[0] == "samples"],
                 "chromosomes": [it[1] for it in oc["items"] if it[0] == "chromosomes"]}
        model = {"accepted": True, "cap": exp["k"], "mapq": exp["mapq"], "samples": lists["samples"],
                 "chromosomes": lists["chromosomes"], "ignore_rg": exp["ignore_rg"], "only_snvs": exp["only_snvs"]}
    if impl != model:
        ctx.disagree("c07.validate(parse)", dict(case, cmdline=" ".join(argv)), impl, model)
    ctx.validated()


def run_opts_stream(ctx, stage_reqs, share_reqs):
    """option stream: many command lines against parser + validate in-process, some of them as real runs"""
    from harness.gen import c07_opts as O
    rng = ctx.rng
    options = phase_options(ctx)
    for i in range((3000 if ctx.quick else 30000) * ctx.scale):
        parse_opts_case(ctx, O.gen_case(rng, options), share_reqs)
        if len(share_reqs) >= 500:
            flush_share(ctx, share_reqs)
    flush_share(ctx, share_reqs)
    for i in range((45 if ctx.quick else 300) * ctx.scale):
        run_opts_case(ctx, O.gen_case(rng, options), stage_reqs, share_reqs)
        if len(stage_reqs) >= 200:
            flush_stage(ctx, stage_reqs)
    flush_stage(ctx, stage_reqs); flush_share(ctx, share_reqs)


# ------------------------------------------------------------------------------------------------

def run(ctx):
    rng = ctx.rng
    lib = Lib(ctx)

    stage_reqs, share_reqs = [], []

    def one(case):
        if "pipeline" in case:
            run_pipeline_case(ctx, case["pipeline"])
        elif "stage" in case:
            do_stage(ctx, stage_reqs, case, "corpus"); flush_stage(ctx, stage_reqs)
        elif "trace_stage" in case:
            do_stage(ctx, stage_reqs, {"stage": dict(case["trace_stage"], pref_none=False)}, "trace"); flush_stage(ctx, stage_reqs)
        elif "pipe" in case:
            run_pipe_scenario(ctx, case, stage_reqs, share_reqs); flush_stage(ctx, stage_reqs); flush_share(ctx, share_reqs)
        elif "deep" in case:
            do_deep(lib, case, "corpus-deep")
        elif "mon" in case:
            mr = []
            do_mon(ctx, case, mr); flush_mon(ctx, mr)
        elif "opts" in case:
            parse_opts_case(ctx, case, share_reqs)
            run_opts_case(ctx, case, stage_reqs, share_reqs); flush_stage(ctx, stage_reqs); flush_share(ctx, share_reqs)
        else:
            c = case.get("lib", case)
            lib.check(c, len(c["reads"]) <= 9, "corpus")

    if ctx.replay:
        one(json.load(open(ctx.replay))["case"])
        lib.flush()
        shutil.rmtree(ctx.workdir(), ignore_errors=True)
        return
    for _, c in ctx.corpus():
        one(c)
    lib.flush()

    if os.environ.get("C07_ONLY") == "opts":      # development knob: only the option stream
        run_opts_stream(ctx, stage_reqs, share_reqs)
        shutil.rmtree(ctx.workdir(), ignore_errors=True)
        return
    if os.environ.get("C07_ONLY") == "deep":      # development knob: only the round-10 streams
        run_deep_stream(ctx, lib)
        shutil.rmtree(ctx.workdir(), ignore_errors=True)
        return
    n_before = len(ctx.fails)
    run_deep_stream(ctx, lib)
    n_small = (5000 if ctx.quick else 40000) * ctx.scale
    for _ in range(n_small):
        lib.check(G.small_case(rng, 8 if ctx.quick else 9), True, "small")
    for _ in range((200 if ctx.quick else 1000) * ctx.scale):
        lib.check(G.malformed_case(rng), True, "malformed")
    for _ in range((1000 if ctx.quick else 8000) * ctx.scale):
        lib.check(G.medium_case(rng), False, "medium")
    for _ in range((500 if ctx.quick else 3000) * ctx.scale):
        lib.check(G.large_case(rng), False, "large")
    lib.flush()
    if not ctx.quick and not ctx.escalated:
        for _ in range(20):
            lib.check(G.large_case(rng, 10), False, "huge")
        lib.flush()
        cnt = 0
        for case in G.exhaustive_cases(max_reads=3, npos=4):
            lib.check(case, True, "exhaustive"); cnt += 1
        for case in G.exhaustive_cases(max_reads=4, npos=3, ks=(1, 2, 3)):
            if len(case["reads"]) == 4:
                lib.check(case, True, "exhaustive"); cnt += 1
        for case in G.exhaustive_cases(max_reads=4, npos=4, ks=(1, 2, 3), quals=(1,)):
            if len(case["reads"]) == 4:
                lib.check(case, True, "exhaustive"); cnt += 1
        lib.flush()
        ctx.extra["exhaustive_read_sets"] = cnt
        ctx.extra["exhaustive"] = True

    # shrink the first new library failure of every key so that the replay is small
    seen = set()
    for i in range(n_before, len(ctx.fails)):
        what, case, key = ctx.fails[i]
        if "lib" in case and key not in seen and len(case["lib"]["reads"]) > 6:
            seen.add(key)
            small = shrink_lib_failure(case["lib"], key)
            if len(small["reads"]) < len(case["lib"]["reads"]):
                impl = run_impl(small)
                texts = [t for k, t in oracle(small["reads"], small["k"], impl) if k == key]
                if texts:
                    ctx.fails[i] = ("readselection: " + texts[0] + " (shrunk)", {"lib": small}, key)

    for i in range((1500 if ctx.quick else 12000) * ctx.scale):
        do_stage(ctx, stage_reqs, gen_stage_case(rng, small=(i % 4 != 3)), "stage")
        if len(stage_reqs) >= 200:
            flush_stage(ctx, stage_reqs)
    flush_stage(ctx, stage_reqs)

    n_pipe = (24 if ctx.quick else 120) * ctx.scale
    for i in range(n_pipe):
        run_pipeline_case(ctx, pipeline_case(rng, i))
    for i in range((16 if ctx.quick else 120) * ctx.scale):
        run_pipe_scenario(ctx, gen_pipe_scenario(rng), stage_reqs, share_reqs)
    flush_stage(ctx, stage_reqs); flush_share(ctx, share_reqs)

    run_opts_stream(ctx, stage_reqs, share_reqs)
    shutil.rmtree(ctx.workdir(), ignore_errors=True)

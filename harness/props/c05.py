"""C05 — pedigree phasing is Mendelian-consistent and ordered paternal|maternal.

In-process (a few thousand cases per run):
  (a) `pedigree.mendelian_conflict` on all genotype triples            = model `mendelianConflict`
  (b) `find_phaseable_variants` / `find_mendelian_conflicts` on generated variant tables (trios, quartets, unrelated
      members; missing genotypes; conflicts)                            = model `findPhaseableVariants`;
      oracle: a variant with a missing genotype or with a trio whose child genotype cannot be formed from one allele
      of each parent is never retained
  (c) the real `PedigreeDPTable` on small trios / quartets / three-generation pedigrees in every member order, with
      reads from none to several per member: super-reads of every column = model `getAlleles` (pedigree partitions for
      the reported transmission value, costs accumulated from the reads under the reported bipartition);
      oracle on the real super-reads: child allele 0 is one of the father's alleles and equals the allele of the
      father's haplotype selected by the reported transmission value, allele 1 likewise for the mother; a child that
      is heterozygous while a parent is homozygous gets two definite, different alleles; a RuntimeError is raised iff
      some column has a Mendelian conflict.
Pipeline (`whatshap phase --ped`, trace hook): trios and two-child quartets, all 27 genotype triples per variant incl.
conflicts, missing genotypes, reads from none to deep (error-free and noisy), uniform recombination rate and --genmap,
PS and HP tags, with and without --no-genetic-haplotyping.  Oracle on the OUTPUT VCF (independent of the model):
phased child a|b has a among the father's, b among the mother's alleles (input genotypes); where child and parent are
phased in the same set, the child's allele equals the parent's allele on the haplotype selected by the traced
transmission value; conflict / missing variants are unphased in all family members; child-het with a homozygous
parent (no conflict/missing in the family) is phased when genetic haplotyping is on, reads or not.
The REPORTED transmission (--recombination-list, recombining children with cheap recombination): for every listed event
the child's allele at position1/position2 equals the parental allele on the haplotype selected by the reported value;
a switch of the transmitted haplotype visible in the phased haplotypes inside a phase set is listed; list = traced vector.
Correspondence on every run: retained / homozygous positions, traced super-reads of every column, and which calls
the writer phased, against the model.

Deepening (recombination costs, genotype likelihoods, table -> constraint table):
  (c') the real `PedigreeDPTable` with `distrust_genotypes=True` on the same pedigree shapes with phred likelihoods (called /
      peaked / small / flat / arbitrary): super-reads = model `getAllelesLik`, optimal cost = sum of the model's column costs
      + the recombination costs charged for the reported transmission vector (also for the trusted instances of (c)); the
      clauses proved for the likelihood variant (child entry = entry of the transmitted parental haplotype, tie flag
      included; definite trio => no conflict among the output genotypes) on the real super-reads;
  (e)  `recombination_cost_map`, `uniform_recombination_map`, `centimorgen_to_phred` on generated maps / rates / positions
      (valid and invalid: exceptions by name) = the model's float instance, bit for bit (doubles are exchanged as exact
      mantissa/exponent pairs); an independent reading of the numbers (exact piecewise-linear interpolation, Haldane's map
      function via expm1, clamp at 1e-10 cM); the laws the integer-stage theorems assume (rounded phred antitone, cap);
  (f)  `GenotypeLikelihoods.as_phred` with and without regulariser = model (`asPhredFloat`, `plToPhred`);
  table stage: `subset_rows_by_position` + `genotypes_of` after `find_phaseable_variants` = model `constraintTable`.
Pipeline additions: every traced family: recombination cost vector handed to the solver = model for the run's genetic
map / --recombrate on the accessible positions; genotype vectors handed to the solver = `constraintTable` of the INPUT
genotypes; traced optimal cost = model column costs + recombination costs.  `--distrust-genotypes` runs (PL / GL / no
likelihoods, --default-gq, --gl-regularizer, --include-homozygous, genotyping errors): traced likelihoods = model from the
input records; super-reads = `getAllelesLik`; written genotype and phase = `outputGt` / `writerPhase`; proved clauses on
the OUTPUT genotypes.  The property text is about trusted genotypes: likelihood runs only produce model disagreements.
"""
import itertools, json, os, shutil

RULE = ("(a) a genotype triple; (b) a family genotype table; (c) a pedigree DP instance (member order, trios, per-column "
        "genotypes, reads, recombination costs); (d) a CLI run reduced to (family, per-variant input genotypes, traced "
        "reads/transmission/super-reads, output phase; the input VCF unphased or already phased in all/some members). Non-trivial: (b) the table has a retained and a discarded variant; "
        "(c) at least one column with a heterozygous child, and either reads or a homozygous parent; (d) at least one child "
        "call phased; (c') a likelihood DP instance in which a genotype changes or a trio column carries a tie flag; (e) a "
        "cost-map input whose result has >= 2 different costs; (d') a --distrust-genotypes run with a changed genotype and a "
        "phased call. Distinct = distinct JSON of the case")
MANIFEST = dict(
    text="Lean 4 theorems about a model of the pedigree partitions (compute_haplotype_to_partition_rec), the admissible "
         "allele assignments and get_alleles of the column cost computer, mendelian_conflict, find_phaseable_variants, the "
         "accessible positions and the writer's phasing decision: child haplotype 0/1 copy the father's/mother's "
         "haplotype selected by the transmission bits; feasible iff no Mendelian conflict (27-table, all member orders; "
         "81-table for quartets); conflict/missing variants are unphased for every member; child-het with a homozygous "
         "parent gets definite alleles whatever the reads are. Tied to the working tree by in-process runs of the real "
         "functions / the real PedigreeDPTable and by `whatshap phase --ped` runs with the trace hook; an independent "
         "oracle evaluates the property on the output VCF",
    design_ref="DESIGN.md §5 C05",
    note="trusted: Lean kernel, axioms ⊆ {propext, Classical.choice, Quot.sound}; hand-written model (differential "
         "correspondence); the DP's choice of bipartition and transmission path is taken from the implementation "
         "(trace / API), its optimality is C01's subject; `homozygous_parent_phased_without_reads` is proved end to end on "
         "C01's solver model (super reads = get_alleles of every column under the back-traced witness; any pedigree with one "
         "trio per child and no cycle); the earlier `_partial` version (glue assumed, on the C05 column model) is kept",
    technique="Lean 4 proof (structural induction on the partition recursion, finite tables by `decide`, general lemmas on "
              "get_alleles) + differential correspondence + independent VCF-level oracle",
)
ASSUMPTIONS = [
    "trusted genotypes (no --distrust-genotypes), diploid biallelic calls; genotypes 0/0, 0/1, 1/1 or missing",
    "the transmission value of a column is the one reported by the implementation (trace hook / get_super_reads); "
    "bit 2k / 2k+1 of it belong to the k-th trio in PED order; bit value 1 selects the parent's FIRST haplotype (as the "
    "code does); a run in which the opposite convention held consistently would be reported as a model disagreement",
    "a phased parent/child pair 'in the same set' = same PS (HP prefix) in the output VCF",
    "recombination cost vector: the float stage (interpolation, exp/log10 of this machine's libm, round half to even) is "
    "modelled in Lean `Float` and compared with the code bit for bit, not reasoned about; the integer-stage theorems (cap, "
    "antitone, shape, uniform formula) hold for every arithmetic whose `<` is a strict weak order and whose rounded phred "
    "value is antitone — tested on doubles by the check, not proved for them",
    "likelihood variant (--distrust-genotypes) is outside the property text: its clauses are proved on the model and "
    "reported as model disagreements if the implementation deviates; 32-bit overflow of costs not modelled",
    "table -> constraint table: variant positions of a chromosome strictly increasing (no duplicate positions); the VCF "
    "reader (records -> VariantTable genotypes) remains the seam `hreader`",
]

GT_LIST = {"0/0": [0, 0], "0/1": [1, 0], "1/1": [1, 1], "./.": [], ".": [], "1/0": [1, 0]}


def feasible_child(gf, gm, gc):
    """independent Mendel test on allele lists"""
    return any(sorted([x, y]) == sorted(gc) for x in gf for y in gm)


# ------------------------------------------------------------------------------------------------
# (a) mendelian_conflict
# ------------------------------------------------------------------------------------------------

def do_conflict_table(ctx):
    from whatshap.core import Genotype
    from whatshap.pedigree import mendelian_conflict
    gts = [[0, 0], [1, 0], [1, 1]]
    triples = [[gm, gf, gc] for gm in gts for gf in gts for gc in gts]
    ans = ctx.model.ask("c05.conflict", triples=triples)
    for (gm, gf, gc), m in zip(triples, ans):
        impl = bool(mendelian_conflict(Genotype(gm), Genotype(gf), Genotype(gc)))
        case = {"kind": "conflict", "gm": gm, "gf": gf, "gc": gc}
        ctx.evaluated()
        ctx.nontrivial(json.dumps(case))
        if impl != m:
            ctx.disagree("c05.conflict", case, impl, m)
        if impl != (not feasible_child(gf, gm, gc)):
            ctx.fail(f"mendelian_conflict(mother={gm}, father={gf}, child={gc}) = {impl} but the child genotype can"
                     f"{'' if feasible_child(gf, gm, gc) else 'not'} be formed from one allele of each parent", case, key="conflict-test")


# ------------------------------------------------------------------------------------------------
# (b) find_phaseable_variants
# ------------------------------------------------------------------------------------------------

def gen_table_case(rng):
    n_members = rng.choice([1, 3, 3, 4, 4, 5])
    members = [f"m{i}" for i in range(n_members)]
    order = members[:]
    rng.shuffle(order)
    trios = []
    if n_members >= 3:
        f, m = order[0], order[1]
        for c in order[2:2 + rng.choice([1, 1, 2])]:
            if len(order) >= 3 and c not in (f, m):
                trios.append([f, m, c])
    n = rng.randrange(1, 9)
    tab = []
    for s in members:
        col = []
        for _ in range(n):
            r = rng.random()
            col.append([] if r < 0.08 else rng.choice([[0, 0], [1, 0], [1, 0], [1, 1]]))
        tab.append(col)
    return {"kind": "table", "members": members, "trios": trios, "tab": tab, "include_hom": rng.random() < 0.25,
            "positions": sorted(rng.sample(range(1, 20 * n + 2), n)), "acc_seed": rng.randrange(1 << 30)}


def do_table(ctx, batch, case):
    from whatshap.core import Genotype
    from whatshap.vcf import VariantTable, BiallelicVcfVariant
    from whatshap.pedigree import Trio
    from whatshap.cli.phase import find_phaseable_variants
    members, tab = case["members"], case["tab"]
    n = len(tab[0])
    vt = VariantTable("chr1", members)
    for i in range(n):
        vt.add_variant(BiallelicVcfVariant(case["positions"][i], "A", "C"), [Genotype(tab[s][i]) for s in range(len(members))],
                       [None] * len(members), [None] * len(members), [None] * len(members))
    trios = [Trio(child=c, father=f, mother=m) for f, m, c in case["trios"]]
    hom_pos, pvt = find_phaseable_variants(members, case["include_hom"], trios, vt)
    keep_pos = [v.position for v in pvt.variants]
    impl = {"hom": sorted(case["positions"].index(p) for p in hom_pos), "keep": sorted(case["positions"].index(p) for p in keep_pos)}
    ctx.evaluated()
    idx = {s: i for i, s in enumerate(members)}
    bad = []
    for i in range(n):
        missing = any(tab[s][i] == [] for s in range(len(members)))
        conflict = any(tab[idx[f]][i] and tab[idx[m]][i] and tab[idx[c]][i] and not feasible_child(tab[idx[f]][i], tab[idx[m]][i], tab[idx[c]][i])
                       for f, m, c in case["trios"])
        if missing or conflict:
            bad.append(i)
            if i in impl["keep"]:
                ctx.fail(f"find_phaseable_variants keeps variant {i} although it has a "
                         f"{'missing genotype' if missing else 'Mendelian conflict'} in the family", case, key="bad-variant-retained")
    if impl["keep"] and len(impl["keep"]) < n:
        ctx.nontrivial(json.dumps(case, sort_keys=True))
    ctx.dist("table_members", len(members)); ctx.dist("table_bad_variants", len(bad))

    def cb(req, ans):
        m = {"hom": sorted(ans["hom"]), "keep": sorted(ans["keep"])}
        if m != impl:
            ctx.disagree("c05.phaseable", case, impl, m)
    batch.add({"op": "c05.phaseable", "tab": tab, "trios": [[idx[f], idx[m], idx[c]] for f, m, c in case["trios"]],
               "include_hom": case["include_hom"]}, cb)
    if "acc_seed" in case:
        # the rest of the table stage: subset_rows_by_position(accessible positions), the assertion after it, and the genotype
        # vectors `genotypes_of(sample)` that create_pedigree hands to Pedigree.add_individual
        import random
        r2 = random.Random(case["acc_seed"])
        acc = sorted(p for p in keep_pos if r2.random() < 0.7)
        if r2.random() < 0.1:
            acc = sorted(set(acc) | {r2.choice(case["positions"])})        # possibly a position that was not retained
        pvt.subset_rows_by_position(acc)
        if len(pvt.variants) != len(acc):
            impl2 = "AssertionError"
        else:
            impl2 = [[list(g.as_vector()) for g in pvt.genotypes_of(s)] for s in members]

        def cb2(req, ans):
            got = ans.get("genotypes") if isinstance(ans, dict) else ans
            if got != impl2:
                ctx.disagree("c05.constraint_table", dict(case, acc=acc), impl2, got)
        batch.add({"op": "c05.constraint_table", "tab": tab, "trios": [[idx[f], idx[m], idx[c]] for f, m, c in case["trios"]],
                   "include_hom": case["include_hom"], "var_pos": case["positions"], "acc": acc}, cb2)


# ------------------------------------------------------------------------------------------------
# (c) PedigreeDPTable on small instances
# ------------------------------------------------------------------------------------------------

def gen_dp_case(rng):
    shape = rng.choice(["trio", "trio", "quartet", "quartet", "threegen", "single"])
    if shape == "single":
        names, trios = ["a"], []
    elif shape == "trio":
        names, trios = ["f", "m", "c"], [["f", "m", "c"]]
    elif shape == "quartet":
        names, trios = ["f", "m", "c1", "c2"], [["f", "m", "c1"], ["f", "m", "c2"]]
    else:   # grandparents -> parent p; p x q -> child
        names, trios = ["gf", "gm", "p", "q", "c"], [["gf", "gm", "p"], ["p", "q", "c"]]
        if rng.random() < 0.5:
            trios = [["gf", "gm", "p"], ["q", "p", "c"]]
    order = names[:]
    rng.shuffle(order)
    if rng.random() < 0.3:
        rng.shuffle(trios)
    ncols = rng.randrange(1, 6)
    positions = sorted(rng.sample(range(5, 200), ncols))
    children = {c: (f, m) for f, m, c in trios}
    haps = {s: [] for s in names}
    gts = {s: [] for s in names}
    for col in range(ncols):
        done = {}

        def hap_of(s):
            if s in done:
                return done[s]
            if s in children:
                f, m = children[s]
                hf, hm = hap_of(f), hap_of(m)
                h = (rng.choice(hf), rng.choice(hm))
            else:
                g = rng.choice([0, 1, 1, 2])
                h = {0: (0, 0), 2: (1, 1)}.get(g) or rng.choice([(0, 1), (1, 0)])
            done[s] = h
            return h
        for s in names:
            hap_of(s)
        for s in names:
            h = done[s]
            if rng.random() < 0.04:                       # break Mendel here and there
                h = rng.choice([(0, 0), (0, 1), (1, 1)])
            haps[s].append(h)
            gts[s].append(sorted(h, reverse=True))
    reads = []
    depth = rng.choice([0, 0, 1, 2, 3])
    if ncols >= 2:
        for s in names:
            for k in range(rng.randrange(0, depth + 1)):
                cols = sorted(rng.sample(range(ncols), rng.randrange(2, ncols + 1)))
                if rng.random() < 0.6:                    # contiguous
                    a = rng.randrange(0, ncols - 1); cols = list(range(a, min(ncols, a + rng.randrange(2, 5))))
                if len(cols) < 2:
                    continue
                h = rng.randrange(2)
                reads.append({"name": f"{s}_{k}_{len(reads)}", "sample": s,
                              "variants": [[positions[c], (haps[s][c][h] if rng.random() > 0.15 else rng.randrange(2)), rng.randrange(1, 40)] for c in cols]})
    recomb = [0] + [rng.choice([1, 5, 10, 30]) for _ in range(ncols - 1)]
    return {"kind": "dp", "order": order, "trios": trios, "positions": positions, "gts": {s: gts[s] for s in names},
            "reads": reads, "recomb": recomb}


def run_dp_impl(case):
    from whatshap.core import Read, ReadSet, Pedigree, PedigreeDPTable, NumericSampleIds, Genotype, PhredGenotypeLikelihoods
    nsi = NumericSampleIds()
    ped = Pedigree(nsi)
    lik = "gls" in case
    for s in case["order"]:
        ped.add_individual(s, [Genotype(list(g)) for g in case["gts"][s]],
                           [PhredGenotypeLikelihoods(list(g)) for g in case["gls"][s]] if lik else None)
    for f, m, c in case["trios"]:
        ped.add_relationship(f, m, c)
    rs = ReadSet()
    for r in case["reads"]:
        rd = Read(r["name"], 60, 0, nsi[r["sample"]])
        for p, a, q in r["variants"]:
            rd.add_variant(p, a, q)
        rd.sort()
        rs.add(rd)
    rs.sort()
    try:
        dp = PedigreeDPTable(rs, list(case["recomb"]), ped, lik, list(case["positions"]))
        supers, tv = dp.get_super_reads()
        part = dp.get_optimal_partitioning()
        cost = dp.get_optimal_cost()
    except RuntimeError as e:
        return {"err": "MendelianConflict" if "Mendelian conflict" in str(e) else "RuntimeError:" + str(e)}
    order_names = [r.name for r in rs]
    sr = []
    for k in range(len(case["order"])):
        a, b = supers[k][0], supers[k][1]
        sr.append([[va.position, va.allele, vb.allele] for va, vb in zip(a, b)])
    return {"tv": list(tv), "partitioning": dict(zip(order_names, part)), "superreads": sr, "cost": cost}


def column_requests(order, trios, positions, gts_by_name, reads, partitioning, tv, gls_by_name=None, op=None):
    """model request `c05.columns` (`c05.lik_columns` with likelihoods) for all columns: entries from the reads under the
    reported bipartition"""
    idx = {s: i for i, s in enumerate(order)}
    cols = []
    for ci, pos in enumerate(positions):
        entries = []
        for r in reads:
            for p, a, q in r["variants"]:
                if p == pos:
                    entries.append([idx[r["sample"]], partitioning[r["name"]], a, q])
        col = {"t": tv[ci], "gts": [gts_by_name[s][ci] for s in order], "entries": entries}
        if gls_by_name is not None:
            col["gls"] = [gls_by_name[s][ci] for s in order]
        cols.append(col)
    return {"op": op or ("c05.columns" if gls_by_name is None else "c05.lik_columns"), "size": len(order),
            "triples": [[idx[f], idx[m], idx[c]] for f, m, c in trios], "cols": cols}


def transition_cost(recomb, tv):
    """recombination part of the solver's objective (independent of the model's `transitionCost`)"""
    return sum(bin(a ^ b).count("1") * recomb[c + 1] for c, (a, b) in enumerate(zip(tv, tv[1:])))


class Conv:
    """which convention 'transmission bit -> parental haplotype' is consistent with the observations of one run"""

    def __init__(self):
        self.code = self.flipped = self.n = 0
        self.first_bad = None

    def see(self, bit, child_allele, parent_alleles, what):
        self.n += 1
        ok_code = child_allele == parent_alleles[1 - bit]
        ok_flip = child_allele == parent_alleles[bit]
        self.code += ok_code; self.flipped += ok_flip
        if not ok_code and self.first_bad is None:
            self.first_bad = what

    def verdict(self):
        if self.n == 0 or self.code == self.n:
            return "ok"
        if self.flipped == self.n:
            return "flipped"
        return "violated"


def superread_oracle(ctx, case, order, trios, positions, gts_by_name, sr, tv, label):
    """property predicates on real super-reads (alleles 0/1, 3 = ambiguous)"""
    idx = {s: i for i, s in enumerate(order)}
    conv = Conv()
    for k, (f, m, c) in enumerate(trios):
        for ci, pos in enumerate(positions):
            ca = sr[idx[c]][ci][1:]
            for which, parent, h in ((0, f, "father"), (1, m, "mother")):
                a = ca[which]
                pg = gts_by_name[parent][ci]
                if a in (0, 1) and pg and a not in pg:
                    ctx.fail(f"{label}: child {c} at {pos}: allele {a} on haplotype {which} is not among the {h}'s alleles {pg}",
                             case, key="child-allele-not-from-parent")
                pa = sr[idx[parent]][ci][1:]
                bit = (tv[ci] >> (2 * k + which)) & 1
                if a in (0, 1) and all(x in (0, 1) for x in pa):
                    conv.see(bit, a, pa, f"child {c} at {pos}: haplotype {which} carries {a}, the {h}'s haplotypes are {pa}, transmission bit {bit}")
            gc, gf, gm = gts_by_name[c][ci], gts_by_name[f][ci], gts_by_name[m][ci]
            if sorted(gc) == [0, 1] and gf and gm and (len(set(gf)) == 1 or len(set(gm)) == 1) and feasible_child(gf, gm, gc):
                if not (ca[0] in (0, 1) and ca[1] in (0, 1) and ca[0] != ca[1]):
                    ctx.fail(f"{label}: child {c} at {pos} is heterozygous with a homozygous parent (father {gf}, mother {gm}) "
                             f"but its super-read alleles are {ca} (not a definite phase)", case, key="hom-parent-child-not-phased")
    v = conv.verdict()
    if v == "violated":
        ctx.fail(f"{label}: the child's allele is not the allele of the parental haplotype selected by the reported transmission "
                 f"value ({conv.first_bad})", case, key="transmission-mismatch")
    elif v == "flipped":
        ctx.disagree("transmission-bit-convention", case, "bit b selects parental haplotype b", "bit b selects parental haplotype 1-b")


def do_dp(ctx, batch, case):
    impl = run_dp_impl(case)
    ctx.evaluated()
    order, trios, positions = case["order"], case["trios"], case["positions"]
    ncols = len(positions)
    idx = {s: i for i, s in enumerate(order)}
    conflict_cols = [ci for ci in range(ncols) if any(not feasible_child(case["gts"][f][ci], case["gts"][m][ci], case["gts"][c][ci])
                                                      for f, m, c in trios)]
    ctx.dist("dp_members", len(order)); ctx.dist("dp_cols", ncols); ctx.dist("dp_reads", len(case["reads"]))
    ctx.dist("dp_outcome", "conflict" if "err" in impl else "ok")
    if "err" in impl:
        if impl["err"] != "MendelianConflict":
            ctx.fail("PedigreeDPTable raised " + impl["err"], case, key="dp-error")
        elif not conflict_cols:
            ctx.fail("PedigreeDPTable reports a Mendelian conflict although every trio is consistent in every column", case,
                     key="spurious-mendelian-conflict")
        # model: some column infeasible for every transmission value
        def cb(req, ans, n_t=4 ** len(trios)):
            per_col = [ans[i * n_t:(i + 1) * n_t] for i in range(ncols)]
            if all(any(a != "MendelianConflict" for a in col) for col in per_col):
                ctx.disagree("c05.columns(feasibility)", case, impl, "every column feasible for some transmission value")
        cols = [{"t": t, "gts": [case["gts"][s][ci] for s in order], "cp": []} for ci in range(ncols) for t in range(4 ** len(trios))]
        batch.add({"op": "c05.columns", "size": len(order), "triples": [[idx[f], idx[m], idx[c]] for f, m, c in trios], "cols": cols}, cb)
        ctx.nontrivial(json.dumps(case, sort_keys=True))
        return
    if conflict_cols:
        ctx.fail(f"PedigreeDPTable phases column(s) {conflict_cols} although a trio has a Mendelian conflict there", case,
                 key="conflict-column-phased")
    superread_oracle(ctx, case, order, trios, positions, case["gts"], impl["superreads"], impl["tv"], "PedigreeDPTable")
    het_child = any(sorted(case["gts"][c][ci]) == [0, 1] for _, _, c in trios for ci in range(ncols))
    if het_child:
        ctx.nontrivial(json.dumps(case, sort_keys=True))
    req = column_requests(order, trios, positions, case["gts"], case["reads"], impl["partitioning"], impl["tv"])

    def cb(req, ans):
        want = [[[a, b] for _, a, b in [sr[ci] for sr in impl["superreads"]]] for ci in range(ncols)]
        if ans != want:
            ctx.disagree("c05.columns", case, want, ans)
    batch.add(req, cb)
    # the solver's optimum = sum of the model's column costs (get_cost of every column under the reported bipartition and
    # transmission value) + the recombination costs charged for the reported transmission vector
    creq = dict(req, op="c05.costs")

    def cb_cost(req, ans, case=case, impl=impl):
        if any(a is None for a in ans) or sum(ans) + transition_cost(case["recomb"], impl["tv"]) != impl["cost"]:
            ctx.disagree("c05.costs(optimal cost = column costs + recombination costs)", case, impl["cost"],
                         {"columns": ans, "recombination": transition_cost(case["recomb"], impl["tv"])})
    batch.add(creq, cb_cost)
    if len(ctx.samples) < 3 and trios and case["reads"]:
        ctx.sample({"dp_case": case, "impl": impl})


# ------------------------------------------------------------------------------------------------
# (c') PedigreeDPTable with genotype likelihoods (--distrust-genotypes)
# ------------------------------------------------------------------------------------------------

def gen_gl(rng, gt, style):
    """phred likelihoods [0/0, 0/1, 1/1] of one call"""
    g = sum(gt)
    if style == "called":          # as create_pedigree builds them without PL: default_gq everywhere, 0 at the call
        q = rng.choice([5, 30, 30, 60])
        return [0 if k == g else q for k in range(3)]
    if style == "peaked":
        return [0 if k == g else rng.randrange(1, 80) for k in range(3)]
    if style == "small":           # small numbers: ties between genotypes and with read costs are frequent
        x = [rng.randrange(0, 6) for _ in range(3)]
        m = min(x)
        return [v - m for v in x]
    if style == "flat":
        return [0, 0, 0]
    x = [rng.randrange(0, 300) for _ in range(3)]
    return x                        # not normalised (PhredGenotypeLikelihoods accepts any numbers)


def gen_dplik_case(rng):
    case = gen_dp_case(rng)
    for _ in range(2):                # likelihoods matter most where reads compete with them: fewer read-less instances
        if case["reads"] or rng.random() < 0.3:
            break
        case = gen_dp_case(rng)
    case["kind"] = "dplik"
    style = rng.choice(["called", "peaked", "peaked", "small", "small", "mixed", "mixed", "any"])
    gls = {}
    for s, col in case["gts"].items():
        gls[s] = [gen_gl(rng, g, style if style != "mixed" else rng.choice(["called", "peaked", "small", "flat", "any"])) for g in col]
    case["gls"] = gls
    if rng.random() < 0.4:          # weak reads, so that the likelihoods decide
        for r in case["reads"]:
            for v in r["variants"]:
                v[2] = rng.randrange(1, 8)
    if rng.random() < 0.3:
        case["recomb"] = [0] + [rng.choice([0, 1, 2, 3, 120]) for _ in case["positions"][1:]]
    return case


def lik_oracle(ctx, case, order, trios, positions, sr, tv, label):
    """the clauses proved for the likelihood variant (`lik_child_entry_is_parent_entry`, `lik_output_genotypes_mendelian`),
    evaluated on the real super-reads: the child's entry on haplotype 0 IS the father's entry on the haplotype selected by
    bit 2k (allele or tie flag), likewise haplotype 1 / mother / bit 2k+1; hence the genotypes formed by definite
    super-read alleles have no Mendelian conflict.  Outside the property text (trusted genotypes only) ⇒ reported as a
    disagreement with the proved model, not as a property violation."""
    idx = {s: i for i, s in enumerate(order)}
    n_tie = n_def = 0
    for k, (f, m, c) in enumerate(trios):
        for ci, pos in enumerate(positions):
            ca, fa, ma = sr[idx[c]][ci][1:], sr[idx[f]][ci][1:], sr[idx[m]][ci][1:]
            want = [fa[1 - ((tv[ci] >> (2 * k)) & 1)], ma[1 - ((tv[ci] >> (2 * k + 1)) & 1)]]
            if list(ca) != want:
                ctx.disagree("lik_child_entry_is_parent_entry", case,
                             {"where": label, "pos": pos, "child": c, "entry": list(ca), "father": list(fa), "mother": list(ma), "t": tv[ci]}, want)
            if all(x in (0, 1) for x in list(ca) + list(fa) + list(ma)):
                n_def += 1
                if not feasible_child(list(fa), list(ma), list(ca)):
                    ctx.disagree("lik_output_genotypes_mendelian", case, {"where": label, "pos": pos, "child": list(ca), "father": list(fa), "mother": list(ma)},
                                 "no Mendelian conflict among definite super-read genotypes")
            else:
                n_tie += 1
    return n_def, n_tie


def do_dplik(ctx, batch, case):
    impl = run_dp_impl(case)
    ctx.evaluated()
    order, trios, positions = case["order"], case["trios"], case["positions"]
    ncols = len(positions)
    ctx.dist("lik_members", len(order)); ctx.dist("lik_cols", ncols); ctx.dist("lik_reads", len(case["reads"]))
    if "err" in impl:
        # with likelihoods every allele assignment is a candidate: the solver must not raise
        ctx.disagree("c05.lik_columns(no exception)", case, impl, "get_alleles defined for every column (getAllelesLik_isSome)")
        return
    n_def, n_tie = lik_oracle(ctx, case, order, trios, positions, impl["superreads"], impl["tv"], "PedigreeDPTable(distrust)")
    ctx.dist("lik_trio_columns_with_tie", min(n_tie, 5))
    changed = sum(1 for s in order for ci in range(ncols)
                  if all(a in (0, 1) for a in impl["superreads"][order.index(s)][ci][1:])
                  and sorted(impl["superreads"][order.index(s)][ci][1:], reverse=True) != list(case["gts"][s][ci]))
    ctx.dist("lik_changed_genotypes", min(changed, 5))
    # the writer's rule (genotype {a0, a1} where both alleles are definite, the input genotype otherwise) applied to the super
    # reads: with a tie flag in the trio the OUTPUT genotypes can be in conflict although the input genotypes were not
    idx = {s: i for i, s in enumerate(order)}
    for f, m, c in trios:
        for ci in range(ncols):
            og = {}
            for s in (f, m, c):
                a = impl["superreads"][idx[s]][ci][1:]
                og[s] = sorted(a, reverse=True) if all(x in (0, 1) for x in a) else list(case["gts"][s][ci])
            if not feasible_child(og[f], og[m], og[c]) and feasible_child(case["gts"][f][ci], case["gts"][m][ci], case["gts"][c][ci]):
                ctx.dist("lik_output_conflict_from_tie(input consistent)", True)
                ctx.observe("likelihood variant: consistent input genotypes, a tie flag on a parent's untransmitted haplotype keeps the "
                            "parent's input genotype while the child's is rewritten -> Mendelian conflict among the OUTPUT genotypes "
                            "(outside C05's text; Lean witness in Props/C05.lean)")
    if trios and (changed or n_tie):
        ctx.nontrivial(json.dumps(case, sort_keys=True))
    req = column_requests(order, trios, positions, case["gts"], case["reads"], impl["partitioning"], impl["tv"], gls_by_name=case["gls"])

    def cb(req, ans):
        want = [[[a, b] for _, a, b in [sr[ci] for sr in impl["superreads"]]] for ci in range(ncols)]
        got = [a["alleles"] if isinstance(a, dict) else a for a in ans]
        if got != want:
            ctx.disagree("c05.lik_columns", case, want, got)
            return
        costs = [a["cost"] for a in ans]
        if any(x is None for x in costs) or sum(costs) + transition_cost(case["recomb"], impl["tv"]) != impl["cost"]:
            ctx.disagree("c05.lik_columns(optimal cost = column costs + recombination costs)", case, impl["cost"],
                         {"columns": costs, "recombination": transition_cost(case["recomb"], impl["tv"])})
    batch.add(req, cb)
    batch.add({"op": "c05.transition_cost", "recomb": case["recomb"], "tv": impl["tv"]},
              lambda req, ans: ans == transition_cost(case["recomb"], impl["tv"]) or
              ctx.disagree("c05.transition_cost", case, transition_cost(case["recomb"], impl["tv"]), ans))



# ------------------------------------------------------------------------------------------------
# (e) recombination cost vector: recombination_cost_map / uniform_recombination_map / centimorgen_to_phred
# ------------------------------------------------------------------------------------------------

def fl(x):
    """a finite double as the exact pair [m, e], value m * 2**e"""
    import math
    if x == 0:
        return [0, 0]
    f, e = math.frexp(x)
    return [int(f * 2 ** 53), e - 53]


def gen_recomb_case(rng):
    n = rng.randrange(0, 9)
    hi = rng.choice([60, 1000, 100000, 10 ** 7, 2 * 10 ** 8])
    positions = sorted(rng.sample(range(0, hi), min(n, hi)))
    r = rng.random()
    if r < 0.04:
        positions = [rng.randrange(hi) for _ in range(n)]                 # unsorted / duplicate positions
    case = {"kind": "recomb", "positions": positions, "map": None, "rate": None}
    if rng.random() < 0.6:
        k = rng.randrange(0 if rng.random() < 0.02 else 1, 7)
        mp = sorted(rng.sample(range(0, 2 * hi), k))
        if mp and rng.random() < 0.1:
            mp[0] = 0
        cum, gm = 0.0, []
        for p in mp:
            gm.append([p, cum])
            cum += rng.choice([0.0, 0.0, 1e-12, 1e-10, rng.random() * 1e-6, rng.random() * 1e-3, rng.random(), rng.random() * 5])
        if rng.random() < 0.03:
            rng.shuffle(gm)
        if gm and rng.random() < 0.03:
            gm[rng.randrange(len(gm))][1] = rng.random() * 3                 # a map that is not monotone
        case["map"] = gm
    else:
        case["rate"] = rng.choice([1.26, 1.26, 0.01, 50.0, 5000.0, 100000.0, 1e6, 1e-9, 0.0, -1.0, rng.random() * 10])
    return case


def recomb_impl(case):
    from whatshap.pedigree import recombination_cost_map, RecombinationMapEntry, UniformRecombinationCostComputer
    try:
        if case["map"] is not None:
            return {"ok": [int(x) for x in recombination_cost_map([RecombinationMapEntry(p, c) for p, c in case["map"]], case["positions"])]}
        return {"ok": [int(x) for x in UniformRecombinationCostComputer.uniform_recombination_map(case["rate"], case["positions"])]}
    except (AssertionError, ValueError, ZeroDivisionError, IndexError, OverflowError) as e:
        return {"err": type(e).__name__}


def recomb_request(case):
    if case["map"] is not None:
        return {"op": "c05.recomb", "map": [[p, fl(c)] for p, c in case["map"]], "positions": case["positions"]}
    return {"op": "c05.recomb", "rate": fl(case["rate"]), "positions": case["positions"]}


def phred_real(d):
    """-10 log10 of Haldane's recombination probability, computed without the cancellation of 1 - exp(-x)"""
    import math
    return -10.0 * math.log10(-math.expm1(-2.0 * d / 100.0) / 2.0)


def recomb_meaning(case):
    """what the numbers mean, independently of the code's float arithmetic: per interval the set of admissible costs
    (piecewise-linear interpolation of the genetic map in exact rationals, extrapolation before the first map point from
    (0, 0) and after the last with the average rate; clamp at 1e-10 cM; phred of Haldane's map function; rounding may go
    either way within the noise of the code's `1 - exp(-x)`).  None where the input is outside that reading (unsorted
    map or positions, decreasing map, non-positive rate, duplicates)."""
    from fractions import Fraction as F
    pos = case["positions"]
    if any(b <= a for a, b in zip(pos, pos[1:])):
        return None
    if case["map"] is not None:
        gm = case["map"]
        if not gm or any(b[0] <= a[0] for a, b in zip(gm, gm[1:])) or any(b[1] < a[1] for a, b in zip(gm, gm[1:])) or gm[0][1] < 0:
            return None
        if gm[-1][0] == 0:
            return None
        if gm[0][0] == 0 and gm[0][1] != 0:
            return None
        pts = ([(0, F(0))] if gm[0][0] > 0 else []) + [(p, F(c)) for p, c in gm]

        def cum(x):
            if x > pts[-1][0]:
                return pts[-1][1] + (x - pts[-1][0]) * pts[-1][1] / pts[-1][0]
            for (p0, c0), (p1, c1) in zip(pts, pts[1:]):
                if p0 <= x <= p1:
                    return c0 + (x - p0) * (c1 - c0) / (p1 - p0)
            return pts[0][1]          # a single map point at 0
        ds = [max(float(cum(b) - cum(a)), 1e-10) for a, b in zip(pos, pos[1:])]
    else:
        if case["rate"] <= 0:
            return None
        ds = [float(F(b - a) * F(10) ** -6 * F(case["rate"])) for a, b in zip(pos, pos[1:])]
    out = [(0, 0)]
    for d in ds:
        if d < 1e-10:
            import math
            ph = -10.0 * (math.log10(d) - 2.0)
        else:
            ph = phred_real(d)
        tol = 2e-3 if d < 1e-7 else 1e-6
        out.append((round(ph - tol), round(ph + tol)))
    return out


def do_recomb(ctx, batch, case):
    impl = recomb_impl(case)
    ctx.evaluated()
    ctx.dist("recomb_kind", "genmap" if case["map"] is not None else "uniform")
    ctx.dist("recomb_outcome", impl.get("err", "ok"))
    if "ok" in impl and len(impl["ok"]) >= 3 and len(set(impl["ok"][1:])) >= 2:
        ctx.nontrivial(json.dumps(case, sort_keys=True))
    mean = recomb_meaning(case)
    if mean is not None:
        if "ok" not in impl or len(impl["ok"]) != len(mean) or any(not (lo <= v <= hi) for v, (lo, hi) in zip(impl["ok"], mean)):
            ctx.disagree("c05.recomb(meaning: phred of Haldane's map function of the interpolated genetic distance)", case, impl, mean)
        ctx.dist("recomb_meaning_checked", True)

    def cb(req, ans):
        if ans != impl:
            ctx.disagree("c05.recomb", case, impl, ans)
    batch.add(recomb_request(case), cb)


def do_phred_laws(ctx, batch):
    """the laws the integer-stage theorems assume of the arithmetic, tested on the float instance: the rounded phred value
    never increases with the distance (`Lawful.phred_antitone`), the cap is round(phred(1e-10)) = what recombination_cost_map
    charges for a zero genetic distance; the model's `c05.phred` = the real function on every distance"""
    from whatshap.pedigree import centimorgen_to_phred, recombination_cost_map, RecombinationMapEntry
    rng = ctx.rng
    ds = sorted([10 ** rng.uniform(-13, 4) for _ in range(3000)] + [1e-10 * (1 + k * 1e-6) for k in range(-20, 21)]
                + [1e-10, 9.999999999999e-11, 1.0000000000001e-10])
    vals = [round(centimorgen_to_phred(d)) for d in ds]
    ctx.evaluated()
    for (a, ka), (b, kb) in zip(zip(ds, vals), zip(ds[1:], vals[1:])):
        if kb > ka:
            ctx.disagree("Lawful(floatOps).phred_antitone", {"kind": "phredlaw", "a": a, "b": b}, [ka, kb], "cost(b) <= cost(a) for a <= b")
            break
    cap = round(centimorgen_to_phred(1e-10))
    flat = recombination_cost_map([RecombinationMapEntry(10, 0.5), RecombinationMapEntry(1000, 0.5)], [20, 30, 500])
    if list(flat) != [0, cap, cap]:
        ctx.disagree("recomb_zero_distance_costs_cap", {"kind": "phredlaw", "flat": True}, list(flat), [0, cap, cap])
    ctx.extra["recombination_cost_cap"] = cap

    def cb(req, ans):
        got = [a.get("ok") for a in ans]
        if got != vals:
            k = next(i for i, (x, y) in enumerate(zip(got, vals)) if x != y)
            ctx.disagree("c05.phred", {"kind": "phredlaw", "d": ds[k]}, vals[k], got[k])
    batch.add({"op": "c05.phred", "d": [fl(d) for d in ds]}, cb)


# ------------------------------------------------------------------------------------------------
# (f) genotype likelihoods: GenotypeLikelihoods.as_phred / create_pedigree
# ------------------------------------------------------------------------------------------------

def gen_asphred_case(rng):
    import struct
    style = rng.random()
    if style < 0.4:
        pl = [rng.randrange(0, 130) for _ in range(3)]
        lp, src = [x / -10 for x in pl], {"pl": pl}
    elif style < 0.7:      # GL with one decimal, as htslib hands it over (float32)
        lp = [struct.unpack("f", struct.pack("f", -rng.randrange(0, 120) / 10))[0] for _ in range(3)]
        src = {}
    else:
        lp, src = [-rng.random() * rng.choice([1, 5, 30]) for _ in range(3)], {}
    return dict({"kind": "asphred", "logp": lp, "reg": rng.choice([None, None, None, 0.0, 1e-6, 0.001, 0.01, 0.1, rng.random()])}, **src)


def do_asphred(ctx, batch, case):
    from whatshap.vcf import GenotypeLikelihoods
    try:
        ph = GenotypeLikelihoods(list(case["logp"])).as_phred(regularizer=case["reg"])
        impl = [int(ph[g]) for g in ph.genotypes()]
    except (ValueError, ZeroDivisionError, OverflowError, TypeError) as e:
        impl = None
    ctx.evaluated()
    ctx.dist("asphred_regularizer", case["reg"] is not None)

    def cb(req, ans):
        if ans[0] != impl:
            ctx.disagree("c05.as_phred", case, impl, ans[0])
    batch.add({"op": "c05.as_phred", "calls": [[fl(x) for x in case["logp"]]], "reg": None if case["reg"] is None else fl(case["reg"])}, cb)
    if "pl" in case and case["reg"] is None:
        # integer stage: PL - min(PL)
        def cb2(req, ans):
            if ans[0] != impl:
                ctx.disagree("c05.gl_int(plToPhred)", case, impl, ans[0])
        batch.add({"op": "c05.gl_int", "pls": [case["pl"]]}, cb2)


# ------------------------------------------------------------------------------------------------
# pipeline
# ------------------------------------------------------------------------------------------------

def gen_cli_case(rng, mode, prephase=None, layout=None):
    """prephase: None = the input VCF already carries phase information in about a third of the cases; True = always"""
    import random
    sub = rng.randrange(1 << 30)
    case = gen_cli_case_unphased(random.Random(sub), mode, sub)
    # drawn from a generator of its own: the unphased stream is the same as it was before this was added
    r2 = random.Random(sub ^ 0x5A5A5A5)
    if prephase or (prephase is None and r2.random() < 0.35):
        prephase_input(r2, case)
    # several chromosomes whose coordinates coincide at the chromosome boundary (seed C05-i): a generator of its own again
    r3 = random.Random(sub ^ 0xC0517)
    if layout is not None or r3.random() < 0.45:
        add_cli_layout(r3, case, layout)
    return case


def add_cli_layout(r, case, force=None):
    """cross-contig layout (gen/c05_ped.py:add_layout) for a trusted `--ped` case without a genetic map (`--genmap` runs are
    tied to one `--chromosome`)"""
    from harness.gen import c05_ped as G
    data = case["data"]
    if force and data.get("genmap") and not data.get("pl"):
        # a forced layout wins over the genetic map of the case
        data["genmap"] = None
        i = case["args"].index("--chromosome")
        case["args"] = case["args"][:i] + ["--recombrate", "1.26"] + case["args"][i + 2:]
    if data.get("pl") or data.get("genmap") or "--chromosome" in case["args"]:
        return
    case["args"] = list(case["args"]) + G.add_layout(r, data, genetic="--no-genetic-haplotyping" not in case["args"], force=force)


def prephase_input(r, case):
    """The input VCF of a `--ped` run is itself a phased VCF (output of an earlier run / of another tool): phase in all or
    some members, in either encoding, on every record kind; sample columns in random order; and a missing genotype at
    the first, a middle and the last column of the family.  What the oracle demands does not change: it reads the
    OUTPUT's phase and the (unordered) input genotypes."""
    from harness.gen import c05_ped as G
    data = case["data"]
    if r.random() < 0.8:
        r.shuffle(data["samples"])
    # whatever the reads say, the genotype table decides which records may be phased; likelihood cases keep their PL rows
    forced = G.force_missing_by_column(r, data) if not data.get("pl") else {}
    ip = G.add_input_phase(r, data, who=r.choice(["all", "all", "some"]), enc=r.choice(["PS", "PS", "PS", "HP", "HP", "GT", "mixed"]),
                           frac=r.choice([1.0, 0.9, 0.6]))
    ip["forced_missing"] = {str(k): v for k, v in forced.items()}


def gen_cli_case_unphased(r, mode, sub):
    from harness.gen import c05_ped as G
    n_children = 2 if "quartet" in mode else 1
    recomb = mode.split("-")[1] == "recomb"
    if mode.split("-")[1] == "lik":
        return gen_cli_lik_case(r, mode, n_children, sub)
    if recomb:
        # recombining children, mostly heterozygous parents, deep error-free long reads (parents and children end up in one
        # phase set), cheap recombination: paternal AND maternal recombinations inside a phase set get detected and listed
        case = G.make_family_case(r, n_children=n_children, n_variants=(16, 30), contig_len=(3000, 5000), all_triples=False,
                                  parent_gt_weights=(1, 7, 1), missing_prob=0.02, conflict_prob=0.02,
                                  unrelated=r.random() < 0.2, n_recomb=(1, 3))
    else:
        case = G.make_family_case(r, n_children=n_children, n_variants=(12, 26), contig_len=(2500, 5000), all_triples=True,
                                  missing_prob=0.06, conflict_prob=0.15, unrelated=r.random() < 0.25, n_recomb=(0, 2))
    # sample order in the VCF (= member order in the pedigree) is arbitrary: children may come before their parents
    if r.random() < 0.6:
        r.shuffle(case["samples"])
    elif recomb and r.random() < 0.5:
        case["samples"].sort(key=lambda x: (not x.startswith("child"), x))      # children first
    depth_choice = {"noreads": [0], "sparse": [0, 0.3, 0.8], "deep": [2, 4, 8], "recomb": [4, 6, 8]}[mode.split("-")[1]]
    for s in case["samples"]:
        d = r.choice(depth_choice)
        if d and recomb:
            G.add_reads(r, case, s, depth=d, read_len=(150, 450))
        elif d:
            G.add_reads(r, case, s, depth=d, read_len=(60, 220), paired_frac=r.choice([0.0, 0.4]), insert=(60, 400),
                        noise=r.choice([0, 0, 0.1, 0.3]))
    args = ["--tag", r.choice(["PS", "PS", "HP"])]
    if mode.endswith("nogenetic"):
        args.append("--no-genetic-haplotyping")
    if recomb:
        args += ["--recombrate", str(r.choice([5000, 100000, 1000000]))]
    elif r.random() < 0.35:
        G.make_genmap(r, case)
        args += ["--chromosome", "chr1"]
    else:
        args += ["--recombrate", str(r.choice([0.01, 1.26, 50, 5000]))]
    args += ["--internal-downsampling", "15" if recomb else str(r.choice([4, 9, 15]))]
    if not case.get("genmap") and r.random() < 0.35:
        case["twin"] = "chr0"       # two chromosomes with the same content: everything reported must cover both
    return {"kind": "cli", "mode": mode, "data": case, "args": args, "use_ref": r.random() < 0.5, "sub_seed": sub}


def gen_cli_lik_case(r, mode, n_children, sub):
    """`--distrust-genotypes`: PL/GL in the VCF (or none: default_gq), genotyping errors that reads can correct"""
    from harness.gen import c05_ped as G, c05_lik as L
    case = G.make_family_case(r, n_children=n_children, n_variants=(10, 22), contig_len=(2500, 4500), all_triples=False,
                              missing_prob=0.03, conflict_prob=0.04, unrelated=r.random() < 0.2, n_recomb=(0, 2))
    L.add_likelihoods(r, case, error_prob=r.choice([0.0, 0.1, 0.2]), no_pl_prob=r.choice([0.0, 0.15, 1.0]))
    if r.random() < 0.5:
        r.shuffle(case["samples"])
    for s in case["samples"]:
        d = r.choice([0, 0.5, 2, 4, 8])
        if d:
            G.add_reads(r, case, s, depth=d, read_len=(80, 300), paired_frac=r.choice([0.0, 0.3]), insert=(60, 400),
                        noise=r.choice([0, 0, 0.05]))
    args = ["--tag", r.choice(["PS", "PS", "HP"]), "--distrust-genotypes"]
    if r.random() < 0.4:
        args.append("--include-homozygous")
    if r.random() < 0.4:
        args += ["--default-gq", str(r.choice([5, 10, 60]))]
    if r.random() < 0.3:
        args += ["--gl-regularizer", str(r.choice([0.0, 0.001, 0.01, 0.1]))]
    if r.random() < 0.2:
        args.append("--no-genetic-haplotyping")
    if r.random() < 0.35:
        G.make_genmap(r, case)
        args += ["--chromosome", "chr1"]
    else:
        args += ["--recombrate", str(r.choice([0.01, 1.26, 50, 5000]))]
    args += ["--internal-downsampling", str(r.choice([4, 9, 15]))]
    return {"kind": "cli", "mode": mode, "data": case, "args": args, "use_ref": r.random() < 0.5, "sub_seed": sub}


def run_cli(ctx, batch, case):
    from harness.gen import sim, c05_ped as G, c05_lik as L
    d = os.path.join(ctx.workdir(), "cli")
    shutil.rmtree(d, ignore_errors=True)
    try:
        paths = L.write_case(case["data"], d) if case["data"].get("pl") else G.write_case(case["data"], d)
        out = os.path.join(d, "out.vcf")
        args = ["phase", "-o", out, "--ped", paths["ped"]] + list(case["args"])
        if "genmap" in paths:
            args += ["--genmap", paths["genmap"]]
        args += ["--reference", paths["fasta"]] if case["use_ref"] else ["--no-reference"]
        rl = os.path.join(d, "recomb.tsv")
        args += ["--recombination-list", rl, paths["vcf"], paths["bam"]]
        rc, so, se, trace = sim.whatshap(args, ctx.overlay, trace=os.path.join(d, "trace.jsonl"))
        ctx.evaluated()
        if rc != 0:
            ctx.fail(f"whatshap phase --ped exited with {rc}: {se[-400:]}", case, key="cli-crash")
            return
        _, _, inrecs = sim.read_vcf(paths["vcf"])
        try:
            samples, recs, n_nul = G.read_vcf_tolerant(out)
            if n_nul:
                ctx.observe("output VCF contains NUL bytes (--tag HP with every sample's HP missing in a record; C04/C09 finding)")
        except Exception as e:      # the output of a successful run must be a readable VCF
            ctx.fail(f"output VCF of whatshap phase cannot be parsed: {type(e).__name__}: {e}", case, key="output-vcf-unreadable")
            return
        if "--distrust-genotypes" in case["args"]:
            check_cli_lik(ctx, batch, case, samples, recs, inrecs, trace)
        else:
            rows = read_recombination_list(ctx, case, rl)
            names = G.selected_contigs(case["data"], case["args"])
            for n in names:
                check_text(ctx, case, samples, [r for r in recs if r["chrom"] == n], [r for r in inrecs if r["chrom"] == n], n)
                check_cli(ctx, batch, case, samples, [r for r in recs if r["chrom"] == n], [r for r in inrecs if r["chrom"] == n],
                          [t for t in trace if t["chromosome"] == n], rows)
            boundary_dists(ctx, case, samples, recs, names)
    finally:
        shutil.rmtree(d, ignore_errors=True)


def read_recombination_list(ctx, case, path):
    """rows of --recombination-list as dicts (positions 0-based); None if the file is missing/unreadable"""
    if not os.path.exists(path):
        ctx.fail("--recombination-list was requested but no file was written", case, key="recombination-list-missing")
        return None
    rows = []
    for ln, line in enumerate(open(path)):
        f = line.split()
        if ln == 0 and line.startswith("#"):
            continue
        try:
            rows.append({"child": f[0], "chrom": f[1], "pos1": int(f[2]) - 1, "pos2": int(f[3]) - 1, "f1": int(f[4]), "f2": int(f[5]),
                         "m1": int(f[6]), "m2": int(f[7]), "cost": f[8]})
        except (IndexError, ValueError):
            ctx.fail(f"--recombination-list line {ln + 1} cannot be parsed: {line!r}", case, key="recombination-list-unreadable")
            return None
    return rows


def check_recombination_list(ctx, case, t, rows, phase, sr, fidx):
    """The clause 'the child's allele equals the allele on the parental haplotype selected by the REPORTED transmission',
    evaluated on the rows of --recombination-list of one family/chromosome, plus 'a recombination visible in the phased
    haplotypes inside a phase set is reported'.  Reported value v selects the parental haplotype with index 1 - v of the
    output VCF (the code's convention, see notes)."""
    trios, acc, tv = t["trios"], t["accessible_positions"], t["transmission_vector"]
    col_of = {p: i for i, p in enumerate(acc)}
    comps = {a: b for a, b in t["overall_components"]}
    blocks = {}
    for p in sorted(comps):
        blocks.setdefault(comps[p], []).append(p)
    children = {c: k for k, (_, _, c) in enumerate(trios)}
    mine = [r for r in rows if r["chrom"] == t["chromosome"] and r["child"] in children]
    conv = Conv()          # VCF level: child and parent phased in the same set
    conv_sr = Conv()       # super-read level: every accessible position
    n_pat = n_mat = 0
    for r in mine:
        k = children[r["child"]]
        f, m, c = trios[k]
        n_pat += r["f1"] != r["f2"]; n_mat += r["m1"] != r["m2"]
        for pos, vals in ((r["pos1"], (r["f1"], r["m1"])), (r["pos2"], (r["f2"], r["m2"]))):
            for which, parent in ((0, f), (1, m)):
                v = vals[which]
                who = "father" if which == 0 else "mother"
                if v not in (0, 1):
                    ctx.fail(f"recombination list: transmitted_hap_{who} = {v} for child {c} at {pos + 1}", case, key="reported-transmission-mismatch")
                    continue
                if pos in phase[c] and pos in phase[parent] and phase[parent][pos][0] == phase[c][pos][0]:
                    conv.see(v, phase[c][pos][1][which], phase[parent][pos][1],
                             f"recombination list row {r['child']} {r['pos1'] + 1}-{r['pos2'] + 1}: at {pos + 1} child {c} is "
                             f"{phase[c][pos][1][0]}|{phase[c][pos][1][1]}, {who} {parent} is {phase[parent][pos][1][0]}|{phase[parent][pos][1][1]} "
                             f"in the same phase set, reported transmitted_hap_{who} = {v}")
                if pos in col_of:
                    ca = sr[fidx[c]][col_of[pos]][1:][which]
                    pa = sr[fidx[parent]][col_of[pos]][1:]
                    if ca in (0, 1) and all(x in (0, 1) for x in pa):
                        conv_sr.see(v, ca, pa, f"recombination list row {r['child']} {r['pos1'] + 1}-{r['pos2'] + 1}: at {pos + 1} the child's "
                                    f"haplotype {which} carries {ca}, the {who}'s haplotypes carry {pa}, reported transmitted_hap_{who} = {v}")
    for cv, level in ((conv, "output VCF"), (conv_sr, "super-reads")):
        v = cv.verdict()
        if v == "violated":
            ctx.fail(f"the child's allele is not the allele on the parental haplotype selected by the REPORTED transmission "
                     f"(--recombination-list, {level}): {cv.first_bad}", case, key="reported-transmission-mismatch")
        elif v == "flipped":
            ctx.disagree("recombination-list-bit-convention", case, "value v selects parental haplotype v", "value v selects parental haplotype 1-v")
    # ---- what the traced transmission vector says must be listed (from the third variant of a block on), with these values
    want = set()
    for k, (f, m, c) in enumerate(trios):
        for blk in blocks.values():
            vals = [(tv[col_of[p]] >> (2 * k)) & 3 for p in blk]
            for i in range(2, len(blk)):
                if vals[i - 1] != vals[i]:
                    want.add((c, blk[i - 1], blk[i], vals[i - 1] % 2, vals[i] % 2, vals[i - 1] // 2, vals[i] // 2))
    got = {(r["child"], r["pos1"], r["pos2"], r["f1"], r["f2"], r["m1"], r["m2"]) for r in mine}
    for e in sorted(want):
        if not any(g[:3] == e[:3] for g in got):
            ctx.fail(f"recombination of child {e[0]} between {e[1] + 1} and {e[2] + 1} (transmission {e[3]}{e[5]} -> {e[4]}{e[6]} father,mother; "
                     f"inside a phase set, not at its first two variants) is not in the recombination list", case, key="recombination-not-reported")
    if got != want and all(any(g[:3] == e[:3] for g in got) for e in want):
        ctx.disagree("recombination-list-vs-traced-transmission", case, sorted(got), sorted(want))
    # ---- visible in the phased haplotypes of the OUTPUT VCF alone: between two positions of a block at which child and a
    # (heterozygous) parent are phased in the same set, the transmitted parental haplotype changes iff an odd number of listed
    # events of that parent lies in between.  (The pair formed by the first two variants of a block is never listed.)
    n_visible = 0
    for k, (f, m, c) in enumerate(trios):
        for which, parent in ((0, f), (1, m)):
            for blk in blocks.values():
                info = []
                for p in blk[1:]:
                    if p in phase[c] and p in phase[parent] and phase[parent][p][0] == phase[c][p][0]:
                        pa, a = phase[parent][p][1], phase[c][p][1][which]
                        if pa[0] != pa[1] and a in pa:
                            info.append((p, pa.index(a)))
                for (p, hp), (q, hq) in zip(info, info[1:]):
                    n = sum(1 for r in mine if r["child"] == c and p <= r["pos1"] and r["pos2"] <= q
                            and (r["f1"] != r["f2"] if which == 0 else r["m1"] != r["m2"]))
                    n_visible += hp != hq
                    if (hp != hq) != (n % 2 == 1):
                        who = "father" if which == 0 else "mother"
                        ctx.fail(f"child {c}: between {p + 1} and {q + 1} (same phase set as the {who} {parent}) the child's haplotype {which} "
                                 f"{'switches' if hp != hq else 'stays on the same'} parental haplotype ({hp} -> {hq}) but the recombination list "
                                 f"has {n} {who}-side event(s) in between", case, key="recombination-list-inconsistent-with-phase")
    ctx.dist("cli_listed_paternal_recombinations", min(n_pat, 6)); ctx.dist("cli_listed_maternal_recombinations", min(n_mat, 6))
    ctx.dist("cli_recombination_rows_checked_on_vcf_alleles", min(conv.n, 12))
    ctx.dist("cli_visible_recombinations_in_phase", min(n_visible, 6))
    return n_pat, n_mat


def ped_families(data):
    """families of the PED file: connected groups of its trios, as lists of trios"""
    groups = []
    for tr in data["trios"]:
        hit = [g for g in groups if any(set(tr) & set(x) for x in g)]
        merged = [tr] + [x for g in hit for x in g]
        groups = [g for g in groups if g not in hit] + [merged]
    return groups


def check_text(ctx, case, samples, recs, inrecs, chrom):
    """Oracle on ONE chromosome judged from the OUTPUT TEXT against the INPUT genotypes and the PED file only (no trace, no
    model): with genetic haplotyping every variant that the documented rule of `find_phaseable_variants` keeps (no missing
    genotype, no Mendelian conflict in the family) at which a child is heterozygous and one of its parents homozygous must
    come out phased in that child — on EVERY chromosome of the run, whatever the other chromosomes look like."""
    from harness.gen import c05_ped as G
    data = case["data"]
    if "--no-genetic-haplotyping" in case["args"] or "--distrust-genotypes" in case["args"]:
        return
    sidx = {s: samples.index(s) for s in samples}
    if [r["pos"] for r in recs] != [r["pos"] for r in inrecs]:
        ctx.fail(f"the records of {chrom} in the output are not the input's", case, key="output-records-differ")
        return
    in_gt = {s: [GT_LIST_of(r["calls"][sidx[s]]["GT"]) for r in inrecs] for s in samples}
    phase = {s: G.decode_calls(recs, sidx[s]) for s in samples}
    for trios in ped_families(data):
        fam = sorted({x for t in trios for x in t})
        if any(s not in sidx for s in fam):
            continue
        for vi, r in enumerate(inrecs):
            pos = r["pos"]
            if any(in_gt[s][vi] == [] for s in fam):
                continue
            if any(not feasible_child(in_gt[f][vi], in_gt[m][vi], in_gt[c][vi]) for f, m, c in trios):
                continue
            for f, m, c in trios:
                gf, gm, gc = in_gt[f][vi], in_gt[m][vi], in_gt[c][vi]
                if sorted(gc) == [0, 1] and (len(set(gf)) == 1 or len(set(gm)) == 1):
                    ctx.hist["cli_text_oracle(child het, parent hom)"]["phased" if pos in phase[c] else "UNPHASED"] += 1
                    if pos not in phase[c]:
                        ctx.fail(f"{chrom}:{pos + 1}: no missing genotype and no Mendelian conflict in the family, child {c} is "
                                 f"heterozygous, a parent is homozygous (father {gf}, mother {gm}), genetic haplotyping is on — "
                                 f"but the output leaves the child unphased (contigs of the run: "
                                 f"{G.selected_contigs(data, case['args'])})", case, key="phaseable-not-phased")


def boundary_dists(ctx, case, samples, recs, names):
    """input coverage measured on the OUTPUT: does the first record phased on a chromosome stand at the coordinate of the
    last record phased on the chromosome written before it?"""
    from harness.gen import c05_ped as G
    lay = case["data"].get("layout")
    ctx.dist("cli_contigs_phased_in_one_run", len(names))
    ctx.dist("cli_layout", "-" if not lay else f"{lay['base']}/{lay['chain']}/{lay['n']}{'/skip-middle' if lay.get('skip_middle') else ''}")
    span = {}
    for n in names:
        ps = sorted({p for si in range(len(samples)) for p in G.decode_calls([r for r in recs if r["chrom"] == n], si)})
        span[n] = (ps[0], ps[-1]) if ps else None
    for a, b in zip(names, names[1:]):
        if span[a] and span[b]:
            ctx.dist("cli_boundary(first phased POS of a chromosome == last phased POS of the one before)", span[a][1] == span[b][0])
            if span[a][1] == span[b][0]:
                ctx.nontrivial("boundary" + json.dumps([case.get("sub_seed"), case["mode"]]))


def check_cli(ctx, batch, case, samples, recs, inrecs, trace, rows=None):
    from harness.gen import c05_ped as G
    data = case["data"]
    genetic = "--no-genetic-haplotyping" not in case["args"]
    ctx.dist("cli_mode", case["mode"]); ctx.dist("cli_genmap", bool(data.get("genmap")))
    ctx.dist("cli_tag", case["args"][1])
    sidx = {s: samples.index(s) for s in samples}
    in_gt = {s: [GT_LIST_of(r["calls"][sidx[s]]["GT"]) for r in inrecs] for s in samples}
    pos_list = [r["pos"] for r in inrecs]
    phase = {s: G.decode_calls(recs, sidx[s]) for s in samples}
    n_child_phased = 0
    input_phase_dists(ctx, data, samples, inrecs, sidx, in_gt)
    for t in trace:
        fam = t["family"]
        if len(fam) < 2:
            continue
        trios = t["trios"]
        # the family structure the solver was given must be the PED's: every trio of the PED whose child is in this
        # family (a dropped trio turns its child into an unrelated founder and nothing below would notice)
        want = sorted(tuple(tr) for tr in data["trios"] if tr[2] in fam)
        if sorted(tuple(tr) for tr in trios) != want:
            ctx.fail(f"the trios handed to the solver for family {fam} are {trios}, the PED file says {want}", case,
                     key="pedigree-structure-lost")
            continue
        acc = t["accessible_positions"]
        col_of = {p: i for i, p in enumerate(acc)}
        tv = t["transmission_vector"]
        # ---------------- oracle on the output VCF ----------------
        bad = set()
        for vi, pos in enumerate(pos_list):
            if any(in_gt[s][vi] == [] for s in fam) or any(not feasible_child(in_gt[f][vi], in_gt[m][vi], in_gt[c][vi])
                                                            for f, m, c in trios if in_gt[f][vi] and in_gt[m][vi] and in_gt[c][vi]):
                bad.add(vi)
                for s in fam:
                    if pos in phase[s]:
                        ctx.fail(f"variant at {pos + 1} has a {'missing genotype' if any(in_gt[x][vi] == [] for x in fam) else 'Mendelian conflict'} "
                                 f"in the family but is phased in {s} ({phase[s][pos]})", case, key="bad-variant-phased")
        ctx.dist("cli_bad_variants", len(bad))
        for vi in range(len(pos_list)):
            for f, m, c in trios:
                ctx.hist["cli_genotype_triples(f,m,c)"]["".join(str(sum(g)) if g else "." for g in (in_gt[f][vi], in_gt[m][vi], in_gt[c][vi]))] += 1
        conv = Conv()
        for k, (f, m, c) in enumerate(trios):
            for vi, pos in enumerate(pos_list):
                if vi in bad:
                    continue
                gf, gm, gc = in_gt[f][vi], in_gt[m][vi], in_gt[c][vi]
                if pos in phase[c]:
                    n_child_phased += 1
                    ps, (a, b) = phase[c][pos]
                    if a not in gf or b not in gm:
                        ctx.fail(f"child {c} at {pos + 1} is phased {a}|{b} but father is {gf} and mother is {gm}: not ordered "
                                 f"paternal|maternal", case, key="child-allele-not-from-parent")
                    for which, parent in ((0, f), (1, m)):
                        if pos in phase[parent] and phase[parent][pos][0] == ps and pos in col_of:
                            bit = (tv[col_of[pos]] >> (2 * k + which)) & 1
                            conv.see(bit, (a, b)[which], phase[parent][pos][1],
                                     f"child {c} at {pos + 1} is {a}|{b}, {'father' if which == 0 else 'mother'} {parent} is "
                                     f"{phase[parent][pos][1][0]}|{phase[parent][pos][1][1]} in the same phase set {ps}, transmission bit {bit}")
                elif genetic and sorted(gc) == [0, 1] and (len(set(gf)) == 1 or len(set(gm)) == 1):
                    ctx.fail(f"child {c} is heterozygous at {pos + 1}, a parent is homozygous (father {gf}, mother {gm}), no conflict or "
                             f"missing genotype in the family, genetic haplotyping is on — but the child is left unphased "
                             f"({'no read covers the position' if pos not in {v[0] for r in t['all_reads'] for v in r['variants']} else 'covered by reads'})",
                             case, key="hom-parent-child-not-phased")
        ctx.dist("cli_same_set_parent_child_pairs", min(conv.n // 5 * 5, 50))
        v = conv.verdict()
        if v == "violated":
            ctx.fail("where parent and child are phased in the same set, the child's allele is not the allele on the parental "
                     f"haplotype selected by the traced transmission value ({conv.first_bad})", case, key="transmission-mismatch")
        elif v == "flipped":
            ctx.disagree("transmission-bit-convention", case, "bit b selects parental haplotype b", "bit b selects parental haplotype 1-b")
        # ---------------- correspondence at the seams ----------------
        fidx = {s: i for i, s in enumerate(fam)}
        tab = [in_gt[s] for s in fam]

        def cb_ph(req, ans, t=t):
            ctx.validated()
            keep_pos = {pos_list[i] for i in ans["keep"]}
            hom_pos = sorted(pos_list[i] for i in ans["hom"])
            if hom_pos != sorted(t["homozygous_positions"]):
                ctx.disagree("c05.phaseable(homozygous_positions)", case, sorted(t["homozygous_positions"]), hom_pos)
            if not set(t["accessible_positions"]) <= keep_pos:
                ctx.disagree("c05.phaseable(accessible within retained)", case, t["accessible_positions"], sorted(keep_pos))
        batch.add({"op": "c05.phaseable", "tab": tab, "trios": [[fidx[f], fidx[m], fidx[c]] for f, m, c in trios], "include_hom": False}, cb_ph)
        check_traced_recomb(ctx, batch, case, t)
        check_traced_table(ctx, batch, case, t, tab, pos_list, [[fidx[f], fidx[m], fidx[c]] for f, m, c in trios], False)
        sr = [[[a[0], a[1], b[1]] for a, b in zip(t["superreads"][s][0]["variants"], t["superreads"][s][1]["variants"])] for s in fam]
        ids = t["numeric_sample_ids"]
        name_of = {ids[s]: s for s in fam}
        reads = [{"name": i, "sample": name_of[r["sample_id"]], "variants": r["variants"]} for i, r in enumerate(t["all_reads"])]
        part = {i: p for i, p in enumerate(t["partitioning"] or [])}
        if acc and t["partitioning"] is not None:
            req = column_requests(fam, trios, acc, t["genotypes"], reads, part, tv)

            def cb_sr(req, ans, sr=sr, acc=acc):
                want = [[[x[ci][1], x[ci][2]] for x in sr] for ci in range(len(acc))]
                if ans != want:
                    ctx.disagree("c05.columns(trace)", case, want, ans)
            batch.add(req, cb_sr)

            def cb_cost(req, ans, t=t):
                rc = transition_cost(t["recombination_costs"], t["transmission_vector"])
                if any(a is None for a in ans) or sum(ans) + rc != t["cost"]:
                    ctx.disagree("c05.costs(trace: optimal cost = column costs + recombination costs)", case, t["cost"],
                                 {"columns": ans, "recombination": rc})
            batch.add(dict(req, op="c05.costs"), cb_cost)
        # super-read level oracle too (all positions, not only those the writer phased)
        superread_oracle(ctx, case, fam, trios, acc, t["genotypes"], sr, tv, "whatshap phase (trace)")
        # the reported transmission: --recombination-list
        if rows is not None:
            n_pat, n_mat = check_recombination_list(ctx, case, t, rows, phase, sr, fidx)
            if n_pat and n_mat:
                ctx.nontrivial("recomb" + json.dumps([case["sub_seed"], case["mode"]]))
        # the writer: phased in the output <=> position has a component, both super-read alleles are 0/1, call is het
        comps = {a: b for a, b in t["overall_components"]}
        for s in fam:
            srs = {x[0]: (x[1], x[2]) for x in sr[fidx[s]]}
            for vi, pos in enumerate(pos_list):
                g = in_gt[s][vi]
                model = None
                if pos in comps and pos in srs and all(a in (0, 1) for a in srs[pos]) and sorted(g) == [0, 1]:
                    model = (comps[pos] + 1, tuple(srs[pos]))
                got = phase[s].get(pos)
                if got != model:
                    ctx.disagree("writerPhase", case, {"sample": s, "pos": pos, "output": got}, model)
                    break
    ctx.dist("cli_child_calls_phased", min(n_child_phased // 5 * 5, 60))
    if n_child_phased:
        ctx.nontrivial(json.dumps([data["gt"], case["args"], len(data["reads"])]))
    if len(ctx.samples) < 4:
        ctx.sample({"cli_args": case["args"], "mode": case["mode"], "samples": samples, "trios": data["trios"],
                    "gt": {s: data["gt"][s][:8] for s in data["samples"]}})


def input_phase_dists(ctx, data, samples, inrecs, sidx, in_gt):
    """what the INPUT carried (read back from the input file, not from the generator's plan): which members came phased,
    on which record kinds, and where in the column order the member with the missing genotype stands relative to members
    that are phased in that record"""
    from harness.gen import c05_ped as G
    ip = data.get("inphase")
    ctx.dist("cli_input_phase", "-" if not ip else f"{ip['enc']}/{'all' if len(ip['who']) == len(samples) else 'some'}")
    if not ip:
        return
    inph = {s: G.decode_calls(inrecs, sidx[s]) for s in samples}
    fam = [s for s in samples if any(s in t for t in data["trios"])]
    for vi, r in enumerate(inrecs):
        miss = [k for k, s in enumerate(fam) if in_gt[s][vi] == []]
        ph = [k for k, s in enumerate(fam) if r["pos"] in inph[s]]
        conflict = not miss and any(not feasible_child(in_gt[f][vi], in_gt[m][vi], in_gt[c][vi]) for f, m, c in data["trios"])
        if ph:
            ctx.dist("cli_input_phased_record_kind", "missing" if miss else "conflict" if conflict else "ok")
        for k in miss:
            where = "first" if k == 0 else "last" if k == len(fam) - 1 else "middle"
            ctx.dist("cli_input_missing_column(position;phased members before/after)",
                     f"{where};{'b' if any(x < k for x in ph) else '-'}{'a' if any(x > k for x in ph) else '-'}")


def option_value(args, name, default, conv=float):
    return conv(args[args.index(name) + 1]) if name in args else default


def check_traced_table(ctx, batch, case, t, tab, pos_list, trios_idx, include_hom):
    """the genotype vectors handed to the solver (trace: `pedigree.genotype(sample, column)`) = the model's table stage
    (find_phaseable_variants -> subset_rows_by_position(accessible positions) -> add_individual) on the INPUT genotypes"""
    fam = t["family"]
    want = [[list(g) for g in t["genotypes"][s]] for s in fam]

    def cb(req, ans, want=want):
        ctx.validated()
        if not isinstance(ans, dict) or ans.get("genotypes") != want:
            ctx.disagree("c05.constraint_table(trace)", case, want, ans if not isinstance(ans, dict) else ans.get("genotypes"))
            return
        if [pos_list[i] for i in ans["rows"]] != list(t["accessible_positions"]):
            ctx.disagree("c05.constraint_table(rows = accessible positions)", case, t["accessible_positions"], [pos_list[i] for i in ans["rows"]])
    batch.add({"op": "c05.constraint_table", "tab": tab, "trios": trios_idx, "include_hom": include_hom, "var_pos": pos_list,
               "acc": t["accessible_positions"]}, cb)


def check_traced_recomb(ctx, batch, case, t):
    """the vector handed to the solver (trace) = the model's cost map of the accessible positions, for the genetic map /
    recombination rate of this run"""
    data = case["data"]
    acc = t["accessible_positions"]
    if data.get("genmap"):
        rc = {"kind": "recomb", "positions": acc, "map": [[p, float(repr(c))] for p, _, c in data["genmap"]], "rate": None}
    else:
        rc = {"kind": "recomb", "positions": acc, "map": None, "rate": option_value(case["args"], "--recombrate", 1.26)}
    got = [int(x) for x in t["recombination_costs"]]
    ctx.dist("cli_recombination_cost_values", min(len(set(got[1:])), 6))

    def cb(req, ans, got=got):
        ctx.validated()
        if ans != {"ok": got}:
            ctx.disagree("c05.recomb(trace)", case, got, ans)
    batch.add(recomb_request(rc), cb)
    mean = recomb_meaning(rc)
    if mean is not None and (len(mean) != len(got) or any(not (lo <= v <= hi) for v, (lo, hi) in zip(got, mean))):
        ctx.disagree("c05.recomb(trace, meaning)", case, got, mean)


def check_cli_lik(ctx, batch, case, samples, recs, inrecs, trace):
    """`whatshap phase --ped --distrust-genotypes`: correspondence of every stage with the model (likelihoods handed to the
    solver, phasable variants, recombination costs, super reads and optimal cost, genotypes and phase written) and the
    clauses proved for the likelihood variant on the traced super reads and on the OUTPUT genotypes.  The property text is
    about trusted genotypes: nothing here is reported as a property violation."""
    from harness.gen import c05_ped as G
    data, args = case["data"], case["args"]
    genetic = "--no-genetic-haplotyping" not in args
    include_hom = "--include-homozygous" in args
    default_gq = option_value(args, "--default-gq", 30, int)
    reg = option_value(args, "--gl-regularizer", None)
    ctx.dist("cli_mode", case["mode"]); ctx.dist("cli_genmap", bool(data.get("genmap")))
    ctx.dist("lik_cli_include_homozygous", include_hom); ctx.dist("lik_cli_regularizer", reg is not None)
    sidx = {s: samples.index(s) for s in samples}
    in_gt = {s: [GT_LIST_of(r["calls"][sidx[s]]["GT"]) for r in inrecs] for s in samples}
    pos_list = [r["pos"] for r in inrecs]
    vi_of = {p: i for i, p in enumerate(pos_list)}
    phase = {s: G.decode_calls(recs, sidx[s]) for s in samples}
    out_gt = {s: {r["pos"]: GT_LIST_of(r["calls"][sidx[s]].get("GT")) for r in recs} for s in samples}
    n_changed = n_phased = 0
    for t in trace:
        fam, trios = t["family"], t["trios"]
        want = sorted(tuple(tr) for tr in data["trios"] if tr[2] in fam)
        if sorted(tuple(tr) for tr in trios) != want:
            ctx.disagree("pedigree structure handed to the solver", case, trios, want)
            continue
        acc, tv = t["accessible_positions"], t["transmission_vector"]
        fidx = {s: i for i, s in enumerate(fam)}
        if len(fam) > 1:
            check_traced_recomb(ctx, batch, case, t)
        # ---- likelihoods handed to the solver = create_pedigree's, from the input records
        calls, where = [], []
        for s in fam:
            for ci, p in enumerate(acc):
                c = inrecs[vi_of[p]]["calls"][sidx[s]]
                got = t["genotype_likelihoods"][s][ci]
                got = None if got is None else [int(x) if float(x).is_integer() else x for x in got]
                if c.get("GL") is not None:
                    calls.append(({"calls": [[fl(float(x)) for x in c["GL"]]]}, got, (s, p)))
                elif c.get("PL") is not None:
                    calls.append(({"pls": [list(c["PL"])]}, got, (s, p)))
                    if reg is None and got != [x - min(c["PL"]) for x in c["PL"]]:
                        ctx.disagree("plToPhred(trace)", case, {"sample": s, "pos": p, "PL": list(c["PL"]), "handed to the solver": got},
                                     [x - min(c["PL"]) for x in c["PL"]])
                else:
                    g = sum(in_gt[s][vi_of[p]])
                    if got != [0 if k == g else default_gq for k in range(3)]:
                        ctx.disagree("defaultGl(trace)", case, {"sample": s, "pos": p, "handed to the solver": got},
                                     [0 if k == g else default_gq for k in range(3)])
        for body, got, (s, p) in calls:
            def cb_gl(req, ans, got=got, s=s, p=p):
                if ans[0] != got:
                    ctx.disagree("c05.as_phred(trace)", case, {"sample": s, "pos": p, "handed to the solver": got}, ans[0])
            batch.add(dict(body, op="c05.as_phred", reg=None if reg is None else fl(reg)), cb_gl)
        # ---- phasable variants
        tab = [in_gt[s] for s in fam]

        def cb_ph(req, ans, t=t):
            ctx.validated()
            keep_pos = {pos_list[i] for i in ans["keep"]}
            hom_pos = sorted(pos_list[i] for i in ans["hom"])
            if hom_pos != sorted(t["homozygous_positions"]):
                ctx.disagree("c05.phaseable(homozygous_positions, distrust)", case, sorted(t["homozygous_positions"]), hom_pos)
            if not set(t["accessible_positions"]) <= keep_pos:
                ctx.disagree("c05.phaseable(accessible within retained, distrust)", case, t["accessible_positions"], sorted(keep_pos))
        batch.add({"op": "c05.phaseable", "tab": tab, "trios": [[fidx[f], fidx[m], fidx[c]] for f, m, c in trios], "include_hom": include_hom}, cb_ph)
        check_traced_table(ctx, batch, case, t, tab, pos_list, [[fidx[f], fidx[m], fidx[c]] for f, m, c in trios], include_hom)
        # ---- super reads and optimal cost
        sr = [[[a[0], a[1], b[1]] for a, b in zip(t["superreads"][s][0]["variants"], t["superreads"][s][1]["variants"])] for s in fam]
        ids = t["numeric_sample_ids"]
        name_of = {ids[s]: s for s in fam}
        reads = [{"name": i, "sample": name_of[r["sample_id"]], "variants": r["variants"]} for i, r in enumerate(t["all_reads"])]
        part = {i: p for i, p in enumerate(t["partitioning"] or [])}
        gls = {s: [[int(x) for x in g] for g in t["genotype_likelihoods"][s]] for s in fam}
        if acc and t["partitioning"] is not None:
            req = column_requests(fam, trios, acc, t["genotypes"], reads, part, tv, gls_by_name=gls)

            def cb_sr(req, ans, sr=sr, acc=acc, t=t):
                want = [[[x[ci][1], x[ci][2]] for x in sr] for ci in range(len(acc))]
                got = [a["alleles"] if isinstance(a, dict) else a for a in ans]
                if got != want:
                    ctx.disagree("c05.lik_columns(trace)", case, want, got)
                    return
                costs = [a["cost"] for a in ans]
                rc = transition_cost(t["recombination_costs"], t["transmission_vector"])
                if any(x is None for x in costs) or sum(costs) + rc != t["cost"]:
                    ctx.disagree("c05.lik_columns(trace: optimal cost = column costs + recombination costs)", case, t["cost"],
                                 {"columns": costs, "recombination": rc})
            batch.add(req, cb_sr)
        n_def, n_tie = lik_oracle(ctx, case, fam, trios, acc, sr, tv, "whatshap phase --distrust-genotypes (trace)")
        ctx.dist("lik_cli_trio_columns_with_tie", min(n_tie // 3 * 3, 30))
        # ---- the writer: genotype {a0, a1} where both super-read alleles are definite, input genotype otherwise; phased iff
        # the position has a component, both alleles are definite and the (new) genotype is heterozygous
        comps = {a: b for a, b in t["overall_components"]}
        bad_writer = False
        for s in fam:
            srs = {x[0]: (x[1], x[2]) for x in sr[fidx[s]]}
            for vi, pos in enumerate(pos_list):
                g = in_gt[s][vi]
                definite = pos in srs and all(a in (0, 1) for a in srs[pos])
                og = sorted(srs[pos], reverse=True) if definite else g
                n_changed += og != g
                model = (comps[pos] + 1, tuple(srs[pos])) if (pos in comps and definite and sorted(og) == [0, 1]) else None
                got = phase[s].get(pos)
                n_phased += got is not None
                if (got != model or out_gt[s].get(pos) != og) and not bad_writer:
                    bad_writer = True
                    ctx.disagree("writer(distrust): genotype and phase", case,
                                 {"sample": s, "pos": pos, "input": g, "superread": srs.get(pos), "output_gt": out_gt[s].get(pos), "output_phase": got},
                                 {"gt": og, "phase": model})
        # ---- OUTPUT genotypes: where the six super-read alleles of a trio are definite the written genotypes have no conflict
        for f, m, c in trios:
            for ci, pos in enumerate(acc):
                six = [x for who in (f, m, c) for x in sr[fidx[who]][ci][1:]]
                if all(x in (0, 1) for x in six):
                    gf, gm, gc = out_gt[f].get(pos), out_gt[m].get(pos), out_gt[c].get(pos)
                    if gf and gm and gc and not feasible_child(gf, gm, gc):
                        ctx.disagree("lik_output_genotypes_mendelian(output VCF)", case, {"pos": pos, "father": gf, "mother": gm, "child": gc},
                                     "no Mendelian conflict among the written genotypes of a trio whose super-read alleles are definite")
                elif pos in out_gt[c]:
                    gf, gm, gc = out_gt[f].get(pos), out_gt[m].get(pos), out_gt[c].get(pos)
                    if gf and gm and gc and not feasible_child(gf, gm, gc):
                        ctx.dist("lik_cli_output_conflict_with_tie", True)
                        ctx.observe("--distrust-genotypes: a trio's OUTPUT genotypes have a Mendelian conflict at a variant where a "
                                    "super-read allele carries a tie flag (the tied member keeps its input genotype); outside C05's text")
    ctx.dist("lik_cli_changed_genotypes", min(n_changed // 2 * 2, 20))
    if n_changed and n_phased:
        ctx.nontrivial(json.dumps([data["gt"], args, len(data["reads"])]))


def GT_LIST_of(gt):
    alleles = gt[0] if gt else None
    if alleles is None or len(alleles) < 2 or any(a is None for a in alleles):
        return []
    return sorted(alleles, reverse=True)


# ------------------------------------------------------------------------------------------------

def run_case(ctx, batch, case):
    k = case.get("kind")
    if k == "table":
        do_table(ctx, batch, case)
    elif k == "dp":
        do_dp(ctx, batch, case)
    elif k == "dplik":
        do_dplik(ctx, batch, case)
    elif k == "recomb":
        do_recomb(ctx, batch, case)
    elif k == "asphred":
        do_asphred(ctx, batch, case)
    elif k == "phredlaw":
        do_phred_laws(ctx, batch)
    elif k == "cli":
        run_cli(ctx, batch, case)
    elif k == "conflict":
        do_conflict_table(ctx)


def run(ctx):
    from harness.props.c03 import Batch
    from harness.gen import c05_ped as G
    rng = ctx.rng
    batch = Batch(ctx)
    if ctx.replay:
        run_case(ctx, batch, json.load(open(ctx.replay))["case"]); batch.flush()
        shutil.rmtree(ctx.workdir(), ignore_errors=True); return
    for _, c in ctx.corpus():
        run_case(ctx, batch, c)
    do_conflict_table(ctx)
    for _ in range((1000 if ctx.quick else 10000) * ctx.scale):
        do_table(ctx, batch, gen_table_case(rng))
    for _ in range((2500 if ctx.quick else 30000) * ctx.scale):
        do_dp(ctx, batch, gen_dp_case(rng))
    for _ in range((1500 if ctx.quick else 20000) * ctx.scale):
        do_dplik(ctx, batch, gen_dplik_case(rng))
    do_phred_laws(ctx, batch)
    for _ in range((1500 if ctx.quick else 20000) * ctx.scale):
        do_recomb(ctx, batch, gen_recomb_case(rng))
    for _ in range((500 if ctx.quick else 5000) * ctx.scale):
        do_asphred(ctx, batch, gen_asphred_case(rng))
    batch.flush()
    G.assert_overlay_in_use(ctx.overlay)
    modes = ["trio-noreads", "trio-sparse", "trio-deep", "trio-deep", "quartet-noreads", "quartet-sparse", "quartet-deep",
             "quartet-deep", "trio-sparse", "quartet-sparse", "trio-noreads-nogenetic", "trio-deep-nogenetic",
             "quartet-sparse-nogenetic", "trio-deep", "quartet-deep", "trio-sparse", "quartet-noreads", "trio-noreads",
             "quartet-deep-nogenetic", "quartet-sparse", "trio-recomb", "quartet-recomb", "trio-recomb", "quartet-recomb",
             "trio-recomb", "quartet-recomb", "trio-lik", "quartet-lik", "trio-lik", "quartet-lik", "trio-lik", "quartet-lik"]
    if not ctx.quick:
        modes = modes * 10
    for m in modes * ctx.scale:
        run_cli(ctx, batch, gen_cli_case(rng, m))
    # the input VCF is already phased (all / some members, PS / HP / bare phased GT, every record kind)
    pre = ["trio-noreads", "quartet-sparse", "trio-deep", "quartet-noreads", "trio-sparse", "quartet-deep", "trio-sparse-nogenetic",
           "quartet-lik"]
    if not ctx.quick:
        pre = pre * 8
    for m in pre * ctx.scale:
        run_cli(ctx, batch, gen_cli_case(rng, m, prephase=True))
    # several chromosomes in one run whose coordinates coincide at the boundary (seed C05-i): always a few, read-less
    # genetic phasing and with reads, two contigs and three with the middle one deselected
    lays = [("trio-noreads", {"base": "identical", "chain": "phased", "n": 2, "skip_middle": False}),
            ("quartet-noreads", {"base": "subset", "chain": "phased", "n": 3, "skip_middle": True}),
            ("trio-sparse", {"base": "subset", "chain": "phased", "n": 2, "skip_middle": False}),
            ("quartet-deep", {"base": "identical", "chain": "phased", "n": 3, "skip_middle": True})]
    if not ctx.quick:
        lays = lays * 8
    for m, lay in lays * ctx.scale:
        run_cli(ctx, batch, gen_cli_case(rng, m, layout=lay))
    batch.flush()
    G.assert_overlay_in_use(ctx.overlay)
    if not ctx.quick:
        exhaustive(ctx, batch)
    shutil.rmtree(ctx.workdir(), ignore_errors=True)


def exhaustive(ctx, batch):
    """all 27 x 27 two-variant trios without reads, in two member orders, through the real DP table"""
    g3 = [[0, 0], [1, 0], [1, 1]]
    triples = list(itertools.product(g3, repeat=3))
    cnt = 0
    for order in (["f", "m", "c"], ["c", "m", "f"]):
        for t1 in triples:
            for t2 in triples:
                case = {"kind": "dp", "order": order, "trios": [["f", "m", "c"]], "positions": [10, 20],
                        "gts": {"f": [t1[0], t2[0]], "m": [t1[1], t2[1]], "c": [t1[2], t2[2]]}, "reads": [], "recomb": [0, 10]}
                do_dp(ctx, batch, case); cnt += 1
    ctx.extra["exhaustive_two_variant_trios_without_reads"] = cnt
    ctx.extra["exhaustive"] = True
    batch.flush()
